"""Exact multivariate polynomials over Q[i] for the symtorch shim (Engine B).

Representation
    Poly.t : dict  monomial -> coefficient
    monomial    : tuple of (var_id, exponent) pairs, sorted by var_id, exponents >= 1
    coefficient : int or fractions.Fraction (never 0; Fractions with denominator 1 are ints)

The imaginary unit is the variable with id 0 ("I") with the rewrite I*I -> -1 applied in
every product, so coefficients stay rational and conj/real/imag are syntactic.
ALL OTHER VARIABLES DENOTE REAL NUMBERS (a complex unknown is  re + I*im  of two variables).

Angles: `angle(name)` registers three variables  name (the raw angle, only meaningful as an
argument of cos / sin / exp(+-I*.)),  cos(name),  sin(name); every product is normalised
with  sin^2 -> 1 - cos^2, which is a canonical form for Q[i][c,s]/(c^2+s^2-1).
Square roots / absolute values of non-square expressions P are fresh "root" variables r_P with
the rewrite r_P^2 -> P (so `vector_norm(x)**2` normalises to sum |x_k|^2); this uses only
r^2 = P, i.e. it is sound for identities, and assumes P >= 0 where torch would return nan.
Hence two Polys denote the same function of the real variables (subject to the angle
relations) iff their dicts are equal: `same()` is an exact decision procedure.

Truth values: a Poly is "true" iff it is non-zero.  That is only decided for the zero
polynomial (False), non-zero constants (True) and single monomials made only of variables
that the harness declared `nonzero=True` ("this entry is a non-zero symbol").  Everything
else raises UndecidedTruth -- the harness reports exit 2, never a verdict.
"""
from __future__ import annotations

from fractions import Fraction
import math as _math
import numbers

__all__ = ["Poly", "var", "angle", "const", "I", "ZERO", "ONE", "UnsupportedOp", "UndecidedTruth",
           "reset_registry", "var_names", "diff"]


class UnsupportedOp(Exception):
    """The shim cannot give this operation an exact meaning -> the check is undecided (exit 2)."""


class UndecidedTruth(UnsupportedOp):
    """Data-dependent control flow on a polynomial whose sign/zero-ness is not determined."""


_names: list = ["I"]
_ids: dict = {"I": 0}
_nonzero: set = set()
_sin_to_cos: dict = {}        # sin var id -> cos var id
_angle: dict = {}             # raw angle var id -> (cos id, sin id)
_root_of: dict = {}           # root var id -> Poly P   (the variable denotes +sqrt(P); rewrite r^2 -> P)


def reset_registry():
    del _names[1:]
    _ids.clear()
    _ids["I"] = 0
    _nonzero.clear()
    _sin_to_cos.clear()
    _angle.clear()
    _root_of.clear()


def var_names():
    return list(_names)


def _new_id(name):
    if name in _ids:
        return _ids[name]
    _ids[name] = len(_names)
    _names.append(name)
    return _ids[name]


def _nc(c):
    """normalise a coefficient"""
    if type(c) is int:
        return c
    if isinstance(c, Fraction):
        return c.numerator if c.denominator == 1 else c
    if isinstance(c, bool):
        return int(c)
    if isinstance(c, numbers.Integral):
        return int(c)
    if isinstance(c, numbers.Real):
        f = Fraction(float(c))          # exact: every finite double is a rational
        return f.numerator if f.denominator == 1 else f
    raise TypeError(f"not a real coefficient: {c!r}")


def _mono_mul(a, b):
    """product of two monomials -> (monomial, sign, has_sin_square)"""
    if not a:
        return b, 1, False
    if not b:
        return a, 1, False
    out = []
    i = j = 0
    la, lb = len(a), len(b)
    sign = 1
    sq = False
    while i < la and j < lb:
        va, ea = a[i]
        vb, eb = b[j]
        if va == vb:
            if va == 0:
                sign = -sign            # I*I = -1
            else:
                e = ea + eb
                if va in _sin_to_cos or va in _root_of:
                    sq = True
                out.append((va, e))
            i += 1
            j += 1
        elif va < vb:
            out.append(a[i])
            i += 1
        else:
            out.append(b[j])
            j += 1
    if i < la:
        out.extend(a[i:])
    if j < lb:
        out.extend(b[j:])
    return tuple(out), sign, sq


def _arith_operand(x):
    """operand of a Poly arithmetic operator.  A shim tensor of ANY rank is left to the tensor's reflected
    operator (torch: python scalar (op) 0-d tensor is a tensor, never a python scalar)."""
    if getattr(type(x), "IS_SYMTORCH_TENSOR", False):
        raise TypeError("tensor operand")
    return Poly.coerce(x)


class Poly:
    __slots__ = ("t",)
    __hash__ = None                 # == is semantic, not structural

    def __init__(self, t=None):
        self.t = t if t is not None else {}

    # ---------------------------------------------------------------- construction
    @staticmethod
    def coerce(x):
        if type(x) is Poly:
            return x
        if isinstance(x, (bool, int)):
            return Poly({(): int(x)}) if x else Poly()
        if isinstance(x, Fraction):
            return Poly({(): _nc(x)}) if x else Poly()
        if isinstance(x, numbers.Real):
            c = _nc(x)
            return Poly({(): c}) if c else Poly()
        if isinstance(x, numbers.Complex):
            x = complex(x)
            t = {}
            re, im = _nc(x.real), _nc(x.imag)
            if re:
                t[()] = re
            if im:
                t[((0, 1),)] = im
            return Poly(t)
        # numpy 0-d arrays and friends
        item = getattr(x, "item", None)
        if item is not None and getattr(x, "shape", None) == ():
            return Poly.coerce(item())
        raise TypeError(f"cannot turn {type(x).__name__} into a Poly")

    def copy(self):
        return Poly(dict(self.t))

    # ---------------------------------------------------------------- predicates
    def is_zero(self):
        return not self.t

    def is_const(self):
        return all(m == () or m == ((0, 1),) for m in self.t)

    def is_real_const(self):
        return not self.t or (len(self.t) == 1 and () in self.t)

    def const_parts(self):
        """(re, im) as Fractions; raises if not constant"""
        if not self.is_const():
            raise UnsupportedOp(f"numeric value of the symbolic expression {self}")
        return Fraction(self.t.get((), 0)), Fraction(self.t.get(((0, 1),), 0))

    def has_imag(self):
        return any(m and m[0][0] == 0 for m in self.t)

    def variables(self):
        return sorted({_names[v] for m in self.t for v, _ in m})

    def same(self, other):
        """exact identity of the two polynomial functions (normal forms are canonical)"""
        return self.t == Poly.coerce(other).t

    def __bool__(self):
        if not self.t:
            return False
        if self.is_const():
            return True
        if len(self.t) == 1:
            (m, _), = self.t.items()
            if all(v == 0 or v in _nonzero for v, _ in m):
                return True
        raise UndecidedTruth(f"truth value of {self} (only zero / constants / monomials of "
                             "non-zero-declared symbols are decided)")

    # ---------------------------------------------------------------- arithmetic
    def __neg__(self):
        return Poly({m: -c for m, c in self.t.items()})

    def __pos__(self):
        return self

    def __add__(self, other):
        try:
            o = _arith_operand(other)
        except TypeError:
            return NotImplemented
        if not o.t:
            return self
        if not self.t:
            return o
        a, b = (self.t, o.t) if len(self.t) >= len(o.t) else (o.t, self.t)
        t = dict(a)
        for m, c in b.items():
            s = t.get(m)
            if s is None:
                t[m] = c
            else:
                s = s + c
                if s:
                    t[m] = _nc(s) if type(s) is not int else s
                else:
                    del t[m]
        return Poly(t)

    __radd__ = __add__

    def __sub__(self, other):
        try:
            o = _arith_operand(other)
        except TypeError:
            return NotImplemented
        return self + (-o)

    def __rsub__(self, other):
        try:
            o = _arith_operand(other)
        except TypeError:
            return NotImplemented
        return o + (-self)

    def __mul__(self, other):
        try:
            o = _arith_operand(other)
        except TypeError:
            return NotImplemented
        if not self.t or not o.t:
            return ZERO
        t = {}
        need_reduce = False
        for ma, ca in self.t.items():
            for mb, cb in o.t.items():
                m, sign, sq = _mono_mul(ma, mb)
                c = ca * cb
                if sign < 0:
                    c = -c
                if sq:
                    need_reduce = True
                s = t.get(m)
                if s is None:
                    t[m] = c
                else:
                    s = s + c
                    if s:
                        t[m] = s
                    else:
                        del t[m]
        for m, c in t.items():
            if type(c) is not int:
                t[m] = _nc(c)
        p = Poly(t)
        return p._reduce_sin() if need_reduce else p

    __rmul__ = __mul__

    def _reduce_sin(self):
        """rewrite s^e (e >= 2) with s^2 = 1 - c^2 and r^e (e >= 2) with r^2 = P for root variables"""
        out = ZERO
        for m, c in self.t.items():
            bad = [(v, e) for v, e in m if (v in _sin_to_cos or v in _root_of) and e >= 2]
            if not bad:
                out = out + Poly({m: c})
                continue
            rest = tuple((v, e) for v, e in m if not ((v in _sin_to_cos or v in _root_of) and e >= 2))
            term = Poly({rest: c})
            for v, e in bad:
                if v in _sin_to_cos:
                    cv = _sin_to_cos[v]
                    sq = Poly({(): 1, ((cv, 2),): -1})
                else:
                    sq = _root_of[v]
                for _ in range(e // 2):
                    term = term * sq
                if e % 2:
                    term = term * Poly({((v, 1),): 1})
            out = out + term
        return out

    def __truediv__(self, other):
        try:
            o = _arith_operand(other)
        except TypeError:
            return NotImplemented
        if not o.t:
            raise ZeroDivisionError("Poly division by the zero polynomial")
        if not o.is_const():
            raise UnsupportedOp(f"division by the symbolic expression {o}")
        re, im = o.const_parts()
        n = re * re + im * im
        inv = Poly.coerce(re / n) + Poly({((0, 1),): 1}) * Poly.coerce(-im / n) if im else Poly.coerce(1 / re)
        return self * inv

    def __rtruediv__(self, other):
        return Poly.coerce(other) / self

    def __pow__(self, e):
        if isinstance(e, Poly):
            if not e.is_real_const():
                raise UnsupportedOp("symbolic exponent")
            e = e.const_parts()[0]
        if isinstance(e, float) and e == int(e):
            e = int(e)
        if isinstance(e, Fraction) and e.denominator == 1:
            e = int(e)
        if not isinstance(e, int) or isinstance(e, bool):
            raise UnsupportedOp(f"non-integer power {e!r}")
        if e < 0:
            return ONE / (self ** (-e))
        r = ONE
        b = self
        while e:
            if e & 1:
                r = r * b
            e >>= 1
            if e:
                b = b * b
        return r

    # ---------------------------------------------------------------- complex structure
    def conj(self):
        if not self.has_imag():
            return self
        return Poly({m: (-c if (m and m[0][0] == 0) else c) for m, c in self.t.items()})

    conjugate = conj                # a symbolic `tensor.item()` stands for a python complex (`alpha.conjugate()`)

    def real(self):
        if not self.has_imag():
            return self
        return Poly({m: c for m, c in self.t.items() if not (m and m[0][0] == 0)})

    def imag(self):
        return Poly({m[1:]: c for m, c in self.t.items() if m and m[0][0] == 0})

    # ---------------------------------------------------------------- comparisons
    def __eq__(self, other):
        try:
            d = self - other
        except TypeError:
            return NotImplemented
        return not bool(d)                  # may raise UndecidedTruth

    def __ne__(self, other):
        r = self.__eq__(other)
        return r if r is NotImplemented else not r

    def _cmp_value(self, other, what):
        d = self - Poly.coerce(other)
        if not d.is_real_const():
            raise UndecidedTruth(f"order comparison ({what}) of the symbolic expression {d} with 0")
        return d.const_parts()[0]

    def __lt__(self, other):
        return self._cmp_value(other, "<") < 0

    def __le__(self, other):
        return self._cmp_value(other, "<=") <= 0

    def __gt__(self, other):
        return self._cmp_value(other, ">") > 0

    def __ge__(self, other):
        return self._cmp_value(other, ">=") >= 0

    # ---------------------------------------------------------------- conversions
    def __complex__(self):
        re, im = self.const_parts()
        return complex(float(re), float(im))

    def __float__(self):
        re, im = self.const_parts()
        if im:
            raise TypeError("complex Poly to float")
        return float(re)

    def __int__(self):
        re, im = self.const_parts()
        if im:
            raise TypeError("complex Poly to int")
        return int(re)

    def __index__(self):
        re, im = self.const_parts()
        if im or re.denominator != 1:
            raise TypeError("Poly is not an integer")
        return int(re)

    def pyvalue(self):
        """python number for a constant (int / float / complex), else self"""
        if not self.is_const():
            return self
        re, im = self.const_parts()
        if im:
            return complex(float(re), float(im))
        return int(re) if re.denominator == 1 else float(re)

    def evalf(self, env):
        """numeric value for an assignment {variable name: float}"""
        import cmath
        tot = 0j
        for m, c in self.t.items():
            v = complex(float(c))
            for vid, e in m:
                if vid == 0:
                    x = 1j
                elif vid in _root_of and _names[vid] not in env:
                    x = cmath.sqrt(_root_of[vid].evalf(env))
                else:
                    x = env[_names[vid]]
                v *= x ** e
            tot += v
        return tot

    def subs_exact(self, env):
        """exact value (Fraction re, Fraction im) for an assignment {name: Fraction}"""
        re = Fraction(0)
        im = Fraction(0)
        for m, c in self.t.items():
            v = Fraction(c)
            is_im = False
            for vid, e in m:
                if vid == 0:
                    is_im = True
                else:
                    v *= Fraction(env[_names[vid]]) ** e
            if is_im:
                im += v
            else:
                re += v
        return re, im

    def degree(self):
        return max((sum(e for v, e in m if v != 0) for m in self.t), default=0)

    # ---------------------------------------------------------------- printing
    def __repr__(self):
        if not self.t:
            return "0"
        parts = []
        for m in sorted(self.t, key=lambda mm: (sum(e for _, e in mm), mm)):
            c = self.t[m]
            names = "*".join(_names[v] + (f"^{e}" if e > 1 else "") for v, e in m)
            if not names:
                parts.append(str(c))
            elif c == 1:
                parts.append(names)
            elif c == -1:
                parts.append("-" + names)
            else:
                parts.append(f"{c}*{names}")
        return " + ".join(parts).replace("+ -", "- ")

    __str__ = __repr__


ZERO = Poly()
ONE = Poly({(): 1})
I = Poly({((0, 1),): 1})


def const(x):
    return Poly.coerce(x)


def var(name, nonzero=False):
    """a real variable; nonzero=True declares 'this symbol is assumed != 0' (sparsity patterns)"""
    vid = _new_id(name)
    if nonzero:
        _nonzero.add(vid)
    return Poly({((vid, 1),): 1})


def angle(name):
    """raw angle variable `name` (assumed non-zero) with cos/sin companions cos(name), sin(name)"""
    pid = _new_id(name)
    cid = _new_id(f"cos({name})")
    sid = _new_id(f"sin({name})")
    _nonzero.add(pid)
    _sin_to_cos[sid] = cid
    _angle[pid] = (cid, sid)
    return Poly({((pid, 1),): 1})


def _single_angle(p):
    """p == k * phi for a registered raw angle phi and k in {1,-1,I,-I} -> (phi id, k as str)"""
    if len(p.t) != 1:
        return None
    (m, c), = p.t.items()
    if c not in (1, -1):
        return None
    if len(m) == 1 and m[0][0] in _angle and m[0][1] == 1:
        return m[0][0], ("+" if c == 1 else "-")
    if len(m) == 2 and m[0] == (0, 1) and m[1][0] in _angle and m[1][1] == 1:
        return m[1][0], ("+I" if c == 1 else "-I")
    return None


def p_cos(p):
    p = Poly.coerce(p)
    if not p.t:
        return ONE
    a = _single_angle(p)
    if a and a[1] in "+-":
        return Poly({((_angle[a[0]][0], 1),): 1})
    raise UnsupportedOp(f"cos of {p} (only 0 and +-<angle symbol> have an exact meaning here)")


def p_sin(p):
    p = Poly.coerce(p)
    if not p.t:
        return ZERO
    a = _single_angle(p)
    if a and a[1] in "+-":
        return Poly({((_angle[a[0]][1], 1),): 1 if a[1] == "+" else -1})
    raise UnsupportedOp(f"sin of {p} (only 0 and +-<angle symbol> have an exact meaning here)")


_QUARTER_TURN = Fraction(_math.pi / 2)     # the double nearest to pi/2 (2 * it is exactly the double math.pi)


def _split_quarter_turns(p):
    """p == I*k*fl(pi/2) + rest with k a non-zero integer, |k| <= 8  ->  (k, rest); else None.

    Reading (part of A1, float arithmetic read as exact real arithmetic): the double constant
    `torch.pi / 2` denotes pi/2, so exp(I*(x + k*pi/2)) = I^k * exp(I*x).  Only exact integer multiples of that
    one double are recognised; any other constant stays without a meaning (UnsupportedOp)."""
    c = p.t.get(((0, 1),))
    if c is None or () in p.t:
        return None
    k = Fraction(c) / _QUARTER_TURN
    if k.denominator != 1 or not 0 < abs(k) <= 8:
        return None
    return int(k), Poly({m: v for m, v in p.t.items() if m != ((0, 1),)})


def p_exp(p):
    p = Poly.coerce(p)
    if not p.t:
        return ONE
    a = _single_angle(p)
    if a and a[1] in ("+I", "-I"):
        cid, sid = _angle[a[0]]
        return Poly({((cid, 1),): 1, ((0, 1), (sid, 1)): 1 if a[1] == "+I" else -1})
    q = _split_quarter_turns(p)
    if q:
        k, rest = q
        return (I ** (k % 4)) * p_exp(rest)
    raise UnsupportedOp(f"exp of {p} (only 0, +-I*<angle symbol> and those plus I*k*pi/2 have an exact meaning here)")


# ------------------------------------------------------------------------------------------
# differentiation (used by specifications that are derivatives; never by the shim's torch ops)
# ------------------------------------------------------------------------------------------
def _dvar(p, vid):
    """formal partial derivative with respect to the variable id `vid`"""
    t = {}
    for m, c in p.t.items():
        for pos, (v, e) in enumerate(m):
            if v == vid:
                m2 = m[:pos] + (((v, e - 1),) if e > 1 else ()) + m[pos + 1:]
                s = t.get(m2, 0) + c * e
                if s:
                    t[m2] = _nc(s)
                else:
                    t.pop(m2, None)
                break
    return Poly(t)


def subs_const(p, values):
    """substitute rational constants for variables: values = {variable name: int | Fraction}.  The caller
    keeps angle companions consistent (cos -> 1 together with sin -> 0 for the literal phase 0)."""
    p = Poly.coerce(p)
    ids = {_ids[n]: Fraction(v) for n, v in values.items() if n in _ids}
    if not ids:
        return p
    out = {}
    for m, c in p.t.items():
        keep = []
        for v, e in m:
            if v in ids:
                c = c * ids[v] ** e
            else:
                keep.append((v, e))
        if c:
            k = tuple(keep)
            s = out.get(k, 0) + c
            if s:
                out[k] = _nc(s)
            else:
                out.pop(k, None)
    return Poly(out)


def diff(p, name):
    """partial derivative of p with respect to the real variable `name`; when `name` is a raw angle
    registered with `angle(name)`, the derivative with respect to that angle:  d cos = -sin, d sin = cos.

    Well defined on normal forms: the relations (I^2 = -1, sin^2 = 1 - cos^2 of *other* or the same angle)
    are preserved -- D(c^2 + s^2 - 1) = -2cs + 2sc = 0 -- so differentiating any representative and
    normalising the products gives the normal form of the derivative.  Refused (UnsupportedOp) for
    expressions containing root variables, for the raw angle outside cos/sin, and for non-variables."""
    p = Poly.coerce(p)
    vid = _ids.get(name)
    if vid is None:
        raise KeyError(f"derivative with respect to the unknown variable {name!r}")
    if vid == 0 or vid in _root_of or vid in _sin_to_cos or any(vid == c for c, _ in _angle.values()):
        raise UnsupportedOp(f"derivative with respect to {name} (not an independent real variable or angle)")
    if any(v in _root_of for m in p.t for v, _ in m):
        raise UnsupportedOp("derivative of an expression containing square-root variables")
    if vid in _angle:
        if any(v == vid for m in p.t for v, _ in m):
            raise UnsupportedOp(f"derivative of an expression containing the raw angle {name} outside cos/sin")
        cid, sid = _angle[vid]
        return _dvar(p, sid) * Poly({((cid, 1),): 1}) - _dvar(p, cid) * Poly({((sid, 1),): 1})
    return _dvar(p, vid)


def _isqrt_frac(q):
    from math import isqrt
    if q < 0:
        return None
    n, d = q.numerator, q.denominator
    rn, rd = isqrt(n), isqrt(d)
    if rn * rn == n and rd * rd == d:
        return Fraction(rn, rd)
    return None


def root(P):
    """the variable denoting +sqrt(P), with the rewrite  root^2 -> P  (sound for identities; P >= 0 is assumed)"""
    name = f"sqrt({P})"
    vid = _new_id(name)
    _root_of[vid] = P
    return Poly({((vid, 1),): 1})


def p_sqrt(p):
    p = Poly.coerce(p)
    if not p.t:
        return ZERO
    if p.is_real_const():
        r = _isqrt_frac(p.const_parts()[0])
        if r is not None:
            return Poly.coerce(r)
        if p.const_parts()[0] < 0:
            raise UnsupportedOp(f"sqrt of the negative constant {p}")
    if p.has_imag():
        raise UnsupportedOp(f"sqrt of the complex expression {p}")
    return root(p)


def p_abs(p):
    p = Poly.coerce(p)
    if p.is_real_const():
        return Poly.coerce(abs(p.const_parts()[0]))
    re, im = p.real(), p.imag()
    return p_sqrt(re * re + im * im)
