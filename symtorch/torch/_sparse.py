"""symtorch -- model of the torch sparse API used by emu_sv/sparse_operator.py (COO and CSR matrices).

NOT torch.  A sparse tensor is a subclass of the shim `Tensor` (so `isinstance(x, torch.Tensor)` holds, as
in torch) that carries NO dense storage: every dense-only operation reaching it raises `UnsupportedOp`.

What is modelled (every item was determined natively on torch 2.10 CPU and is compared op by op with real
torch in selftest/difftest.py):

* COO (2-D, no dense dimensions): the index list is kept exactly as given -- possibly unsorted, possibly with
  duplicates -- together with the `is_coalesced` FLAG, which is a claim, not a fact:
    sparse_coo_tensor(i, v, size)            flag = (nnz < 2) unless `is_coalesced=` is passed; indices are NOT
                                             validated by torch (check_invariants is off): indices outside the
                                             size are refused here (UnsupportedOp, torch's behaviour is undefined)
    dense.to_sparse_coo() / to_sparse()      row-major non-zero positions (a value-dependent decision: concrete
                                             entries only, otherwise UndecidedTruth), flag True
    coalesce()                               returns SELF when the flag is set (whatever the indices look like);
                                             otherwise lexicographic sort + duplicates summed, explicit zeros kept
    indices() / values()                     RuntimeError when the flag is not set (as torch); views of the storage
    _indices() / _values() / _nnz()          raw storage
    to_dense(), sparse @ dense               duplicates summed, independent of the order and of the flag
    scalar * s, s * scalar, s / scalar, -s   values scaled; indices, order and flag unchanged
    s1 + s2, s1 += s2, s1 - s2               both operands truly coalesced: sorted union, explicit zeros kept, flag
                                             True.  An operand that is not flagged, or flagged but not sorted and
                                             unique: torch's resulting LAYOUT (nnz, order) is an implementation
                                             detail -> UnsupportedOp
* CSR: (crow_indices, col_indices, values) exactly as produced.
    coo.to_sparse_csr()                      not flagged: coalesce first.  Flagged: torch TRUSTS the flag and runs
                                             its sequential row-compression kernel on the row indices as stored
                                             (convert_indices_from_coo_to_csr_cpu; sequential below the grain size
                                             of 32768 entries).  That kernel is deterministic and is modelled
                                             literally, so a tensor flagged coalesced whose rows are NOT sorted
                                             yields the same wrong CSR matrix as torch (entries in the wrong rows).
                                             At or above the grain size with unsorted rows: UnsupportedOp.
    csr @ dense (vector / matrix), to_dense(), to_sparse_coo() (flag True, as torch), scalar * csr, clone, to
* `to(dtype=, device=)` returns self when nothing changes; device is a label.
* deepcopy: COO copies; CSR raises NotImplementedError as torch does ("Cannot access storage of
  SparseCsrTensorImpl") -- the reason SparseOperator defines __deepcopy__ via torch.clone.

Not modelled (UnsupportedOp): sparse * sparse, sparse @ sparse, CSR + CSR, CSR / scalar, hybrid tensors (dense
dimensions), sparse_dim != 2, BSR/BSC/CSC layouts, transposes, autograd.
"""
from __future__ import annotations

import builtins
import sys as _sys

import numpy as np

from poly import Poly, UnsupportedOp

T = _sys.modules[__package__]                      # the shim's `torch` module (partially initialised is fine)
Tensor = T.Tensor
_log = T._log

CSR_KERNEL_GRAIN = 32768                           # at::internal::GRAIN_SIZE: below it the kernel is sequential


class layout:
    def __init__(self, name):
        self.name = name

    def __repr__(self):
        return "torch." + self.name


strided = layout("strided")
sparse_coo = layout("sparse_coo")
sparse_csr = layout("sparse_csr")


def _unsupported_dense(self):
    raise UnsupportedOp(f"a dense-tensor operation was applied to a {self._layout.name} tensor "
                        "(not part of the sparse model)")


class SparseTensor(Tensor):
    """COO: _idx (2, nnz) int64, _val dense 1-D shim tensor, _coal flag.  CSR: _crow, _col, _val."""
    __slots__ = ("_layout", "_shape", "_idx", "_val", "_coal", "_crow", "_col")

    _a = property(_unsupported_dense)              # shadows the storage slot of the dense tensor

    # -- construction ------------------------------------------------------------------------
    @staticmethod
    def _coo(idx, val, shape, coal, dev=None):
        t = object.__new__(SparseTensor)
        t._layout, t._shape = sparse_coo, tuple(builtins.int(s) for s in shape)
        t._idx, t._val, t._coal = idx, val, builtins.bool(coal)
        t._crow = t._col = None
        t._finish(val, dev)
        return t

    @staticmethod
    def _csr(crow, col, val, shape, dev=None):
        t = object.__new__(SparseTensor)
        t._layout, t._shape = sparse_csr, tuple(builtins.int(s) for s in shape)
        t._crow, t._col, t._val = crow, col, val
        t._idx, t._coal = None, None
        t._finish(val, dev)
        return t

    def _finish(self, val, dev):
        self.dtype = val.dtype
        self.device = dev if dev is not None else val.device
        self.requires_grad = False
        self.grad = None
        self._base = None

    def _is_coo(self):
        return self._layout is sparse_coo

    def _need_coo(self, what):
        if not self._is_coo():
            raise RuntimeError(f"{what} expected sparse coordinate tensor layout but got SparseCsr")

    # -- metadata ----------------------------------------------------------------------------
    @property
    def shape(self):
        return T.Size(self._shape)

    @property
    def ndim(self):
        return len(self._shape)

    def dim(self):
        return len(self._shape)

    def size(self, dim=None):
        return T.Size(self._shape) if dim is None else self._shape[dim]

    def numel(self):
        return self._shape[0] * self._shape[1]

    nelement = numel

    @property
    def layout(self):
        return self._layout

    @property
    def is_sparse(self):
        return self._is_coo()                       # torch: is_sparse is True for COO only

    @property
    def is_sparse_csr(self):
        return not self._is_coo()

    def sparse_dim(self):
        return 2

    def dense_dim(self):
        return 0

    def is_contiguous(self):
        raise UnsupportedOp("is_contiguous() of a sparse tensor")

    def __len__(self):
        return self._shape[0]

    def __iter__(self):
        raise UnsupportedOp("iteration over a sparse tensor")

    def __repr__(self):
        if self._is_coo():
            return (f"tensor(indices={self._idx.tolist()!r}, values={self._val._a.tolist()!r}, size={self._shape}, "
                    f"nnz={self._nnz()}, dtype={self.dtype}, layout=torch.sparse_coo, is_coalesced={self._coal})")
        return (f"tensor(crow_indices={self._crow.tolist()!r}, col_indices={self._col.tolist()!r}, "
                f"values={self._val._a.tolist()!r}, size={self._shape}, nnz={self._nnz()}, dtype={self.dtype}, "
                "layout=torch.sparse_csr)")

    def __bool__(self):
        raise UnsupportedOp("truth value of a sparse tensor")

    def __getitem__(self, idx):
        raise UnsupportedOp("indexing a sparse tensor")

    def __setitem__(self, idx, value):
        raise UnsupportedOp("index assignment into a sparse tensor")

    # -- raw storage -------------------------------------------------------------------------
    def _nnz(self):
        _log("sparse._nnz")
        return builtins.int(self._val._a.shape[0])

    def _indices(self):
        self._need_coo("_indices")
        return Tensor._mk(self._idx, T.int64, self.device)

    def _values(self):
        return Tensor._mk(self._val._a, self.dtype, self.device)

    def is_coalesced(self):
        self._need_coo("is_coalesced")
        return self._coal

    def indices(self):
        _log("sparse.indices")
        self._need_coo("indices")
        if not self._coal:
            raise RuntimeError("Cannot get indices on an uncoalesced tensor, please call .coalesce() first")
        return Tensor._mk(self._idx, T.int64, self.device)          # a view of the storage, as in torch

    def values(self):
        _log("sparse.values")
        if self._is_coo() and not self._coal:
            raise RuntimeError("Cannot get values on an uncoalesced tensor, please call .coalesce() first")
        return Tensor._mk(self._val._a, self.dtype, self.device)

    def crow_indices(self):
        if self._is_coo():
            raise RuntimeError("crow_indices expected sparse row compressed tensor layout but got Sparse")
        return Tensor._mk(self._crow, T.int64, self.device)

    def col_indices(self):
        if self._is_coo():
            raise RuntimeError("col_indices expected sparse row compressed tensor layout but got Sparse")
        return Tensor._mk(self._col, T.int64, self.device)

    # -- layout conversions ------------------------------------------------------------------
    def _keys(self):
        return list(zip(self._idx[0].tolist(), self._idx[1].tolist()))

    def _truly_coalesced(self):
        k = self._keys()
        return builtins.all(k[i] < k[i + 1] for i in range(len(k) - 1))

    def coalesce(self):
        _log("coalesce")
        self._need_coo("coalesce")
        if self._coal:
            return self                                 # torch trusts the flag
        keys = self._keys()
        order = sorted(range(len(keys)), key=lambda p: keys[p])         # stable lexicographic sort
        out_keys, out_vals = [], []
        vals = self._val._a
        for p in order:
            if out_keys and out_keys[-1] == keys[p]:
                out_vals[-1] = out_vals[-1] + vals[p]
            else:
                out_keys.append(keys[p])
                out_vals.append(vals[p])
        idx = np.array(out_keys, dtype=np.int64).reshape(len(out_keys), 2).T.copy()
        return SparseTensor._coo(idx, _values_tensor(out_vals, self.dtype, self.device), self._shape, True)

    def _entries(self):
        """-> iterable of (row, col, value) with torch's reading of the stored layout"""
        vals = self._val._a
        if self._is_coo():
            for p, (r, c) in enumerate(self._keys()):
                yield r, c, vals[p]
        else:
            crow, col = self._crow.tolist(), self._col.tolist()
            for r in range(self._shape[0]):
                for p in range(crow[r], crow[r + 1]):
                    yield r, col[p], vals[p]

    def to_dense(self):
        _log("sparse.to_dense")
        out = T.zeros(self._shape, dtype=self.dtype, device=self.device)
        a = out._a
        for r, c, v in self._entries():
            a[r, c] = a[r, c] + v
        return out

    def to_sparse_coo(self):
        _log("to_sparse_coo")
        if self._is_coo():
            return self
        crow = self._crow.tolist()
        rows = [r for r in range(self._shape[0]) for _ in range(crow[r], crow[r + 1])]
        idx = np.array([rows, self._col.tolist()], dtype=np.int64).reshape(2, len(rows))
        return SparseTensor._coo(idx, self._val.clone(), self._shape, True)     # torch flags the result coalesced

    def to_sparse(self, *a, **k):
        if a or k:
            raise UnsupportedOp("to_sparse(...) with arguments")
        return self.to_sparse_coo()

    def to_sparse_csr(self, *a, **k):
        _log("to_sparse_csr")
        if a or k:
            raise UnsupportedOp("to_sparse_csr(...) with arguments")
        if not self._is_coo():
            return self
        src = self if self._coal else self.coalesce()
        rows = src._idx[0].tolist()
        crow = _rows_to_crow(rows, self._shape[0])
        if builtins.any(rows[i] > rows[i + 1] for i in range(len(rows) - 1)):
            _log("to_sparse_csr(flagged coalesced, rows unsorted)")
        return SparseTensor._csr(np.array(crow, dtype=np.int64), src._idx[1].copy(), src._val.clone(), self._shape)

    # -- copies / casts ----------------------------------------------------------------------
    def clone(self):
        _log("sparse.clone")
        if self._is_coo():
            return SparseTensor._coo(self._idx.copy(), self._val.clone(), self._shape, self._coal)
        return SparseTensor._csr(self._crow.copy(), self._col.copy(), self._val.clone(), self._shape)

    def detach(self):
        return self

    def contiguous(self):
        raise UnsupportedOp("contiguous() of a sparse tensor")

    def __deepcopy__(self, memo):
        if not self._is_coo():
            raise NotImplementedError("Cannot access storage of SparseCsrTensorImpl")      # as torch
        r = self.clone()
        memo[id(self)] = r
        return r

    def to(self, *args, **kw):
        _log("sparse.to")
        dt = kw.get("dtype")
        dev = kw.get("device")
        for a in args:
            if isinstance(a, T.dtype):
                dt = a
            elif isinstance(a, (str, T.device)):
                dev = a
            elif a is None:
                pass
            else:
                raise UnsupportedOp(f"sparse Tensor.to({type(a).__name__})")
        dt = dt or self.dtype
        dev = T._dev(dev) if dev is not None else self.device
        if dt is self.dtype and dev == self.device:
            return self
        val = Tensor._mk(T._cast_arr(self._val._a, self.dtype, dt).copy(), dt, dev)
        if self._is_coo():
            return SparseTensor._coo(self._idx.copy(), val, self._shape, self._coal, dev)
        return SparseTensor._csr(self._crow.copy(), self._col.copy(), val, self._shape, dev)

    # -- arithmetic --------------------------------------------------------------------------
    def _scalar_operand(self, o, what):
        if isinstance(o, SparseTensor):
            raise UnsupportedOp(f"sparse {what} sparse")
        if isinstance(o, Tensor):
            if o._a.ndim != 0:
                raise UnsupportedOp(f"sparse {what} dense tensor")
            return o
        if isinstance(o, (builtins.bool, builtins.int, builtins.float, builtins.complex, Poly, np.number)):
            return o
        raise TypeError(f"unsupported operand {type(o).__name__}")

    def _with_values(self, val):
        if self._is_coo():
            return SparseTensor._coo(self._idx.copy(), val, self._shape, self._coal)
        return SparseTensor._csr(self._crow.copy(), self._col.copy(), val, self._shape)

    def __mul__(self, o):
        _log("sparse.mul")
        try:
            o = self._scalar_operand(o, "*")
        except TypeError:
            return NotImplemented
        return self._with_values(self._val * o)

    __rmul__ = __mul__

    def mul(self, o):
        return self * o

    def __truediv__(self, o):
        _log("sparse.div")
        if not self._is_coo():
            raise UnsupportedOp("CSR / scalar")
        try:
            o = self._scalar_operand(o, "/")
        except TypeError:
            return NotImplemented
        return self._with_values(self._val / o)

    def __rtruediv__(self, o):
        raise UnsupportedOp("scalar / sparse")

    def __neg__(self):
        _log("sparse.neg")
        return self._with_values(-self._val)

    def _added(self, o, sign):
        _log("sparse.add")
        if not isinstance(o, SparseTensor):
            if isinstance(o, Tensor):
                raise RuntimeError("add(sparse, dense) is not supported. Use add(dense, sparse) instead.")
            raise UnsupportedOp("sparse + scalar")
        if not (self._is_coo() and o._is_coo()):
            raise UnsupportedOp("addition of CSR tensors")
        if self._shape != o._shape:
            raise RuntimeError(f"add: expected 'self' and 'other' to have same size, but {self._shape} != {o._shape}")
        for t in (self, o):
            if not t._coal:
                raise UnsupportedOp("sparse add with an operand that is not flagged coalesced: the layout (nnz, order) of "
                                    "torch's result is an implementation detail")
            if not t._truly_coalesced():
                raise UnsupportedOp("sparse add with an operand flagged coalesced whose indices are not sorted and "
                                    "unique: torch's result is unspecified")
        dt = T._promote(self.dtype, o.dtype)
        a = dict(zip(self._keys(), T._cast_arr(self._val._a, self.dtype, dt)))
        b = dict(zip(o._keys(), T._cast_arr(o._val._a, o.dtype, dt)))
        keys = sorted(set(a) | set(b))
        vals = []
        for k in keys:
            x, y = a.get(k), b.get(k)
            if y is not None and sign < 0:
                y = -y
            vals.append(x + y if (x is not None and y is not None) else (x if y is None else y))
        idx = np.array(keys, dtype=np.int64).reshape(len(keys), 2).T.copy()
        return idx, _values_tensor(vals, dt, self.device), dt

    def __add__(self, o):
        idx, val, _ = self._added(o, +1)
        return SparseTensor._coo(idx, val, self._shape, True)

    def __radd__(self, o):
        raise UnsupportedOp("dense/scalar + sparse")

    def __sub__(self, o):
        idx, val, _ = self._added(o, -1)
        return SparseTensor._coo(idx, val, self._shape, True)

    def __rsub__(self, o):
        raise UnsupportedOp("dense/scalar - sparse")

    def __iadd__(self, o):
        idx, val, dt = self._added(o, +1)
        if dt.cat > self.dtype.cat:
            raise RuntimeError(f"result type {dt.name} can't be cast to the desired output type {self.dtype.name}")
        self._idx, self._val, self._coal = idx, val.to(self.dtype), True
        return self

    def __isub__(self, o):
        idx, val, dt = self._added(o, -1)
        if dt.cat > self.dtype.cat:
            raise RuntimeError(f"result type {dt.name} can't be cast to the desired output type {self.dtype.name}")
        self._idx, self._val, self._coal = idx, val.to(self.dtype), True
        return self

    def add(self, o, *, alpha=1):
        if not T._is_one(alpha):
            raise UnsupportedOp("sparse add with alpha")
        return self + o

    def add_(self, o, *, alpha=1):
        if not T._is_one(alpha):
            raise UnsupportedOp("sparse add_ with alpha")
        return self.__iadd__(o)

    def __imul__(self, o):
        raise UnsupportedOp("in-place multiplication of a sparse tensor")

    def __itruediv__(self, o):
        raise UnsupportedOp("in-place division of a sparse tensor")

    def __pow__(self, o):
        raise UnsupportedOp("power of a sparse tensor")

    def __eq__(self, o):
        raise UnsupportedOp("comparison of sparse tensors")

    __ne__ = __lt__ = __le__ = __gt__ = __ge__ = __eq__
    __hash__ = object.__hash__

    def __matmul__(self, o):
        _log("sparse.matmul")
        if isinstance(o, SparseTensor):
            raise UnsupportedOp("sparse @ sparse")
        if not isinstance(o, Tensor):
            return NotImplemented
        if o.dtype is not self.dtype:
            raise RuntimeError(f"expected scalar type {self.dtype.name} but found {o.dtype.name}")
        b = o._a
        if b.ndim not in (1, 2):
            raise UnsupportedOp("sparse @ dense tensor of more than 2 dimensions")
        if b.shape[0] != self._shape[1]:
            raise RuntimeError(f"size mismatch, got input ({self._shape[0]}), mat ({self._shape[0]}x{self._shape[1]}), "
                               f"vec ({b.shape[0]})")
        out = T.zeros((self._shape[0],) + b.shape[1:], dtype=self.dtype, device=self.device)
        a = out._a
        for r, c, v in self._entries():
            if b.ndim == 1:
                a[r] = a[r] + v * b[c]
            else:
                for j in range(b.shape[1]):
                    a[r, j] = a[r, j] + v * b[c, j]
        return out

    def __rmatmul__(self, o):
        raise UnsupportedOp("dense @ sparse")

    def matmul(self, o):
        return self.__matmul__(o)

    mm = mv = matmul


def _values_tensor(vals, dt, dev):
    a = np.empty((len(vals),), dtype=object)
    for k, v in enumerate(vals):
        a[k] = v
    if dt.cat < 2:
        a = a.astype(T._np_storage(dt))
    return Tensor._mk(a, dt, dev)


def _rows_to_crow(rows, nrows):
    """torch 2.10 convert_indices_from_coo_to_csr_cpu, literally (sequential: numel - 1 below the grain size).
    For sorted rows this is the row compression; for unsorted rows it is what torch computes (checked natively)."""
    n = len(rows)
    if n == 0:
        return [0] * (nrows + 1)
    if n - 1 >= CSR_KERNEL_GRAIN and builtins.any(rows[i] > rows[i + 1] for i in range(n - 1)):
        raise UnsupportedOp("CSR conversion of a COO tensor flagged coalesced whose indices are not sorted: "
                            "torch's result is unspecified (parallel kernel above the grain size)")
    crow = [None] * (nrows + 1)
    for i in range(rows[0] + 1):
        crow[i] = 0
    cur = rows[0]
    for i in range(n - 1):
        nxt = rows[i + 1]
        while cur < nxt:
            crow[cur + 1] = i + 1
            cur += 1
    for i in range(rows[-1] + 1, nrows + 1):
        crow[i] = n
    if builtins.any(c is None for c in crow):
        raise AssertionError("symtorch internal: CSR row pointer not fully written")
    return crow


# ------------------------------------------------------------------------------------------
# constructors
# ------------------------------------------------------------------------------------------
def sparse_coo_tensor(indices, values=None, size=None, *, dtype=None, device=None, requires_grad=False,
                      check_invariants=None, is_coalesced=None):
    _log("sparse_coo_tensor")
    if values is None:
        raise UnsupportedOp("sparse_coo_tensor(size) without values")
    if check_invariants:
        raise UnsupportedOp("sparse_coo_tensor(check_invariants=True)")
    it = indices if isinstance(indices, Tensor) else T.tensor(indices)
    vt = values if isinstance(values, Tensor) else T.tensor(values)
    if isinstance(it, SparseTensor) or isinstance(vt, SparseTensor):
        raise UnsupportedOp("sparse_coo_tensor from sparse arguments")
    if it._a.ndim != 2:
        raise RuntimeError("indices must be an int64 tensor of shape (sparse_dim, nnz)")
    if it.dtype is T.int64:
        idx = it._a                                   # torch aliases int64 indices
    else:
        idx = T._cast_arr(it._a, it.dtype, T.int64).copy()
    if dtype is not None and dtype is not vt.dtype:
        vt = vt.to(dtype)
    if vt._a.ndim != 1:
        raise UnsupportedOp("sparse_coo_tensor with dense dimensions (hybrid tensor)")
    nnz = idx.shape[1]
    if vt._a.shape[0] != nnz:
        raise RuntimeError(f"indices and values must have same nnz, but got nnz from indices: {nnz}, "
                           f"nnz from values: {vt._a.shape[0]}")
    if size is None:
        if nnz == 0:
            raise UnsupportedOp("sparse_coo_tensor without size and without entries")
        shape = tuple(builtins.int(idx[d].max()) + 1 for d in range(idx.shape[0]))
    else:
        shape = Tensor._shape_args((size,))
        if len(shape) != idx.shape[0]:
            raise RuntimeError(f"number of dimensions must be sparse_dim ({idx.shape[0]}) + dense_dim (0), "
                               f"but got {len(shape)}")
    if len(shape) != 2:
        raise UnsupportedOp(f"sparse tensor with sparse_dim = {len(shape)} (only matrices are modelled)")
    for d in range(2):
        if nnz and (builtins.int(idx[d].min()) < 0 or builtins.int(idx[d].max()) >= shape[d]):
            raise UnsupportedOp("sparse_coo_tensor with an index outside the size: torch does not validate the "
                                "indices (check_invariants is off), the behaviour of such a tensor is undefined")
    coal = (nnz < 2) if is_coalesced is None else builtins.bool(is_coalesced)
    dev = T._dev(device) if device is not None else vt.device
    val = Tensor._mk(vt._a, vt.dtype, dev)            # aliases the values, as torch does
    return SparseTensor._coo(idx, val, shape, coal, dev)


# ------------------------------------------------------------------------------------------
# dense tensors: conversions to the sparse layouts
# ------------------------------------------------------------------------------------------
def _dense_to_sparse_coo(self, *a, **k):
    _log("to_sparse_coo")
    if a or k:
        raise UnsupportedOp("to_sparse(...) with arguments")
    if self._a.ndim != 2:
        raise UnsupportedOp(f"to_sparse_coo() of a {self._a.ndim}-d tensor (only matrices are modelled)")
    nz = T._truth(self._a)                            # value-dependent: UndecidedTruth on undecidable symbolic entries
    pos = np.argwhere(nz)                             # row-major order
    idx = pos.reshape(-1, 2).T.astype(np.int64).copy()
    vals = [self._a[builtins.int(r), builtins.int(c)] for r, c in pos]
    return SparseTensor._coo(idx, _values_tensor(vals, self.dtype, self.device), self._a.shape, True)


def _dense_to_sparse_csr(self, *a, **k):
    return _dense_to_sparse_coo(self, *a, **k).to_sparse_csr()


def _dense_to_dense(self, *a, **k):
    return self


Tensor.to_sparse_coo = _dense_to_sparse_coo
Tensor.to_sparse = _dense_to_sparse_coo
Tensor.to_sparse_csr = _dense_to_sparse_csr
Tensor.to_dense = _dense_to_dense
Tensor.layout = property(lambda self: strided)
Tensor.is_sparse_csr = property(lambda self: False)

__all__ = ["layout", "strided", "sparse_coo", "sparse_csr", "sparse_coo_tensor", "SparseTensor"]
