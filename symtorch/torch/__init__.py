"""symtorch -- a shim of the torch subset used by the tensor-index code of pasqal-io/emulators.

NOT torch.  Tensors are NumPy arrays (object arrays of exact polynomials `poly.Poly` for
floating/complex dtypes, native bool/int64 arrays for bool/integer dtypes).  Views, strides,
basic/advanced indexing, broadcasting and in-place writes through views are NumPy's own;
`view()` refuses to copy.  Every operation without an exact meaning raises
`poly.UnsupportedOp` (-> the check is *undecided*, never a verdict).

See /verif/symtorch/README.md for what is modelled and what is trusted.
"""
from __future__ import annotations

import builtins
import math as _math
import numbers as _numbers
import os as _os
import sys as _sys
import types as _types

import numpy as np

from poly import (Poly, UnsupportedOp, UndecidedTruth, ZERO as _PZERO, ONE as _PONE,
                  p_cos as _p_cos, p_sin as _p_sin, p_exp as _p_exp, p_sqrt as _p_sqrt, p_abs as _p_abs)

__version__ = "0.0+symtorch"
IS_SYMTORCH = True
pi = _math.pi
inf = _math.inf
nan = _math.nan


class _Config:
    # is_cpu of every tensor when the device is "cpu"; set False to drive the GPU branches
    force_not_cpu = _os.environ.get("SYMTORCH_FORCE_NOT_CPU", "0") == "1"
    op_log = None                     # optional set collecting the names of the shim ops used


config = _Config()


def _log(name):
    if config.op_log is not None:
        config.op_log.add(name)


# --------------------------------------------------------------------------------------
# dtypes, devices, Size
# --------------------------------------------------------------------------------------
class dtype:
    def __init__(self, name, cat, bits):
        self.name, self.cat, self.bits = name, cat, bits
        self.is_complex = cat == 3
        self.is_floating_point = cat == 2
        self.itemsize = bits // 8

    def __repr__(self):
        return "torch." + self.name

    def __reduce__(self):
        return (_dtype_by_name, (self.name,))


def _dtype_by_name(n):
    return _DTYPES[n]


bool = dtype("bool", 0, 8)                     # noqa: A001  (torch.bool)
uint8 = dtype("uint8", 1, 8)
int8 = dtype("int8", 1, 8)
int16 = short = dtype("int16", 1, 16)
int32 = int = dtype("int32", 1, 32)            # noqa: A001  (torch.int)
int64 = long = dtype("int64", 1, 64)
float16 = half = dtype("float16", 2, 16)
float32 = float = dtype("float32", 2, 32)      # noqa: A001  (torch.float)
float64 = double = dtype("float64", 2, 64)
complex64 = cfloat = dtype("complex64", 3, 64)
complex128 = cdouble = dtype("complex128", 3, 128)
_DTYPES = {d.name: d for d in (bool, uint8, int8, int16, int32, int64, float16, float32, float64,
                               complex64, complex128)}
_default_dtype = float32


def get_default_dtype():
    return _default_dtype


def set_default_dtype(d):
    global _default_dtype
    _default_dtype = d


def _complex_of(d):
    return complex128 if d.bits >= 64 and d.cat == 2 or d is complex128 else complex64


def _real_of(d):
    return float64 if d is complex128 else float32


def _promote(d1, d2):
    """result dtype of a binary op between two *tensors* (dimension-agnostic simplification)"""
    if d1 is d2:
        return d1
    if d1.cat < d2.cat:
        d1, d2 = d2, d1
    if d1.cat == d2.cat:
        return d1 if d1.bits >= d2.bits else d2
    if d1.cat == 3 and d2.cat == 2 and d2 is float64:
        return complex128
    return d1


def _promote_scalar(d, scat):
    """tensor dtype d with a python scalar of category scat"""
    if scat <= d.cat:
        return d
    if scat == 1:
        return int64
    if scat == 2:
        return _default_dtype
    return _complex_of(d) if d.cat == 2 else _complex_of(_default_dtype)


class device:
    def __init__(self, spec="cpu", index=None):
        if isinstance(spec, device):
            spec, index = spec.type, spec.index if index is None else index
        spec = str(spec)
        if ":" in spec:
            spec, idx = spec.split(":")
            index = builtins.int(idx)
        self.type, self.index = spec, index

    def __eq__(self, other):
        if isinstance(other, str):
            other = device(other)
        return isinstance(other, device) and (self.type, self.index) == (other.type, other.index)

    def __hash__(self):
        return hash((self.type, self.index))

    def __repr__(self):
        return f"device(type='{self.type}'" + (f", index={self.index})" if self.index is not None else ")")

    def __str__(self):
        return self.type + (f":{self.index}" if self.index is not None else "")


_CPU = device("cpu")


def _dev(d):
    if d is None:
        return _CPU
    return d if isinstance(d, device) else device(d)


class Size(tuple):
    def numel(self):
        n = 1
        for s in self:
            n *= s
        return n

    def __repr__(self):
        return "torch.Size(" + repr(list(self)) + ")"


# --------------------------------------------------------------------------------------
# storage helpers
# --------------------------------------------------------------------------------------
_coerce_u = np.frompyfunc(Poly.coerce, 1, 1)


def _box(x, np_dtype=object):
    a = np.empty((), dtype=np_dtype)
    a[()] = x
    return a


def _nd(a, np_dtype=None):
    """make sure we hold an ndarray (NumPy returns scalars for 0-d results)"""
    if isinstance(a, np.ndarray):
        return a
    if np_dtype is None:
        np_dtype = object if isinstance(a, Poly) else None
    if np_dtype is object:
        return _box(a)
    return np.asarray(a)


def _to_obj(a):
    """ndarray -> object ndarray whose elements are all Poly"""
    if a.dtype == object:
        return a
    r = _coerce_u(a)
    return _nd(r, object)


def _fix_obj(a):
    """object result of a NumPy reduction/matmul may contain python ints (empty sums)"""
    a = _nd(a, object)
    if a.dtype != object:
        return _to_obj(a)
    if a.size and not builtins.all(type(x) is Poly for x in a.flat):
        a = _nd(_coerce_u(a), object)
    return a


def _np_storage(d):
    return np.bool_ if d.cat == 0 else (np.int64 if d.cat == 1 else object)


def _scalar_cat(x):
    if isinstance(x, builtins.bool) or isinstance(x, np.bool_):
        return 0
    if isinstance(x, _numbers.Integral):
        return 1
    if isinstance(x, Poly):
        return 3 if x.has_imag() else 2
    if isinstance(x, _numbers.Real):
        return 2
    if isinstance(x, _numbers.Complex):
        return 3
    raise TypeError(f"unsupported operand {type(x).__name__}")


_u_real = np.frompyfunc(lambda p: p.real(), 1, 1)
_u_imag = np.frompyfunc(lambda p: p.imag(), 1, 1)
_u_conj = np.frompyfunc(lambda p: p.conj(), 1, 1)
_u_truth = np.frompyfunc(lambda p: builtins.bool(p), 1, 1)
_u_hasimag = np.frompyfunc(lambda p: p.has_imag(), 1, 1)
_u_eq = np.frompyfunc(lambda x, y: x == y, 2, 1)
_u_lt = np.frompyfunc(lambda x, y: x < y, 2, 1)
_u_le = np.frompyfunc(lambda x, y: x <= y, 2, 1)


def _truth(a):
    """elementwise non-zero-ness as a bool ndarray (may raise UndecidedTruth)"""
    if a.dtype != object:
        return _nd(a != 0)
    return _nd(_nd(_u_truth(a), object).astype(np.bool_))


def _cast_arr(a, src, dst):
    """storage conversion implementing torch's casting semantics exactly (or refusing)"""
    if src is dst:
        return a
    if dst.cat >= 2:
        o = _to_obj(a)
        if src.cat == 3 and dst.cat == 2:
            o = _nd(_u_real(o), object)          # torch: casting complex to real discards the imaginary part
        return o
    if dst.cat == 0:
        return _truth(a)
    # integer target
    if a.dtype != object:
        return a.astype(np.int64)

    def trunc(p):
        if not p.is_real_const():
            if p.is_const():
                return _math.trunc(p.const_parts()[0])
            raise UnsupportedOp(f"cast of the symbolic value {p} to an integer dtype")
        return _math.trunc(p.const_parts()[0])
    return _nd(_nd(np.frompyfunc(trunc, 1, 1)(a), object).astype(np.int64))


# --------------------------------------------------------------------------------------
# Tensor
# --------------------------------------------------------------------------------------
class Tensor:
    __slots__ = ("_a", "dtype", "device", "requires_grad", "_base", "grad", "__weakref__")
    __array_priority__ = 10000
    __array_ufunc__ = None
    IS_SYMTORCH_TENSOR = True            # poly.Poly's arithmetic defers to the tensor's reflected operators

    def __init__(self, *a, **k):
        raise UnsupportedOp("torch.Tensor(...) constructor")

    # -- plumbing ------------------------------------------------------------------
    @staticmethod
    def _mk(a, dt, dev=None, base=None):
        t = object.__new__(Tensor)
        a = _nd(a, _np_storage(dt))
        if dt.cat >= 2 and a.dtype != object:
            a = _to_obj(a)
        elif dt.cat == 1 and a.dtype != np.int64:
            a = a.astype(np.int64)
        elif dt.cat == 0 and a.dtype != np.bool_:
            a = a.astype(np.bool_)
        t._a = a
        t.dtype = dt
        t.device = dev if dev is not None else _CPU
        t.requires_grad = False
        t.grad = None
        t._base = base
        return t

    def _like(self, a, dt=None, base=None):
        return Tensor._mk(a, dt or self.dtype, self.device, base)

    def __getattr__(self, name):
        if name.startswith("__") and name.endswith("__"):
            raise AttributeError(name)
        raise UnsupportedOp(f"Tensor.{name}")

    # -- metadata ------------------------------------------------------------------
    @property
    def shape(self):
        return Size(self._a.shape)

    @property
    def ndim(self):
        return self._a.ndim

    def dim(self):
        return self._a.ndim

    def size(self, dim=None):
        return Size(self._a.shape) if dim is None else self._a.shape[dim]

    def numel(self):
        return builtins.int(self._a.size)

    def nelement(self):
        return builtins.int(self._a.size)

    def stride(self, dim=None):
        isz = self._a.itemsize
        s = tuple(x // isz for x in self._a.strides)
        return s if dim is None else s[dim]

    def is_contiguous(self):
        return builtins.bool(self._a.flags["C_CONTIGUOUS"])

    def element_size(self):
        return self.dtype.itemsize

    @property
    def is_cpu(self):
        return self.device.type == "cpu" and not config.force_not_cpu

    @property
    def is_cuda(self):
        return not self.is_cpu

    @property
    def is_sparse(self):
        return False

    def is_complex(self):
        return self.dtype.cat == 3

    def is_floating_point(self):
        return self.dtype.cat == 2

    def __len__(self):
        if self._a.ndim == 0:
            raise TypeError("len() of a 0-d tensor")
        return self._a.shape[0]

    def __iter__(self):
        if self._a.ndim == 0:
            raise TypeError("iteration over a 0-d tensor")
        for i in range(self._a.shape[0]):
            yield self[i]

    def __repr__(self):
        return f"tensor({self._a.tolist()!r}, dtype={self.dtype})"

    # -- scalar conversions ----------------------------------------------------------
    def _scalar(self):
        if self._a.size != 1:
            raise RuntimeError(f"a Tensor with {self._a.size} elements cannot be converted to Scalar")
        return self._a.reshape(())[()]

    def item(self):
        _log("item")
        x = self._scalar()
        if self.dtype.cat == 0:
            return builtins.bool(x)
        if self.dtype.cat == 1:
            return builtins.int(x)
        if x.is_const():
            re, im = x.const_parts()
            if self.dtype.cat == 3:
                return builtins.complex(builtins.float(re), builtins.float(im))
            return builtins.float(re)
        return x                                     # symbolic python scalar

    def tolist(self):
        if self.dtype.cat < 2:
            return self._a.tolist()
        return _nd(np.frompyfunc(lambda p: p.pyvalue(), 1, 1)(self._a), object).tolist()

    def __bool__(self):
        if self._a.size != 1:
            raise RuntimeError("Boolean value of Tensor with more than one value is ambiguous")
        return builtins.bool(self._scalar())

    def is_nonzero(self):
        """torch: defined for single-element tensors only; a value-dependent decision (UndecidedTruth unless
        the entry is the zero polynomial, a constant or a monomial of non-zero-declared symbols)"""
        _log("is_nonzero")
        if self._a.size != 1:
            raise RuntimeError("Boolean value of Tensor with " + ("no values" if self._a.size == 0 else
                               "more than one value") + " is ambiguous")
        return builtins.bool(self._scalar())

    def __int__(self):
        return builtins.int(self._scalar())

    def __index__(self):
        if self.dtype.cat > 1:
            raise TypeError("only integer tensors of a single element can be converted to an index")
        return builtins.int(self._scalar())

    def __float__(self):
        return builtins.float(self._scalar())

    def __complex__(self):
        return builtins.complex(self._scalar())

    # -- indexing ----------------------------------------------------------------------
    @staticmethod
    def _norm_index(idx):
        if not isinstance(idx, tuple):
            idx = (idx,)
        out = []
        adv = False
        for i in idx:
            if isinstance(i, Tensor):
                if i.dtype.cat == 0:
                    out.append(i._a)
                    adv = True
                elif i.dtype.cat == 1:
                    if i._a.ndim == 0:
                        out.append(builtins.int(i._a))
                    else:
                        out.append(i._a)
                        adv = True
                else:
                    raise IndexError("tensors used as indices must be long, int, byte or bool tensors")
            elif isinstance(i, Poly):
                out.append(i.__index__())
            elif isinstance(i, (list, np.ndarray)):
                out.append(np.asarray([x.item() if isinstance(x, Tensor) else x for x in i]) if isinstance(i, list) else i)
                adv = True
            elif isinstance(i, builtins.bool):
                raise UnsupportedOp("python bool used as an index")
            else:
                out.append(i)
        if not adv and not builtins.any(o is Ellipsis for o in out):
            out.append(Ellipsis)
        return tuple(out), adv

    def __getitem__(self, idx):
        _log("getitem")
        nidx, adv = Tensor._norm_index(idx)
        r = self._a[nidx]
        if adv:
            _log("getitem(advanced)")
            return self._like(_nd(r, self._a.dtype))
        return self._like(r, base=self)

    def __setitem__(self, idx, value):
        _log("setitem")
        nidx, adv = Tensor._norm_index(idx)
        if adv:
            _log("setitem(advanced)")
        if not self._a.flags.writeable:
            raise UnsupportedOp("in-place write through a conj()/real/imag/expand view")
        try:
            self._a[nidx] = self._value_for_store(value)
        except ValueError as e:
            raise RuntimeError(f"shape mismatch in index assignment: {e}")

    def _value_for_store(self, value):
        """value (tensor / scalar) converted to this tensor's storage, torch copy-cast semantics"""
        if isinstance(value, Tensor):
            return _cast_arr(value._a, value.dtype, self.dtype)
        cat = _scalar_cat(value)
        if self.dtype.cat >= 2:
            p = Poly.coerce(value)
            if cat == 3 and self.dtype.cat == 2:
                p = p.real()
            return _box(p)
        if self.dtype.cat == 1:
            if isinstance(value, Poly):
                value = _math.trunc(value.const_parts()[0])
            elif cat == 3:
                raise UnsupportedOp("complex scalar stored into an integer tensor")
            return np.int64(_math.trunc(value))
        return np.bool_(builtins.bool(value))

    # -- shape / views ------------------------------------------------------------------
    @staticmethod
    def _shape_args(shape):
        if len(shape) == 1 and isinstance(shape[0], (tuple, list, Size)):
            shape = tuple(shape[0])
        return tuple(builtins.int(s) for s in shape)

    def view(self, *shape):
        _log("view")
        if len(shape) == 1 and isinstance(shape[0], dtype):
            raise UnsupportedOp("Tensor.view(dtype)")
        shape = Tensor._shape_args(shape)
        v = self._a.view()
        try:
            v.shape = shape                    # NumPy: raises instead of copying
        except (AttributeError, ValueError):
            # decide whether it is a size error or a stride incompatibility
            try:
                self._a.reshape(shape)
            except ValueError:
                raise RuntimeError(f"shape '{list(shape)}' is invalid for input of size {self._a.size}")
            raise RuntimeError("view size is not compatible with input tensor's size and stride "
                               "(at least one dimension spans across two contiguous subspaces). "
                               "Use .reshape(...) instead.")
        if v.size and not np.shares_memory(v, self._a):
            raise AssertionError("symtorch internal: view() does not share memory")
        return self._like(v, base=self)

    def view_as(self, other):
        return self.view(other.shape)

    def reshape(self, *shape):
        _log("reshape")
        shape = Tensor._shape_args(shape)
        r = self._a.reshape(shape)
        return self._like(r, base=self if np.shares_memory(r, self._a) else None)

    def flatten(self, start_dim=0, end_dim=-1):
        _log("flatten")
        nd = self._a.ndim
        if nd == 0:
            return self.reshape(1)
        s, e = start_dim % nd, end_dim % nd
        shp = self._a.shape
        return self.reshape(shp[:s] + (-1,) + shp[e + 1:])

    def squeeze(self, dim=None):
        _log("squeeze")
        if dim is None:
            return self._like(np.squeeze(self._a), base=self)
        if self._a.ndim == 0 or self._a.shape[dim] != 1:
            return self._like(self._a.view(), base=self)
        return self._like(np.squeeze(self._a, axis=dim), base=self)

    def unsqueeze(self, dim):
        _log("unsqueeze")
        nd = self._a.ndim + 1
        if not -nd <= dim < nd:
            raise IndexError("Dimension out of range")
        return self._like(np.expand_dims(self._a, dim % nd), base=self)

    def transpose(self, d0, d1):
        _log("transpose")
        return self._like(np.swapaxes(self._a, d0, d1), base=self)

    swapaxes = transpose

    def permute(self, *dims):
        _log("permute")
        dims = Tensor._shape_args(dims)
        return self._like(np.transpose(self._a, dims), base=self)

    def t(self):
        if self._a.ndim > 2:
            raise RuntimeError("t() expects a tensor with <= 2 dimensions")
        return self._like(self._a.T, base=self)

    @property
    def T(self):
        _log("T")
        return self._like(self._a.T, base=self)

    @property
    def mT(self):
        _log("mT")
        if self._a.ndim < 2:
            raise RuntimeError("tensor.mT is only supported on matrices or batches of matrices")
        return self._like(np.swapaxes(self._a, -1, -2), base=self)

    @property
    def mH(self):
        _log("mH")
        return self.mT.conj()

    @property
    def H(self):
        if self._a.ndim != 2:
            raise RuntimeError("tensor.H is only supported on matrices (2-D tensors)")
        return self.mT.conj()

    def adjoint(self):
        return self.mH

    def select(self, dim, index):
        _log("select")
        index = builtins.int(index)
        n = self._a.shape[dim]
        if not -n <= index < n:
            raise IndexError("select(): index out of range")
        ix = [slice(None)] * self._a.ndim
        ix[dim] = index
        return self._like(self._a[tuple(ix) + (Ellipsis,)], base=self)

    def narrow(self, dim, start, length):
        ix = [slice(None)] * self._a.ndim
        ix[dim] = slice(start, start + length)
        return self._like(self._a[tuple(ix)], base=self)

    def expand(self, *shape):
        _log("expand")
        shape = Tensor._shape_args(shape)
        cur = (1,) * (len(shape) - self._a.ndim) + self._a.shape
        shape = tuple(c if s == -1 else s for s, c in zip(shape, cur))
        r = np.broadcast_to(self._a, shape)            # read-only view, like torch's expand (writes are UB there)
        return self._like(r, base=self)

    def contiguous(self):
        _log("contiguous")
        if self._a.flags["C_CONTIGUOUS"]:
            return self
        return self._like(np.ascontiguousarray(self._a))

    def clone(self):
        _log("clone")
        return self._like(self._a.copy())

    def detach(self):
        return self._like(self._a.view(), base=self)

    def requires_grad_(self, flag=True):
        self.requires_grad = flag
        return self

    def cpu(self):
        return self

    def numpy(self):
        return self._a

    def to(self, *args, **kw):
        _log("to")
        dt = kw.get("dtype")
        dev = kw.get("device")
        for a in args:
            if isinstance(a, dtype):
                dt = a
            elif isinstance(a, (str, device)):
                dev = a
            elif isinstance(a, Tensor):
                dt, dev = a.dtype, a.device
            elif a is None:
                pass
            else:
                raise UnsupportedOp(f"Tensor.to({type(a).__name__})")
        dt = dt or self.dtype
        dev = _dev(dev) if dev is not None else self.device
        if dt is self.dtype and dev == self.device:
            return self
        if dt is self.dtype:
            # a device move is a copy in torch; the emulator code never relies on aliasing across it
            return Tensor._mk(self._a.copy(), dt, dev)
        a = _cast_arr(self._a, self.dtype, dt)
        if a is self._a:
            a = a.copy()
        return Tensor._mk(a, dt, dev)

    def type(self, dt=None):
        if dt is None:
            return "torch." + self.dtype.name
        return self.to(dt)

    def double(self):
        return self.to(float64)

    def float(self):
        return self.to(float32)

    def long(self):
        return self.to(int64)

    def int(self):
        return self.to(int32)

    def bool(self):
        return self.to(bool)

    def cdouble(self):
        return self.to(complex128)

    # -- complex structure ---------------------------------------------------------------
    def conj(self):
        _log("conj")
        if self.dtype.cat != 3:
            return self
        r = _nd(_u_conj(self._a), object)
        r.flags.writeable = False        # torch: lazy conj *view*; writing through it is not modelled
        return self._like(r)

    def conj_physical(self):
        if self.dtype.cat != 3:
            return self
        return self._like(_nd(_u_conj(self._a), object))

    def resolve_conj(self):
        if self._a.flags.writeable:
            return self
        return self._like(self._a.copy())

    @property
    def real(self):
        _log("real")
        if self.dtype.cat != 3:
            return self
        r = _nd(_u_real(self._a), object)
        r.flags.writeable = False        # torch: a view; writes through it are not modelled
        return self._like(r, _real_of(self.dtype))

    @property
    def imag(self):
        _log("imag")
        if self.dtype.cat != 3:
            raise RuntimeError("imag is not implemented for tensors with non-complex dtypes.")
        r = _nd(_u_imag(self._a), object)
        r.flags.writeable = False
        return self._like(r, _real_of(self.dtype))

    # -- arithmetic ----------------------------------------------------------------------------
    def _operand(self, other):
        """-> (ndarray, result dtype, other's dtype-or-None)"""
        if isinstance(other, Tensor):
            if other._a.ndim == 0 and self._a.ndim > 0 and other.dtype.cat <= self.dtype.cat:
                rd = self.dtype          # 0-d tensors do not promote within a category
            elif self._a.ndim == 0 and other._a.ndim > 0 and self.dtype.cat <= other.dtype.cat:
                rd = other.dtype
            else:
                rd = _promote(self.dtype, other.dtype)
            return other._a, rd
        cat = _scalar_cat(other)
        rd = _promote_scalar(self.dtype, cat)
        if rd.cat >= 2:
            return _box(Poly.coerce(other)), rd
        return np.asarray(other), rd

    def _binary(self, other, op, name, reverse=False, force_float=False):
        _log(name)
        try:
            b, rd = self._operand(other)
        except TypeError:
            return NotImplemented
        a = self._a
        if force_float and rd.cat < 2:
            rd = _default_dtype
        if rd.cat >= 2:
            a, b = _to_obj(a), _to_obj(b)
        elif rd.cat == 0 and name in ("add", "sub", "mul"):
            if name == "sub":
                raise RuntimeError("Subtraction, the `-` operator, with two bool tensors is not supported.")
            a, b = a.astype(np.int64), b.astype(np.int64)
            r = op(b, a) if reverse else op(a, b)
            return Tensor._mk(_nd(r) != 0, bool, self.device)
        r = op(b, a) if reverse else op(a, b)
        return Tensor._mk(r, rd, self.device)

    def _inplace(self, other, op, name):
        _log(name + "_")
        b, rd = self._operand(other)
        if rd.cat > self.dtype.cat:
            raise RuntimeError(f"result type {rd.name} can't be cast to the desired output type {self.dtype.name}")
        a = self._a
        if self.dtype.cat >= 2:
            b = _to_obj(b)
        if name == "div" and self.dtype.cat < 2:
            raise RuntimeError("result type Float can't be cast to the desired output type Long")
        if not a.flags.writeable:
            raise UnsupportedOp("in-place write through a conj()/real/imag/expand view")
        r = op(a, b)
        if np.shape(r) != a.shape:
            raise RuntimeError(f"output with shape {list(a.shape)} doesn't match the broadcast shape {list(np.shape(r))}")
        a[...] = r
        return self

    def __add__(self, o):
        return self._binary(o, np.add, "add")

    def __radd__(self, o):
        return self._binary(o, np.add, "add", reverse=True)

    def __sub__(self, o):
        return self._binary(o, np.subtract, "sub")

    def __rsub__(self, o):
        return self._binary(o, np.subtract, "sub", reverse=True)

    def __mul__(self, o):
        return self._binary(o, np.multiply, "mul")

    def __rmul__(self, o):
        return self._binary(o, np.multiply, "mul", reverse=True)

    def __truediv__(self, o):
        return self._binary(o, np.true_divide, "div", force_float=True)

    def __rtruediv__(self, o):
        return self._binary(o, np.true_divide, "div", reverse=True, force_float=True)

    def __floordiv__(self, o):
        if self.dtype.cat >= 2 or (isinstance(o, Tensor) and o.dtype.cat >= 2):
            raise UnsupportedOp("floor division of non-integer tensors")
        return self._binary(o, np.floor_divide, "floordiv")

    def __mod__(self, o):
        if self.dtype.cat >= 2 or (isinstance(o, Tensor) and o.dtype.cat >= 2):
            raise UnsupportedOp("remainder of non-integer tensors")
        return self._binary(o, np.remainder, "mod")

    def __pow__(self, o):
        if isinstance(o, Tensor):
            if o._a.size != 1:
                raise UnsupportedOp("tensor ** tensor")
            o = o.item()
        return self._binary(o, np.power, "pow")

    def __rpow__(self, o):
        if self.dtype.cat <= 1:
            return Tensor._mk(np.power(o, self._a), int64 if isinstance(o, builtins.int) else _default_dtype,
                              self.device)
        raise UnsupportedOp("scalar ** tensor")

    def __neg__(self):
        _log("neg")
        if self.dtype.cat == 0:
            raise RuntimeError("Negation, the `-` operator, on a bool tensor is not supported.")
        return self._like(np.negative(self._a))

    def __pos__(self):
        return self

    def __iadd__(self, o):
        return self._inplace(o, np.add, "add")

    def __isub__(self, o):
        return self._inplace(o, np.subtract, "sub")

    def __imul__(self, o):
        return self._inplace(o, np.multiply, "mul")

    def __itruediv__(self, o):
        return self._inplace(o, np.true_divide, "div")

    def add(self, o, *, alpha=1):
        return self + (o if _is_one(alpha) else _as_operand(alpha) * o)

    def sub(self, o, *, alpha=1):
        return self - (o if _is_one(alpha) else _as_operand(alpha) * o)

    def mul(self, o):
        return self * o

    def div(self, o):
        return self / o

    def add_(self, o, *, alpha=1):
        return self.__iadd__(o if _is_one(alpha) else _as_operand(alpha) * o)

    def sub_(self, o, *, alpha=1):
        return self.__isub__(o if _is_one(alpha) else _as_operand(alpha) * o)

    def mul_(self, o):
        return self.__imul__(o)

    def div_(self, o):
        return self.__itruediv__(o)

    def neg(self):
        return -self

    def pow(self, e):
        return self ** e

    def square(self):
        return self * self

    # -- comparisons / logic ------------------------------------------------------------------
    def _compare(self, other, uf, npop, name, swap=False, negate=False):
        _log(name)
        try:
            b, rd = self._operand(other)
        except TypeError:
            return NotImplemented
        a = self._a
        if rd.cat >= 2:
            a, b = _to_obj(a), _to_obj(b)
            if swap:
                a, b = b, a
            r = _nd(_nd(uf(a, b), object).astype(np.bool_))
        else:
            if swap:
                a, b = b, a
            r = _nd(npop(a, b))
        if negate:
            r = ~r
        return Tensor._mk(r, bool, self.device)

    def __eq__(self, o):
        return self._compare(o, _u_eq, np.equal, "eq")

    def __ne__(self, o):
        return self._compare(o, _u_eq, np.equal, "ne", negate=True)

    def __lt__(self, o):
        return self._compare(o, _u_lt, np.less, "lt")

    def __le__(self, o):
        return self._compare(o, _u_le, np.less_equal, "le")

    def __gt__(self, o):
        return self._compare(o, _u_lt, np.less, "gt", swap=True)

    def __ge__(self, o):
        return self._compare(o, _u_le, np.less_equal, "ge", swap=True)

    __hash__ = object.__hash__

    def __invert__(self):
        if self.dtype.cat == 0:
            return self._like(~self._a)
        if self.dtype.cat == 1:
            return self._like(~self._a)
        raise TypeError("~ on a floating tensor")

    def __and__(self, o):
        if self.dtype.cat > 1:
            raise RuntimeError("bitwise and on a floating tensor")
        return self._binary(o, np.bitwise_and, "and")

    def __or__(self, o):
        if self.dtype.cat > 1:
            raise RuntimeError("bitwise or on a floating tensor")
        return self._binary(o, np.bitwise_or, "or")

    __rand__ = __and__
    __ror__ = __or__

    def logical_not(self):
        return Tensor._mk(~_truth(self._a), bool, self.device)

    # -- reductions ---------------------------------------------------------------------------
    def any(self, dim=None, keepdim=False):
        _log("any")
        t = _truth(self._a)
        return Tensor._mk(_nd(t.any(axis=dim, keepdims=keepdim)), bool, self.device)

    def all(self, dim=None, keepdim=False):
        _log("all")
        t = _truth(self._a)
        return Tensor._mk(_nd(t.all(axis=dim, keepdims=keepdim)), bool, self.device)

    def nonzero(self, as_tuple=False):
        _log("nonzero")
        t = _truth(self._a)
        if as_tuple:
            return tuple(Tensor._mk(x, int64, self.device) for x in np.nonzero(t))
        return Tensor._mk(np.argwhere(t).reshape(-1, t.ndim), int64, self.device)

    def count_nonzero(self):
        return Tensor._mk(np.int64(_truth(self._a).sum()), int64, self.device)

    def sum(self, dim=None, keepdim=False, dtype=None):
        _log("sum")
        if isinstance(dim, list):
            dim = tuple(dim)
        if self.dtype.cat < 2:
            r = self._a.astype(np.int64).sum(axis=dim, keepdims=keepdim)
            out = Tensor._mk(_nd(r), int64, self.device)
        else:
            r = _fix_obj(self._a.sum(axis=dim, keepdims=keepdim))
            out = Tensor._mk(r, self.dtype, self.device)
        return out.to(dtype) if dtype is not None else out

    def mean(self, dim=None, keepdim=False):
        _log("mean")
        if self.dtype.cat < 2:
            raise RuntimeError("mean(): could not infer output dtype. Input dtype must be either a floating point or complex dtype.")
        n = self._a.size if dim is None else self._a.shape[dim]
        return self.sum(dim, keepdim) / n

    def prod(self, dim=None):
        _log("prod")
        if self.dtype.cat < 2:
            return Tensor._mk(_nd(self._a.astype(np.int64).prod(axis=dim)), int64, self.device)
        return Tensor._mk(_fix_obj(self._a.prod(axis=dim)), self.dtype, self.device)

    def trace(self):
        _log("trace")
        if self._a.ndim != 2:
            raise RuntimeError("trace: expected a matrix")
        if self.dtype.cat < 2:
            return Tensor._mk(np.int64(np.trace(self._a)), int64, self.device)
        return Tensor._mk(_fix_obj(np.trace(self._a)), self.dtype, self.device)

    def diagonal(self, offset=0, dim1=0, dim2=1):
        _log("diagonal")
        r = np.diagonal(self._a, offset, dim1, dim2)
        try:
            r.flags.writeable = True
        except ValueError:
            pass
        return self._like(r, base=self)

    def diag(self, diagonal=0):
        _log("diag")
        if self._a.ndim == 1:
            n = self._a.shape[0] + builtins.abs(diagonal)
            out = zeros(n, n, dtype=self.dtype, device=self.device)
            for i in range(self._a.shape[0]):
                out._a[(i, i + diagonal) if diagonal >= 0 else (i - diagonal, i)] = self._a[i]
            return out
        return self._like(np.diagonal(self._a, diagonal).copy())

    def norm(self, *a, **k):
        return linalg.vector_norm(self, *a, **k)

    # -- elementwise functions -------------------------------------------------------------
    def _map(self, f, name, out_dtype=None):
        _log(name)
        a = _to_obj(self._a)
        dt = out_dtype or (self.dtype if self.dtype.cat >= 2 else _default_dtype)
        return Tensor._mk(_nd(np.frompyfunc(f, 1, 1)(a), object), dt, self.device)

    def __abs__(self):
        return self.abs()

    def abs(self):
        if self.dtype.cat < 2:
            return self._like(np.abs(self._a.astype(np.int64)), int64 if self.dtype.cat else bool)
        return self._map(_p_abs, "abs", _real_of(self.dtype) if self.dtype.cat == 3 else self.dtype)

    def sqrt(self):
        return self._map(_p_sqrt, "sqrt")

    def exp(self):
        return self._map(_p_exp, "exp")

    def cos(self):
        return self._map(_p_cos, "cos")

    def sin(self):
        return self._map(_p_sin, "sin")

    # -- in-place fills / scatter ----------------------------------------------------------
    def _check_writeable(self):
        if not self._a.flags.writeable:
            raise UnsupportedOp("in-place write through a conj()/real/imag/expand view")

    def fill_(self, value):
        _log("fill_")
        self._check_writeable()
        self._a[...] = self._value_for_store(value)
        return self

    def zero_(self):
        return self.fill_(0)

    def copy_(self, src):
        _log("copy_")
        self._check_writeable()
        v = self._value_for_store(src)
        self._a[...] = np.broadcast_to(v, self._a.shape)
        return self

    def fill_diagonal_(self, value, wrap=False):
        _log("fill_diagonal_")
        self._check_writeable()
        if self._a.ndim < 2:
            raise RuntimeError("dimensions must larger than 1")
        if self._a.ndim > 2 and len(set(self._a.shape)) != 1:
            raise RuntimeError("all dimensions of input must be of equal length")
        if wrap:
            raise UnsupportedOp("fill_diagonal_(wrap=True)")
        v = self._value_for_store(value)[()]
        n = min(self._a.shape)
        for i in range(n):
            self._a[(i,) * self._a.ndim] = v
        return self

    def index_add_(self, dim, index, source, *, alpha=1):
        _log("index_add_")
        self._check_writeable()
        if not isinstance(index, Tensor) or index.dtype.cat != 1:
            raise IndexError("index_add_(): Expected dtype int32/int64 for index")
        if index._a.ndim > 1:
            raise IndexError("index_add_(): Index is supposed to be a vector")
        if source.dtype is not self.dtype:
            raise RuntimeError(f"index_add_(): self ({self.dtype.name}) and source ({source.dtype.name}) "
                               "must have the same scalar type")
        nd = self._a.ndim
        if nd == 0:
            raise UnsupportedOp("index_add_ on a 0-d tensor")
        dim = dim % nd
        idx = np.atleast_1d(index._a)
        if source._a.ndim != nd:
            raise RuntimeError("index_add_(): source and self must have the same number of dimensions")
        if source._a.shape[dim] != idx.shape[0]:
            raise IndexError("index_add_(): Number of indices should be equal to source.size(dim)")
        for d in range(nd):
            if d != dim and source._a.shape[d] != self._a.shape[d]:
                raise RuntimeError("index_add_(): source tensor shape must match self tensor shape, "
                                   "excluding the specified dimension")
        if isinstance(alpha, Tensor):
            acat = alpha.dtype.cat
            alpha = alpha._scalar()
        else:
            acat = _scalar_cat(alpha)
        if acat > self.dtype.cat and not (self.dtype.cat >= 2 and acat <= 2):
            raise RuntimeError("index_add_(): alpha of a wider scalar type than the tensor")
        for k, i in enumerate(idx.tolist()):
            if not -self._a.shape[dim] <= i < self._a.shape[dim]:
                raise IndexError("index out of range in self")
            pre = (slice(None),) * dim
            dst = self._a[pre + (i, Ellipsis)]
            src = source._a[pre + (k, Ellipsis)]
            if self.dtype.cat >= 2:
                a = Poly.coerce(alpha)
                dst[...] = dst + (src if _is_one(alpha) else _box(a) * src)
            else:
                dst[...] = dst + builtins.int(alpha) * src
        return self

    def index_add(self, dim, index, source, *, alpha=1):
        return self.clone().index_add_(dim, index, source, alpha=alpha)

    def index_select(self, dim, index):
        _log("index_select")
        return self._like(np.take(self._a, np.atleast_1d(index._a), axis=dim))

    def flip(self, *dims):
        _log("flip")
        dims = Tensor._shape_args(dims)
        return self._like(np.flip(self._a, dims).copy())

    def repeat(self, *reps):
        reps = Tensor._shape_args(reps)
        return self._like(np.tile(self._a, reps))

    def unbind(self, dim=0):
        return tuple(self.select(dim, i) for i in range(self._a.shape[dim]))

    # -- linear algebra ---------------------------------------------------------------------
    def __matmul__(self, o):
        if not isinstance(o, Tensor):
            return NotImplemented
        return matmul(self, o)

    def __rmatmul__(self, o):
        if not isinstance(o, Tensor):
            return NotImplemented
        return matmul(o, self)

    def matmul(self, o):
        return matmul(self, o)

    def mm(self, o):
        return matmul(self, o)

    def dot(self, o):
        return dot(self, o)

    def kron(self, o):
        return kron(self, o)


def _is_one(x):
    return isinstance(x, (builtins.int, builtins.float)) and not isinstance(x, builtins.bool) and x == 1


def _as_operand(x):
    return x


# --------------------------------------------------------------------------------------
# creation
# --------------------------------------------------------------------------------------
def _infer(data):
    """nested data -> (object/np array, inferred dtype)"""
    cat_seen = [-1]
    dts = []

    def conv(x):
        if isinstance(x, Tensor):
            dts.append(x.dtype)
            cat_seen[0] = max(cat_seen[0], x.dtype.cat)
            if x._a.ndim == 0:
                return x._a[()]
            return [conv(y) for y in x]
        if isinstance(x, np.ndarray):
            return conv(x.tolist())
        if isinstance(x, (list, tuple)):
            return [conv(y) for y in x]
        cat_seen[0] = max(cat_seen[0], _scalar_cat(x))
        return x
    nested = conv(data)
    cat = cat_seen[0]
    if cat < 0:
        cat = 2
        dt = _default_dtype
    elif dts and builtins.all(d.cat <= cat for d in dts) and builtins.any(d.cat == cat for d in dts):
        dt = [d for d in dts if d.cat == cat][0]
    else:
        dt = [bool, int64, _default_dtype, _complex_of(_default_dtype)][cat]
    return nested, dt


def _shape_of(nested):
    if isinstance(nested, list):
        if not nested:
            return (0,)
        s0 = _shape_of(nested[0])
        for x in nested[1:]:
            if _shape_of(x) != s0:
                raise ValueError("expected sequence of equal length")
        return (len(nested),) + s0
    return ()


def tensor(data, *, dtype=None, device=None, requires_grad=False):
    _log("tensor")
    nested, inferred = _infer(data)
    shape = _shape_of(nested)
    src_dt = inferred
    if src_dt.cat >= 2:
        a = np.empty(shape, dtype=object)
        if shape == ():
            a[()] = Poly.coerce(nested)
        else:
            flat = []

            def walk(x):
                if isinstance(x, list):
                    for y in x:
                        walk(y)
                else:
                    flat.append(Poly.coerce(x))
            walk(nested)
            fl = a.reshape(-1)
            assert fl.size == len(flat) and (fl.size == 0 or np.shares_memory(fl, a))
            for i, p in enumerate(flat):
                fl[i] = p
    else:
        a = np.array(nested, dtype=_np_storage(src_dt)).reshape(shape)
    dt = dtype or src_dt
    a = _cast_arr(a, src_dt, dt)
    t = Tensor._mk(a, dt, _dev(device))
    t.requires_grad = requires_grad
    return t


def as_tensor(data, dtype=None, device=None):
    if isinstance(data, Tensor):
        return data.to(dtype=dtype, device=device) if (dtype or device) else data
    return tensor(data, dtype=dtype, device=device)


def _shape_from(args):
    return Tensor._shape_args(args)


def zeros(*size, dtype=None, device=None, requires_grad=False, out=None):
    _log("zeros")
    dt = dtype or _default_dtype
    shape = _shape_from(size)
    if dt.cat >= 2:
        a = np.empty(shape, dtype=object)
        a[...] = _box(_PZERO)
    else:
        a = np.zeros(shape, dtype=_np_storage(dt))
    return Tensor._mk(a, dt, _dev(device))


def ones(*size, dtype=None, device=None, requires_grad=False):
    _log("ones")
    dt = dtype or _default_dtype
    shape = _shape_from(size)
    if dt.cat >= 2:
        a = np.empty(shape, dtype=object)
        a[...] = _box(_PONE)
    else:
        a = np.ones(shape, dtype=_np_storage(dt))
    return Tensor._mk(a, dt, _dev(device))


def empty(*size, dtype=None, device=None, requires_grad=False):
    # uninitialised memory: modelled as zeros (any read-before-write is a bug torch would not flag either)
    return zeros(*size, dtype=dtype, device=device)


def full(size, fill_value, *, dtype=None, device=None):
    t = zeros(*_shape_from((size,)), dtype=dtype or [bool, int64, _default_dtype, complex64][_scalar_cat(fill_value)],
              device=device)
    return t.fill_(fill_value)


def zeros_like(t, *, dtype=None, device=None, **kw):
    return zeros(t.shape, dtype=dtype or t.dtype, device=device if device is not None else t.device)


def ones_like(t, *, dtype=None, device=None, **kw):
    return ones(t.shape, dtype=dtype or t.dtype, device=device if device is not None else t.device)


def empty_like(t, *, dtype=None, device=None, **kw):
    return zeros_like(t, dtype=dtype, device=device)


def eye(n, m=None, *, dtype=None, device=None):
    _log("eye")
    m = n if m is None else m
    t = zeros(n, m, dtype=dtype, device=device)
    one = t._value_for_store(1)
    for i in range(min(n, m)):
        t._a[i, i] = one[()]
    return t


def arange(*args, dtype=None, device=None):
    _log("arange")
    vals = [a.item() if isinstance(a, Tensor) else a for a in args]
    if builtins.all(isinstance(v, builtins.int) for v in vals):
        return Tensor._mk(np.arange(*vals, dtype=np.int64), int64, _dev(device)).to(dtype or int64)
    if builtins.any(isinstance(v, Poly) for v in vals):
        raise UnsupportedOp("arange with symbolic bounds")
    start, end, step = (0, vals[0], 1) if len(vals) == 1 else (vals[0], vals[1], 1) if len(vals) == 2 else vals
    n = builtins.int(_math.ceil((end - start) / step))
    return tensor([start + i * step for i in range(max(n, 0))], dtype=dtype or _default_dtype, device=device)


def complex(real, imag):          # noqa: A001  (torch.complex)
    _log("complex")
    if real.dtype is not imag.dtype or real.dtype.cat != 2:
        raise RuntimeError("Expected object of scalar type float/double for both arguments of torch.complex")
    r = _to_obj(real._a) + _to_obj(imag._a) * _box(Poly.coerce(1j))
    return Tensor._mk(r, _complex_of(real.dtype), real.device)


def clone(t):
    return t.clone()


# --------------------------------------------------------------------------------------
# joins
# --------------------------------------------------------------------------------------
def _common(ts):
    dt = ts[0].dtype
    for t in ts[1:]:
        dt = _promote(dt, t.dtype)
    return dt


def stack(tensors, dim=0):
    _log("stack")
    tensors = list(tensors)
    if not tensors:
        raise RuntimeError("stack expects a non-empty TensorList")
    s0 = tensors[0].shape
    for t in tensors:
        if t.shape != s0:
            raise RuntimeError("stack expects each tensor to be equal size")
    dt = _common(tensors)
    arrs = [_cast_arr(t._a, t.dtype, dt) for t in tensors]
    return Tensor._mk(np.stack(arrs, axis=dim), dt, tensors[0].device)


def cat(tensors, dim=0):
    _log("cat")
    tensors = [t for t in tensors if not (t._a.ndim == 1 and t._a.size == 0)] or list(tensors)[:1]
    dt = _common(tensors)
    arrs = [_cast_arr(t._a, t.dtype, dt) for t in tensors]
    try:
        return Tensor._mk(np.concatenate(arrs, axis=dim), dt, tensors[0].device)
    except ValueError as e:
        raise RuntimeError(f"Sizes of tensors must match except in dimension {dim}: {e}")


concat = cat


def block_diag(*tensors):
    _log("block_diag")
    dt = _common(list(tensors))
    mats = [t if t._a.ndim == 2 else t.reshape(1, -1) for t in tensors]
    R = builtins.sum(m.shape[0] for m in mats)
    C = builtins.sum(m.shape[1] for m in mats)
    out = zeros(R, C, dtype=dt, device=tensors[0].device)
    r = c = 0
    for m in mats:
        out[r:r + m.shape[0], c:c + m.shape[1]] = m
        r += m.shape[0]
        c += m.shape[1]
    return out


def where(cond, a=None, b=None):
    _log("where")
    if a is None:
        return cond.nonzero(as_tuple=True)
    ta = a if isinstance(a, Tensor) else None
    tb = b if isinstance(b, Tensor) else None
    if ta is None and tb is None:
        ta = tensor(a)
    if ta is None:
        ta = tensor(a, dtype=_promote_scalar(tb.dtype, _scalar_cat(a)))
    if tb is None:
        tb = tensor(b, dtype=_promote_scalar(ta.dtype, _scalar_cat(b)))
    dt = _promote(ta.dtype, tb.dtype)
    x = _cast_arr(ta._a, ta.dtype, dt)
    y = _cast_arr(tb._a, tb.dtype, dt)
    return Tensor._mk(np.where(cond._a, x, y), dt, cond.device)


# --------------------------------------------------------------------------------------
# linear algebra
# --------------------------------------------------------------------------------------
def _same_dtype(a, b, what):
    if a.dtype is not b.dtype:
        raise RuntimeError(f"{what}: expected both tensors to have the same dtype, but got "
                           f"{a.dtype.name} and {b.dtype.name}")


def matmul(a, b):
    _log("matmul")
    _same_dtype(a, b, "matmul")
    if a._a.ndim == 0 or b._a.ndim == 0:
        raise RuntimeError("both arguments to matmul need to be at least 1D")
    if a.dtype.cat == 0:
        raise RuntimeError("matmul not implemented for 'Bool'")
    try:
        r = np.matmul(a._a, b._a)
    except ValueError as e:
        raise RuntimeError(f"mat1 and mat2 shapes cannot be multiplied ({e})")
    if a.dtype.cat >= 2:
        r = _fix_obj(r)
    return Tensor._mk(r, a.dtype, a.device)


mm = matmul
bmm = matmul


def dot(a, b):
    _log("dot")
    _same_dtype(a, b, "dot")
    if a._a.ndim != 1 or b._a.ndim != 1:
        raise RuntimeError("1D tensors expected")
    if a._a.shape != b._a.shape:
        raise RuntimeError("inconsistent tensor size")
    r = np.dot(a._a, b._a)
    return Tensor._mk(_fix_obj(r) if a.dtype.cat >= 2 else _nd(r), a.dtype, a.device)


def vdot(a, b):
    _log("vdot")
    _same_dtype(a, b, "vdot")
    if a._a.ndim != 1 or b._a.ndim != 1:
        raise RuntimeError("vdot: 1D tensors expected")
    if a._a.shape != b._a.shape:
        raise RuntimeError("inconsistent tensor size")
    x = a.conj()._a
    r = np.dot(x, b._a)
    return Tensor._mk(_fix_obj(r) if a.dtype.cat >= 2 else _nd(r), a.dtype, a.device)


def inner(a, b):
    _log("inner")
    _same_dtype(a, b, "inner")
    r = np.inner(a._a, b._a)
    return Tensor._mk(_fix_obj(r) if a.dtype.cat >= 2 else _nd(r), a.dtype, a.device)


def outer(a, b):
    _log("outer")
    if a._a.ndim != 1 or b._a.ndim != 1:
        raise RuntimeError("outer: 1D tensors expected")
    dt = _promote(a.dtype, b.dtype)
    x, y = _cast_arr(a._a, a.dtype, dt), _cast_arr(b._a, b.dtype, dt)
    return Tensor._mk(np.multiply.outer(x, y), dt, a.device)


def kron(a, b):
    _log("kron")
    dt = _promote(a.dtype, b.dtype)
    x, y = _cast_arr(a._a, a.dtype, dt), _cast_arr(b._a, b.dtype, dt)
    nd = max(x.ndim, y.ndim)
    x = x.reshape((1,) * (nd - x.ndim) + x.shape)
    y = y.reshape((1,) * (nd - y.ndim) + y.shape)
    r = np.multiply.outer(x, y)                     # dims: x0..x(nd-1), y0..y(nd-1)
    perm = []
    for i in range(nd):
        perm += [i, nd + i]
    r = np.transpose(r, perm).reshape(tuple(x.shape[i] * y.shape[i] for i in range(nd)))
    return Tensor._mk(r, dt, a.device)


def tensordot(a, b, dims=2):
    _log("tensordot")
    _same_dtype(a, b, "tensordot")
    if isinstance(dims, Tensor):
        dims = dims.tolist()
    if isinstance(dims, builtins.int):
        if dims < 0:
            raise RuntimeError("tensordot expects dims >= 0")
        axes = dims
    else:
        da, db = dims
        axes = (list(da) if not isinstance(da, builtins.int) else [da],
                list(db) if not isinstance(db, builtins.int) else [db])
        if len(axes[0]) != len(axes[1]):
            raise RuntimeError("both dimension lists should have same length")
    try:
        r = np.tensordot(a._a, b._a, axes=axes)
    except ValueError as e:
        raise RuntimeError(f"contracted dimensions need to match ({e})")
    return Tensor._mk(_fix_obj(r) if a.dtype.cat >= 2 else _nd(r), a.dtype, a.device)


def trace(t):
    return t.trace()


def diag(t, diagonal=0):
    return t.diag(diagonal)


def flip(t, dims):
    return t.flip(dims)


def transpose(t, d0, d1):
    return t.transpose(d0, d1)


def permute(t, dims):
    return t.permute(dims)


def reshape(t, shape):
    return t.reshape(shape)


def squeeze(t, dim=None):
    return t.squeeze(dim)


def unsqueeze(t, dim):
    return t.unsqueeze(dim)


def flatten(t, start_dim=0, end_dim=-1):
    return t.flatten(start_dim, end_dim)


# --------------------------------------------------------------------------------------
# elementwise / reductions as functions
# --------------------------------------------------------------------------------------
def _t(x):
    return x if isinstance(x, Tensor) else tensor(x)


def abs(t):             # noqa: A001
    return _t(t).abs()


def sqrt(t):
    return _t(t).sqrt()


def exp(t):
    return _t(t).exp()


def cos(t):
    return _t(t).cos()


def sin(t):
    return _t(t).sin()


def conj(t):
    return t.conj()


def real(t):
    return t.real


def imag(t):
    return t.imag


def sum(t, dim=None, keepdim=False, dtype=None):        # noqa: A001
    return t.sum(dim, keepdim, dtype)


def mean(t, dim=None, keepdim=False):
    return t.mean(dim, keepdim)


def any(t, dim=None):            # noqa: A001
    return t.any(dim)


def all(t, dim=None):            # noqa: A001
    return t.all(dim)


def nonzero(t, as_tuple=False):
    return t.nonzero(as_tuple)


def logical_not(t):
    return t.logical_not()


def is_complex(t):
    return t.is_complex()


def is_tensor(x):
    return isinstance(x, Tensor)


def numel(t):
    return t.numel()


def add(a, b, *, alpha=1):
    return _t(a).add(b, alpha=alpha)


def sub(a, b, *, alpha=1):
    return _t(a).sub(b, alpha=alpha)


def mul(a, b):
    return _t(a) * b


def div(a, b):
    return _t(a) / b


def equal(a, b):
    """exact: same shape and every element decided equal"""
    _log("equal")
    if a.shape != b.shape:
        return False
    return builtins.bool((a == b).all())


def allclose(a, b, rtol=1e-05, atol=1e-08, equal_nan=False):
    """Exact-arithmetic reading of allclose: identical entries -> True.  Entries that differ by a
    constant are compared numerically with the tolerances; a symbolic non-zero difference is not
    decided (UndecidedTruth)."""
    _log("allclose")
    d = a - b
    bb = np.broadcast_to(_to_obj(_t(b)._a), d._a.shape)
    for x, y in zip(_to_obj(d._a).flat, bb.flat):
        if x.is_zero():
            continue
        if x.is_const() and y.is_const():
            if builtins.abs(builtins.complex(x)) > atol + rtol * builtins.abs(builtins.complex(y)):
                return False
            continue
        raise UndecidedTruth(f"allclose on the symbolic difference {x}")
    return True


def isclose(a, b, rtol=1e-05, atol=1e-08):
    raise UnsupportedOp("torch.isclose")


def manual_seed(seed):
    return None


class no_grad:
    def __enter__(self):
        return self

    def __exit__(self, *a):
        return False

    def __call__(self, f):
        return f


enable_grad = no_grad
inference_mode = no_grad


def set_printoptions(**kw):
    return None


# --------------------------------------------------------------------------------------
# namespaces; everything not modelled is an UnsupportedOp when *called*
# --------------------------------------------------------------------------------------
class _Missing:
    def __init__(self, name):
        self.__dict__["_name"] = name

    def __getattr__(self, n):
        if n.startswith("__") and n.endswith("__"):
            raise AttributeError(n)
        return _Missing(self._name + "." + n)

    def __call__(self, *a, **k):
        raise UnsupportedOp(self._name)

    def __mro_entries__(self, bases):
        return (object,)

    def __repr__(self):
        return f"<symtorch: unsupported {self._name}>"


def _ns(name, **items):
    m = _types.ModuleType("torch." + name)
    m.__dict__.update(items)
    m.__getattr__ = lambda n, _name=name: _Missing(f"torch.{_name}.{n}") if not n.startswith("__") else (_ for _ in ()).throw(AttributeError(n))
    _sys.modules["torch." + name] = m
    return m


def _vector_norm(t, ord=2, dim=None, keepdim=False, dtype=None):
    """only exact cases: ord=2 of constants with a rational norm; symbolic -> UnsupportedOp"""
    _log("vector_norm")
    if ord != 2:
        raise UnsupportedOp(f"vector_norm(ord={ord})")
    sq = (t * t.conj()).real.sum(dim, keepdim) if t.dtype.cat == 3 else (t * t).sum(dim, keepdim)
    return sq.sqrt()


linalg = _ns("linalg", vector_norm=_vector_norm, norm=_vector_norm)
cuda = _ns("cuda", device_count=lambda: 0, is_available=lambda: False,
           max_memory_allocated=lambda *a, **k: 0, empty_cache=lambda: None,
           synchronize=lambda *a, **k: None)
special = _ns("special")
sparse = _ns("sparse")
fft = _ns("fft")
nn = _ns("nn")
random = _ns("random", manual_seed=manual_seed)


class _Ctx:
    def save_for_backward(self, *ts):
        self.saved_tensors = ts


class _Function:
    """torch.autograd.Function: only the forward pass is modelled (apply -> forward)."""

    @classmethod
    def apply(cls, *args, **kw):
        return cls.forward(_Ctx(), *args, **kw)


autograd = _ns("autograd", Function=_Function)

# sparse COO / CSR matrices (the API subset of emu_sv/sparse_operator.py): see _sparse.py
from ._sparse import layout, strided, sparse_coo, sparse_csr, sparse_coo_tensor, SparseTensor as _SparseTensor  # noqa: E402,F401


def __getattr__(name):
    if name.startswith("__") and name.endswith("__"):
        raise AttributeError(name)
    return _Missing("torch." + name)
