"""Auto-stub of `pulser` for Engine B.

The tensor-index modules of /repo import pulser names at module level (base classes, type
names, observables) but the functions checked by Engine B never call into pulser.  Every
attribute of `pulser` and of any `pulser.*` submodule is a dummy class `Stub` that can be
subclassed, subscripted (`State[complex, Tensor]`), instantiated and called; it carries no
behaviour.  Nothing here is part of a verdict: a stub reaching a checked computation would
produce a non-polynomial object and the comparison would crash (exit 3), not pass.
"""
import abc
import importlib.abc
import importlib.machinery
import sys
import types

IS_SYMTORCH_STUB = True


class _StubMeta(abc.ABCMeta):
    def __getitem__(cls, item):
        return cls

    def __getattr__(cls, name):
        if name.startswith("__") and name.endswith("__"):
            raise AttributeError(name)
        if name.startswith("_abc_"):
            raise AttributeError(name)
        return _make_stub(f"{cls.__name__}.{name}")

    def __iter__(cls):
        return iter(())

    def __len__(cls):
        return 0

    def __setitem__(cls, key, value):
        pass

    def __instancecheck__(cls, inst):
        return type.__instancecheck__(cls, inst)

    def __subclasscheck__(cls, sub):
        return type.__subclasscheck__(cls, sub)


_cache = {}


def _make_stub(name):
    if name not in _cache:
        _cache[name] = _StubMeta(name.split(".")[-1], (Stub,), {"__module__": "pulser", "_stub_name": name})
    return _cache[name]


class Stub(metaclass=_StubMeta):
    _stub_name = "Stub"

    def __init__(self, *a, **k):
        # keyword arguments become attributes (enough for the module-level default configs
        # `MPSConfig(...)` / `SVConfig(...)` that the backends build at import time)
        self.__dict__.update(k)
        self.__dict__.setdefault("_backend_options", dict(k))

    def __init_subclass__(cls, **k):
        pass

    def __call__(self, *a, **k):
        return None

    def __iter__(self):
        return iter(())

    def __len__(self):
        return 0

    def __getitem__(self, key):
        return _make_stub(f"{type(self).__name__}[]")

    def __setitem__(self, key, value):
        pass

    def __getattr__(self, name):
        if name.startswith("__") and name.endswith("__"):
            raise AttributeError(name)
        return _make_stub(f"{type(self).__name__}.{name}")


def _module_getattr(modname):
    def __getattr__(name):
        if name.startswith("__") and name.endswith("__"):
            raise AttributeError(name)
        return _make_stub(f"{modname}.{name}")
    return __getattr__


class _Loader(importlib.abc.Loader):
    def create_module(self, spec):
        m = types.ModuleType(spec.name)
        m.__path__ = []
        m.__getattr__ = _module_getattr(spec.name)
        return m

    def exec_module(self, module):
        pass


class _Finder(importlib.abc.MetaPathFinder):
    def find_spec(self, fullname, path, target=None):
        if fullname.startswith("pulser."):
            return importlib.machinery.ModuleSpec(fullname, _Loader(), is_package=True)
        return None


if not any(isinstance(f, _Finder) for f in sys.meta_path):
    sys.meta_path.insert(0, _Finder())

__version__ = "0+stub"
__getattr__ = _module_getattr("pulser")
