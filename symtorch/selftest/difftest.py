"""Differential self-test of the symtorch shim against real torch, op by op.

  python3-vt difftest.py [--seed S]        (driver: runs the shim side in-process, spawns
                                            /venv/bin/python for the real-torch side)

Every case is a small function written once against the `torch` API.  It is executed
  (a) on the shim with concrete small-integer / half-integer inputs  -> compared EXACTLY
      (values, shape, dtype name, exception type) with real torch on the same inputs;
  (b) on the shim with SYMBOLIC inputs (every entry a fresh symbol), the resulting polynomials
      are evaluated at a random point and compared (1e-9) with real torch run on that point.
Input mutation and aliasing are covered because cases return their inputs after in-place ops.
Last stdout line: JSON summary.  Exit 0 iff there is no disagreement.
"""
from __future__ import annotations

import json
import math
import os
import random
import subprocess
import sys

HERE = os.path.dirname(os.path.abspath(__file__))
SHIM = os.path.dirname(HERE)

CASES = []


def case(name, inputs, symbolic=True, angles=(), tol=0.0):
    def deco(f):
        CASES.append(dict(name=name, inputs=inputs, fn=f, symbolic=symbolic, angles=angles, tol=tol))
        return f
    return deco


C, F, I64, B = "complex128", "float64", "int64", "bool"

# ------------------------------------------------------------------------------------------
# cases -- idioms of emu_sv / emu_mps / emu_base tensor-index code first
# ------------------------------------------------------------------------------------------
@case("create_diagonal idiom (nested views, in-place through views)", {"de": ((3,), C), "U": ((3, 3), F)})
def _(torch, de, U):
    n = 3
    diag = torch.zeros(2 ** n, dtype=torch.complex128)
    for i in range(n):
        diag = diag.view(2 ** i, 2, -1)
        i_fixed = diag[:, 1, :]
        i_fixed -= de[i]
        for j in range(i + 1, n):
            i_fixed = i_fixed.view(2 ** i, 2 ** (j - i - 1), 2, -1)
            i_j_fixed = i_fixed[:, :, 1, :]
            i_j_fixed += U[i, j]
    return diag.view(-1), diag.shape


@case("index_add_ with index [1,0] and 0-d tensor alpha", {"v": ((2, 2, 2), C), "r": ((2, 2, 2), C), "a": ((), C)})
def _(torch, v, r, a):
    inds = torch.tensor([1, 0])
    out = r.index_add_(1, inds, v, alpha=a)
    return out, r, v, out is r


@case("index_add_ with 0-d index, unsqueezed slice, conj alpha", {"v": ((2, 2, 3), C), "r": ((2, 2, 3), C), "a": ((2,), C)})
def _(torch, v, r, a):
    inds = torch.tensor([1, 0])
    r.index_add_(1, inds[0], v[:, 0, :].unsqueeze(1), alpha=a[0])
    r.index_add_(1, inds[1], v[:, 1, :].unsqueeze(1), alpha=a[1].conj())
    return r


@case("index_add_ real alpha tensor from float64 params", {"v": ((4, 2, 1), C), "r": ((4, 2, 1), C), "a": ((3,), F)})
def _(torch, v, r, a):
    om = a / 2.0
    for n, w in enumerate(om):
        r.index_add_(1, torch.tensor([1, 0]), v, alpha=w)
    return r, om.dtype


@case("matmul_2x2_with_batched idiom", {"left": ((2, 2), C), "right": ((3, 2, 2), C)})
def _(torch, left, right):
    result = torch.zeros_like(right)
    zero = torch.tensor(0)
    one = torch.tensor(1)
    result = result.index_add_(1, zero, right.select(1, 0).unsqueeze(1), alpha=left[0, 0])
    result = result.index_add_(1, zero, right.select(1, 1).unsqueeze(1), alpha=left[0, 1])
    result = result.index_add_(1, one, right.select(1, 0).unsqueeze(1), alpha=left[1, 0])
    result = result.index_add_(1, one, right.select(1, 1).unsqueeze(1), alpha=left[1, 1])
    return result, left @ right


@case("2x2 @ batched view, conj() @, view back", {"L": ((2, 2), C), "rho": ((4, 4), C)})
def _(torch, L, rho):
    a = (L @ rho.view(2, 2, -1)).view(4, 4)
    b = (L.conj() @ rho.view(2 ** 3, 2, -1)).view(4, 4)
    return a, b, rho


@case("x - x.conj().T ; mH @ L ; python sum with start", {"x": ((3, 3), C), "L": ((2, 2), C), "M": ((2, 2), C)})
def _(torch, x, L, M):
    zero = torch.zeros(2, 2, dtype=torch.complex128)
    return x - x.conj().T, -0.5j * sum((k.mH @ k for k in [L, M]), start=zero), sum(k for k in [L, M]), x.mT, x.T


@case("diag.view(-1,1) * matrix, zeros_like(dtype=)", {"d": ((4,), C), "m": ((4, 4), C)})
def _(torch, d, m):
    z = torch.zeros_like(m, dtype=torch.complex128)
    z += d.view(-1, 1) * m
    return z


@case("local hamiltonian: scalar tensors times constant matrices", {"p": ((3,), C)}, angles=("phi",))
def _(torch, p, phi):
    sx = torch.tensor([[0.0, 1.0], [1.0, 0.0]], dtype=torch.complex128)
    sy = torch.tensor([[0.0, -1.0j], [1.0j, 0.0]], dtype=torch.complex128)
    n = torch.tensor([[0.0, 0.0], [0.0, 1.0]], dtype=torch.complex128)
    cp = torch.cos(phi[0]) * sx + torch.sin(phi[0]) * sy
    return p[0] * cp - p[1] * n, (p * torch.exp(1.0j * phi[:3]))[1].conj(), torch.exp(1.0j * phi).dtype


@case("DHD operators idiom: is_nonzero, exp(1j*(phi+pi/2)).item(), alpha.conjugate(), select/unsqueeze/index_add_",
      {"v": ((2, 4), C), "om": ((2,), F)}, angles=("phi",), tol=1e-12)
def _(torch, v, om, phi):
    vec = v.view(v.shape[0], 2, 2, 1)
    inds = torch.tensor([1, 0])
    alpha = 0.5 * (om[0] * torch.exp(1j * (phi[1] + torch.pi / 2))).item()
    beta = 0.5 * torch.exp(1j * phi[0]).item()
    r = torch.zeros_like(vec)
    r.index_add_(2, inds[0], vec.select(2, 0).unsqueeze(2), alpha=alpha)
    r.index_add_(2, inds[1], vec.select(2, 1).unsqueeze(2), alpha=alpha.conjugate())
    r2 = torch.zeros_like(vec)
    r2.index_add_(2, inds, vec, alpha=beta)
    return r.view(v.shape[0], -1), r2, phi[0].is_nonzero(), alpha, beta


@case("DHD operators idiom at the literal phase 0.0: exp(1j*(0 + pi/2)) is read as i", {"v": ((1, 2), C), "om": ((2,), F)},
      tol=1e-12)
def _(torch, v, om):
    z = torch.tensor(0.0, dtype=torch.float64)
    alpha = 0.5 * (om[1] * torch.exp(1j * (z + torch.pi / 2))).item()
    vec = v.view(1, 1, 2, 1)
    r = torch.zeros_like(vec)
    inds = torch.tensor([1, 0])
    r.index_add_(2, inds[0], vec.select(2, 0).unsqueeze(2), alpha=alpha)
    r.index_add_(2, inds[1], vec.select(2, 1).unsqueeze(2), alpha=alpha.conjugate())
    c = v.clone().view(1, 1, 2, 1)
    c[:, :, 0] = 0.0
    return r.view(1, -1), z.is_nonzero(), (z + 1.0).is_nonzero(), -c.view(1, 2), v


@case("backward idiom: (-1j * python scalar * tensordot(Vg.conj(), v)).real stored into zeros_like(params)",
      {"a": ((2, 4), C), "b": ((2, 4), C), "dS": ((2, 2), C), "p": ((3,), F), "s": ((), F)})
def _(torch, a, b, dS, p, s):
    dt = s.item()
    g = torch.zeros_like(p)
    e_l = dS.mT @ torch.stack([b[0], b[1]])
    g[1] = (-1j * dt * torch.tensordot(a.conj(), e_l)).real
    m = torch.zeros(3, 3, dtype=torch.float64)
    m[0, 2] = (-1j * dt * torch.tensordot(a.conj(), b)).real
    return g, m, e_l, len(p), p


@case("cos/sin/exp of literal zeros", {})
def _(torch):
    z = torch.zeros(2, dtype=torch.complex128)
    return torch.cos(z), torch.sin(z), torch.exp(1.0j * z), torch.exp(1j * torch.zeros(2, dtype=torch.float64)).dtype


@case("mpo factor assembly: setitem with slices, steps, negative index", {"J": ((3,), F)})
def _(torch, J):
    ident = torch.eye(3, dtype=torch.complex128)
    n = torch.tensor([[0.0, 0.0], [0.0, 1.0]], dtype=torch.complex128)
    f = torch.zeros(4, 3, 3, 5, dtype=torch.complex128)
    f[0, :, :, 0] = ident
    f[1, :, :, 1] = ident
    f[1, :2, :2, -1] = n
    coeff = J[torch.tensor([True, False, True]), None, None]
    f[2:, :2, :2, 0] = coeff * n
    f[2::2, :2, :2, 2] = coeff[:1] * 2 * n
    return f, coeff.shape


@case("interaction masks: any(dim=1) incl. empty slices, bool sum().item(), nonzero().flatten()",
      {"M": ((4, 4), F)}, symbolic=False)
def _(torch, M):
    M = M.clone()
    M.fill_diagonal_(0.0)
    M[0, 2] = 0.0
    M[2, 0] = 0.0
    M[0, 3] = 0.0
    M[3, 0] = 0.0
    site = 2
    cur = M[:site, site:].any(dim=1)
    keep = M[:site, site + 1:].any(dim=1)
    e1 = M[:0, 0:].any(dim=1)
    e2 = M[:site, 4:].any(dim=1)
    out = [int(cur.sum().item() + 2), int(2 * keep.sum().item() + 2 * int(bool(M[site, site + 1:].any())) + 2)]
    idx = [int(k) for k in cur.nonzero().flatten()]
    flags = [bool(keep[k]) for k in cur.nonzero().flatten()]
    return cur, keep, e1, e2, out, idx, flags, bool(M[site, :site].any()), bool(M[-1, :-1].any())


@case("interaction coefficient gathers (bool mask + int + None mixes)", {"M": ((5, 5), F)})
def _(torch, M):
    n = 2
    cl = torch.tensor([True, False])
    cr = torch.tensor([False, True, True])
    a = M[:n][cl, n, None, None]
    b = M[n + 1:][None, None, cr[:2], n]
    c = M[:n, n + 1:][cl, :][:, None, None, cr[:2]]
    ident = torch.eye(2, dtype=torch.complex128)
    return a, b, c, c * ident[None, ..., None], a * ident, b * ident.unsqueeze(-1)


@case("update_H idiom: tensordot dims=0, stack, += through a slice, row assignment",
      {"om": ((3,), C), "de": ((3,), C), "noise": ((3, 3), C)}, angles=("phi",))
def _(torch, om, de, noise, phi):
    sx = torch.tensor([[0.0, 0.5], [0.5, 0.0]], dtype=torch.complex128)
    sy = torch.tensor([[0.0, -0.5j], [0.5j, 0.0]], dtype=torch.complex128)
    n = torch.tensor([[0.0, 0.0], [0.0, 1.0]], dtype=torch.complex128)
    ph = phi[:3]
    a = torch.tensordot(om * torch.cos(ph), sx, dims=0)
    c = torch.tensordot(de, n, dims=0)
    b = torch.tensordot(om * torch.sin(ph), sy, dims=0)
    terms = torch.stack(3 * [noise])
    terms[:, :2, :2] += a + b - c
    f = torch.zeros(2, 3, 3, 2, dtype=torch.complex128)
    f[1, :, :, 0] = terms[2]
    return terms, f, noise


@case("clone / fill_diagonal_ do not touch the source", {"M": ((3, 3), F)})
def _(torch, M):
    k = M.clone()
    k.fill_diagonal_(0.0)
    return k, M, k.ndim, k.shape[0], M.size(dim=1)


@case("reshape of a transposed tensor copies; view of it raises", {"x": ((2, 3), C)})
def _(torch, x):
    r = x.T.reshape(-1)
    r += 1
    try:
        x.T.view(-1)
        raised = False
    except RuntimeError:
        raised = True
    return x, r, raised, x.T.is_contiguous(), x.T.contiguous().view(-1)


@case("views: select/unsqueeze/squeeze/permute/transpose write-through", {"x": ((2, 3, 4), C)})
def _(torch, x):
    x.select(1, 2).unsqueeze(0)[0, 1, 3] = 7
    x.permute(2, 0, 1)[0, 1] += 1
    x.transpose(0, 2)[1:3, 0, 0] *= 2
    y = x[:, 0:1].squeeze(1)
    y -= 1
    return x, y.shape, x.stride(), x[1].stride()


@case("0-d tensors: item, iteration, len, int indexing result is a view", {"x": ((3,), F)})
def _(torch, x):
    e = x[1]
    e += 5
    return x, e.shape, len(x), [k * 1 for k in x], x[2].item(), x.sum().item(), (x * 2)[0].ndim


@case("dtype promotion table", {"f": ((2,), F), "c": ((2,), C), "i": ((2,), I64), "b": ((2,), B)}, symbolic=False)
def _(torch, f, c, i, b):
    r = [f * 1j, f * 2, f / 2.0, i / 2, i * 1.5, i + b, f + c, f * c[0], i * f, torch.tensor([1.5, 2.0]),
         torch.tensor([1, 2]), torch.tensor([1 + 2j]), torch.tensor([True]), torch.tensor(3.0),
         torch.zeros(2), torch.eye(2), f.to(torch.complex128), c.real, c.imag, (i > 0), b.sum(), f.sum(), c.abs() if False else c,
         torch.tensor([[0.0, 0.5], [0.5, 0.0]], dtype=torch.complex128) * 2, 1.0j * f, f.to(torch.complex128) * torch.tensor(2.0)]
    return [str(t.dtype) for t in r], r[2], r[3], r[5]


@case("errors: index_add_ dtype mismatch", {"v": ((2, 2), F), "r": ((2, 2), C)}, symbolic=False)
def _(torch, v, r):
    r.index_add_(0, torch.tensor([1, 0]), v)
    return r


@case("errors: matmul dtype mismatch", {"a": ((2, 2), F), "b": ((2, 2), C)}, symbolic=False)
def _(torch, a, b):
    return a @ b


@case("errors: tensordot dtype mismatch", {"a": ((2,), F), "b": ((2, 2), C)}, symbolic=False)
def _(torch, a, b):
    return torch.tensordot(a, b, dims=0)


@case("errors: vdot dtype mismatch", {"a": ((2,), F), "b": ((2,), C)}, symbolic=False)
def _(torch, a, b):
    return torch.vdot(a, b)


@case("errors: in-place complex into real", {"a": ((2,), F), "b": ((2,), C)}, symbolic=False)
def _(torch, a, b):
    a += b
    return a


@case("errors: index_add_ shape mismatch", {"v": ((2, 1, 3), C), "r": ((2, 2, 2), C)}, symbolic=False)
def _(torch, v, r):
    r.index_add_(1, torch.tensor([0]), v)
    return r


@case("errors: setitem shape mismatch", {"v": ((3, 2), C), "r": ((2, 2), C)}, symbolic=False)
def _(torch, v, r):
    r[:, :] = v
    return r


@case("errors: view with wrong size", {"r": ((2, 3), C)}, symbolic=False)
def _(torch, r):
    return r.view(4, 2)


@case("errors: float tensor as index", {"r": ((3,), C), "k": ((1,), F)}, symbolic=False)
def _(torch, r, k):
    return r[k]


@case("in-place on integer/bool tensors and int division", {"i": ((3,), I64)}, symbolic=False)
def _(torch, i):
    j = i.clone()
    j += 2
    j *= 3
    return j, j // 2, j % 2, j / 2, -j, (j == 6), (j != 6), (j > 5).any(), (j > 500).any(), ~(j > 5)


@case("stack / cat / where / kron / outer / vdot / trace / diag / flip / block_diag",
      {"a": ((2, 2), C), "b": ((2, 2), C), "v": ((3,), C), "w": ((3,), C)})
def _(torch, a, b, v, w):
    m = torch.tensor([[True, False], [False, True]])
    return (torch.stack([a, b]), torch.stack([a, b], dim=1), torch.cat([a, b]), torch.cat([a, b], dim=1),
            torch.where(m, a, b), torch.kron(a, b), torch.outer(v, w), torch.vdot(v, w), torch.trace(a), a.trace(),
            torch.diag(v), torch.flip(a, (0, 1)), torch.block_diag(a, b), torch.tensordot(a, b, dims=([1], [0])),
            torch.tensordot(a, b, dims=2), torch.tensordot(a, b, dims=1), a.flatten(), v.sum(), a.sum(dim=0), a.sum(1))


@case("flip assignment into an overlapping slice (get_lindblad_operators idiom)", {"t": ((3, 3), C)})
def _(torch, t):
    t[:2, :2] = torch.flip(t[:2, :2], (0, 1))
    return t


@case("diagonal().view(...)[:, 1, :].sum().real and setitem of a real 0-d into float64", {"rho": ((4, 4), C)})
def _(torch, rho):
    d = rho.diagonal()
    occ = torch.zeros(2, dtype=torch.float64)
    for i in range(2):
        occ[i] = d.view(2 ** i, 2, 2 ** (2 - i - 1))[:, 1, :].sum().real
    return occ, d.shape, d.stride()


@case("to(): identity, dtype change copies, device string", {"x": ((2,), F)})
def _(torch, x):
    y = x.to("cpu")
    z = x.to(torch.complex128)
    z += 1
    w = x.to(dtype=torch.float64, device="cpu")
    return x, z, y is x, w is x, x.cpu() is x, x.is_cpu, str(x.device), x.contiguous() is x


@case("arange / ones / eye(n, m) / full / empty shape / Size behaviour", {}, symbolic=False)
def _(torch):
    s = torch.zeros(2, 3).shape
    return (torch.arange(4), torch.arange(1, 4), torch.ones(2, 2, dtype=torch.complex128), torch.eye(2, 3),
            tuple(s), s == (2, 3), s in {(2, 3)}, torch.zeros((2, 3)).shape, torch.zeros([2, 3]).numel(), len(s))


@case("equal / allclose on identical and different tensors", {"x": ((2, 2), C)}, symbolic=False)
def _(torch, x):
    y = x.clone()
    z = x + 1
    return torch.equal(x, y), torch.equal(x, z), torch.allclose(x, y), torch.allclose(x, z), torch.allclose(x.imag, torch.zeros_like(x.imag) + x.imag)


@case("vector_norm(...)**2 on views (occupation / correlation kernels)", {"psi": ((8,), C)}, tol=1e-12)
def _(torch, psi):
    out = torch.zeros(3, dtype=torch.float64)
    for i in range(3):
        st = psi.view(2 ** i, 2, -1)
        out[i] = torch.linalg.vector_norm(st[:, 1]) ** 2
    s = psi.view(2, 2, -1)[:, 1]
    s2 = s.view(2, 1, 2, -1)[:, :, 1, :]
    return out, torch.linalg.vector_norm(s2) ** 2


@case("vdot(...).real, real - real**2, norm of kron pieces", {"a": ((4,), C), "b": ((4,), C)})
def _(torch, a, b):
    h2 = torch.vdot(a, a).real
    e = torch.vdot(b, a).real
    return h2 - e ** 2, torch.vdot(a, b), (a * b.conj()).sum(), h2.dtype


@case("abs: torch.abs(z)**2, python abs(), abs of reals (overlap / _normalize idioms)", {"z": ((3,), C), "x": ((3,), F)}, tol=1e-12)
def _(torch, z, x):
    return torch.abs(z) ** 2, abs(z.sum()) ** 2, torch.abs(torch.vdot(z, z)) ** 2, (x * x).abs()


@case("abs(norm**4 - 1) > tol on concrete values (_normalize idiom)", {"x": ((3,), C)}, symbolic=False, tol=1e-12)
def _(torch, x):
    n = torch.linalg.vector_norm(x)
    return bool(abs(n ** 4 - 1.0) > 1e-12), x / n if False else x


# ------------------------------------------------------------------------------------------
# sparse COO / CSR (torch/_sparse.py): the API subset of emu_sv/sparse_operator.py.  Sparse results are compared
# by their stored layout: index order, duplicates, is_coalesced flag, crow/col pointers, values.
# ------------------------------------------------------------------------------------------
def _sp_add(torch, a, b):
    """emu_sv.sparse_operator.sparse_add, literally"""
    return torch.sparse_coo_tensor(
        torch.cat((a.indices(), b.indices()), dim=1),
        torch.cat((a.values(), b.values())),
        size=a.shape,
    ).coalesce()


def _sp_kron(torch, a, b):
    """emu_sv.sparse_operator.sparse_kron, literally"""
    a, b = a.coalesce(), b.coalesce()
    sa, sb = a.shape, b.shape
    shape = (sa[0] * sb[0], sa[1] * sb[1])
    i = (
        torch.tensor(sb).reshape(2, 1, 1) * a.indices().reshape(2, -1, 1)
        + b.indices().reshape(2, 1, -1)
    ).reshape(2, -1)
    v = torch.outer(a.values(), b.values()).flatten()
    return torch.sparse_coo_tensor(i, v, shape, is_coalesced=True)


@case("sparse: dense.to_sparse_coo() of constants (zeros, eye, units): indices, values, _nnz, flag, layout names",
      {}, symbolic=False)
def _(torch):
    c = torch.complex128
    ts = [torch.tensor([[1.0, 0.0], [0.0, 0.0]], dtype=c), torch.tensor([[0.0, 0.0], [1.0, 0.0]], dtype=c),
          torch.tensor([[0.0, 1.5], [-2.0, 0.0]], dtype=c), torch.zeros((2, 2), dtype=c), torch.eye(2, dtype=c),
          torch.tensor([[0.0, 1.0, 2.0], [3.0, 0.0, 4.0]], dtype=torch.float64)]
    sp = [t.to_sparse_coo() for t in ts]
    return (sp, [s._nnz() for s in sp], [s.indices() for s in sp], [s.values() for s in sp], [s.to_dense() for s in sp],
            [str(s.layout) for s in sp], str(ts[0].layout), [s.is_sparse for s in sp], ts[0].is_sparse,
            [tuple(s.shape) for s in sp], sp[2].to_sparse_coo() is sp[2], sp[2].coalesce() is sp[2], ts[5].to_sparse(),
            ts[5].to_sparse_csr(), sp[2].ndim, sp[2].size(0), sp[2].numel(), ts[0].to_dense() is ts[0])


@case("sparse: sparse_coo_tensor flag rules (nnz < 2, explicit flag), int32 indices, empty accumulator idiom",
      {"v": ((3,), C)})
def _(torch, v):
    c = torch.complex128
    e = torch.sparse_coo_tensor(torch.zeros(2, 0, dtype=torch.int32), torch.zeros(0, dtype=c), (4, 4))
    one = torch.sparse_coo_tensor(torch.tensor([[1], [0]]), v[:1], (2, 2))
    onef = torch.sparse_coo_tensor(torch.tensor([[1], [0]]), v[:1], (2, 2), is_coalesced=False)
    u = torch.sparse_coo_tensor(torch.tensor([[1, 0, 1], [0, 1, 0]], dtype=torch.int32), v, (2, 2))
    f = torch.sparse_coo_tensor(torch.tensor([[1, 0, 1], [0, 1, 0]]), v, (2, 2), is_coalesced=True)
    inferred = torch.sparse_coo_tensor(torch.tensor([[1, 0], [0, 3]]), v[:2])
    cast = torch.sparse_coo_tensor(torch.tensor([[1, 0], [0, 3]]), torch.tensor([1.0, 2.0]), (4, 4), dtype=c)
    return (e, e._nnz(), e.indices(), e.values(), e.to_dense(), one, onef, u, f, f.coalesce() is f, f.indices(), f.values(),
            f.to_dense(), u.to_dense(), inferred, cast, e.to_sparse_csr())


@case("sparse: coalesce sorts lexicographically and sums duplicates; indices()/values() refuse an unflagged tensor",
      {"v": ((7,), C)})
def _(torch, v):
    i = torch.tensor([[2, 0, 2, 1, 0, 2, 0], [1, 3, 1, 0, 3, 0, 0]])
    u = torch.sparse_coo_tensor(i, v, (3, 4))
    out = []
    for name in ("indices", "values"):
        try:
            getattr(u, name)()
            out.append("no error")
        except RuntimeError:
            out.append("RuntimeError")
    k = u.coalesce()
    return out, u, k, k.indices(), k.values(), k._nnz(), u._nnz(), k.coalesce() is k, u.to_dense(), k.to_dense(), u.is_coalesced()


@case("sparse: scalar * s, s * scalar, s / 2, -s, s * 0-d tensor keep indices, order and flag (flagged and unflagged)",
      {"v": ((3,), C), "z": ((2,), C), "x": ((1,), F)})
def _(torch, v, z, x):
    u = torch.sparse_coo_tensor(torch.tensor([[1, 0, 1], [0, 1, 0]]), v, (2, 2))
    s = torch.sparse_coo_tensor(torch.tensor([[0, 1, 1], [1, 0, 1]]), v, (2, 2), is_coalesced=True)
    a, b = z[0].item(), x[0].item()
    return (a * u, u * a, a * s, s * a, b * s, 2 * s, s * 2.5, s / 2, -s, s * z[1], (1 + 2j) * s, (a * s).to_dense(),
            torch.tensor([[0.0, 1.0], [2.0, 0.0]], dtype=torch.float64).to_sparse_coo() * (1 + 1j), (a * s).to_sparse_csr(),
            a * s.to_sparse_csr(), s.to_sparse_csr() * 2.0)


@case("sparse: `result += tensor * coeff` (build_torch_operator_from_string idiom): sorted union, explicit zeros kept",
      {"z": ((4,), C)})
def _(torch, z):
    c = torch.complex128
    units = [torch.tensor(m, dtype=c).to_sparse_coo() for m in ([[1.0, 0.0], [0.0, 0.0]], [[0.0, 0.0], [1.0, 0.0]],
                                                               [[0.0, 1.0], [0.0, 0.0]], [[0.0, 0.0], [0.0, 1.0]])]
    result = torch.zeros((2, 2), dtype=c).to_sparse_coo()
    r0 = result
    snaps = []
    for k in (3, 0, 2):
        result += units[k] * z[k].item()
        snaps.append(result.clone())
    result += units[0] * (-z[0].item())                # cancels: the explicit zero stays
    both = units[1] + units[2]
    return (snaps, result, result is r0, result.to_dense(), both, units[1] - units[1], both + both * 2.0, units[0],
            (result + both).indices(), (result + both).is_coalesced())


@case("sparse: sparse_add / sparse_kron of emu_sv/sparse_operator.py, literally (kron result is FLAGGED coalesced)",
      {"p": ((3,), C), "q": ((2,), C), "w": ((2,), C)})
def _(torch, p, q, w):
    from functools import reduce
    c = torch.complex128
    a = torch.sparse_coo_tensor(torch.tensor([[0, 0, 1], [0, 1, 1]]), p, (2, 2)).coalesce()      # two entries in row 0
    b = torch.sparse_coo_tensor(torch.tensor([[0, 1], [1, 0]]), q, (2, 2)).coalesce()
    ident = torch.eye(2, dtype=c).to_sparse_coo()
    k1 = _sp_kron(torch, a, ident)                       # rows unsorted, flagged coalesced
    k2 = reduce(lambda x, y: _sp_kron(torch, x, y), [ident, a, b])
    k3 = _sp_kron(torch, b, a)
    acc = torch.sparse_coo_tensor(torch.zeros(2, 0, dtype=torch.int32), torch.zeros(0, dtype=c), (4, 4))
    acc1 = _sp_add(torch, acc, w[0].item() * k1)
    acc2 = _sp_add(torch, acc1, w[1].item() * k3)
    dk = torch.kron(a.to_dense(), ident.to_dense())
    return (k1, k1.indices(), k1.to_dense(), dk, k2, k2.to_dense(), k3, acc1, acc2, acc2.to_dense(), acc2.to_sparse_csr(),
            acc1.to_sparse_csr(), acc2.to_sparse_csr().to_dense())


@case("sparse: to_sparse_csr of unflagged (coalesces first) and truly coalesced COO; csr @ vector / matrix, to_dense, "
      "to_sparse_coo, scalar * csr, clone, to(dtype=, device=)", {"v": ((6,), C), "x": ((4,), C), "m": ((4, 2), C), "z": ((1,), C)})
def _(torch, v, x, m, z):
    i = torch.tensor([[2, 0, 2, 1, 0, 2], [1, 3, 1, 0, 3, 0]])
    u = torch.sparse_coo_tensor(i, v, (3, 4))
    ku = u.to_sparse_csr()
    kc = u.coalesce().to_sparse_csr()
    a = z[0].item()
    sc = a * kc
    cl = torch.clone(kc)
    same = kc.to(dtype=torch.complex128, device="cpu")
    return (ku, kc, ku.crow_indices(), ku.col_indices(), ku.values(), kc @ x, kc @ m, u @ x, u.coalesce() @ m, kc.to_dense(),
            kc.to_sparse_coo(), sc, sc @ x, cl, same is kc, kc.to_sparse_csr() is kc, kc._nnz(), str(kc.layout), kc.is_sparse,
            kc.is_sparse_csr, u.is_sparse_csr, tuple(kc.shape), torch.vdot(x[:3], kc @ x), kc.to(torch.complex64).values().dtype,
            u.to(torch.complex64), u.to(dtype=torch.complex128, device="cpu") is u, kc.is_cuda)


@case("sparse: to_sparse_csr of a COO tensor FLAGGED coalesced whose rows are unsorted / duplicated: torch trusts the flag "
      "(sequential row-compression kernel); the wrong CSR matrix is reproduced exactly",
      {"r": ((9,), I64), "c": ((9,), I64), "v": ((9,), C), "x": ((4,), C)})
def _(torch, r, c, v, x):
    out = []
    pats = [torch.stack([r % 4, c % 4]), torch.stack([(r + c) % 3, c % 4]), torch.stack([3 - (r % 4), r % 4]),
            torch.tensor([[0, 1, 0, 1, 2, 3, 2, 3, 0], [0, 1, 2, 3, 0, 1, 2, 3, 3]]),
            torch.tensor([[3, 2, 1, 0, 0, 1, 2, 3, 1], [0, 1, 2, 3, 0, 1, 2, 3, 1]])]
    for i in pats:
        f = torch.sparse_coo_tensor(i, v, (4, 4), is_coalesced=True)
        k = f.to_sparse_csr()
        out.append((f, k, k.to_dense(), f.to_dense(), k @ x, f @ x, k.to_sparse_coo(), f.coalesce() is f))
    # the seeded situation: kron([[a, b], [0, 0]], I) reaches to_sparse_csr() without a real coalesce
    a = torch.sparse_coo_tensor(torch.tensor([[0, 0], [0, 1]]), v[:2], (2, 2), is_coalesced=True)
    kk = _sp_kron(torch, a, torch.eye(2, dtype=torch.complex128).to_sparse_coo())
    return out, kk, kk.to_sparse_csr(), kk.to_sparse_csr().to_dense(), kk.to_dense(), kk.to_sparse_csr() @ x


@case("sparse errors: nnz mismatch", {"v": ((1,), C)}, symbolic=False)
def _(torch, v):
    return torch.sparse_coo_tensor(torch.tensor([[1, 0], [0, 3]]), v, (4, 4))


@case("sparse errors: csr @ vector of another dtype", {"v": ((2,), C), "x": ((2,), F)}, symbolic=False)
def _(torch, v, x):
    return torch.sparse_coo_tensor(torch.tensor([[1, 0], [0, 1]]), v, (2, 2)).to_sparse_csr() @ x


@case("sparse errors: csr @ vector of the wrong length", {"v": ((2,), C), "x": ((3,), C)}, symbolic=False)
def _(torch, v, x):
    return torch.sparse_coo_tensor(torch.tensor([[1, 0], [0, 1]]), v, (2, 2)).to_sparse_csr() @ x


@case("sparse errors: sparse + dense", {"v": ((2,), C), "x": ((2, 2), C)}, symbolic=False)
def _(torch, v, x):
    return torch.sparse_coo_tensor(torch.tensor([[1, 0], [0, 1]]), v, (2, 2)).coalesce() + x


@case("sparse errors: indices() of a CSR tensor", {"v": ((2,), C)}, symbolic=False)
def _(torch, v):
    return torch.sparse_coo_tensor(torch.tensor([[1, 0], [0, 1]]), v, (2, 2)).to_sparse_csr().indices()


@case("sparse: deepcopy of COO copies, deepcopy of CSR raises NotImplementedError (why SparseOperator defines __deepcopy__)",
      {"v": ((2,), C)})
def _(torch, v):
    import copy
    s = torch.sparse_coo_tensor(torch.tensor([[1, 0], [0, 1]]), v, (2, 2))
    d = copy.deepcopy(s)
    try:
        copy.deepcopy(s.to_sparse_csr())
        r = "no error"
    except NotImplementedError:
        r = "NotImplementedError"
    return d, d is s, r


# ---- emu_mps algebra / mps / mpo idioms (C11) --------------------------------------------------
@case("add_factors idiom: cat along 0 / -1 with zero padding (rank 3 and 4); zero_() on the result does not reach the operands",
      {"a": ((2, 3, 2), C), "b": ((1, 3, 3), C), "A": ((2, 2, 2, 1), C), "Bm": ((3, 2, 2, 2), C)})
def _(torch, a, b, A, Bm):
    out = []
    for c1, c2 in ((a, b), (A, Bm)):
        first = torch.cat((c1[:1], c2[:1]), dim=-1)
        last = torch.cat((c1[..., :1], c2[..., :1]), dim=0)
        p1 = torch.cat((c1, torch.zeros((c2.shape[0], *c1.shape[1:]), device=c1.device, dtype=c1.dtype)), dim=0)
        p2 = torch.cat((torch.zeros((c1.shape[0], *c2.shape[1:]), device=c1.device, dtype=c1.dtype), c2), dim=0)
        mid = torch.cat((p1, p2), dim=-1)
        snap = (first.clone(), last.clone(), mid.clone())
        first.zero_()
        mid.zero_()
        out.append((snap, first, mid, c1, c2, mid.shape, last.shape))
    return out


@case("MPS.inner / new_left_bath idiom: tensordot dims=1 and index lists, conj, view(1)[0]",
      {"f": ((2, 3, 2), C), "g": ((3, 3, 2), C), "o": ((2, 3, 3, 2), C), "acc": ((2, 3), C), "bath": ((2, 2, 2), C)})
def _(torch, f, g, o, acc, bath):
    x = torch.tensordot(acc, g, dims=1)
    x = torch.tensordot(f.conj(), x, dims=([0, 1], [0, 1]))
    b = torch.tensordot(bath, f.conj(), ([0], [0]))
    b = torch.tensordot(b, o.to(b.device), ([0, 2], [0, 1]))
    b = torch.tensordot(b, f, ([0, 2], [0, 1]))
    one = torch.ones(1, 1, dtype=f.dtype, device=f.device)
    return x, b, b.shape, torch.tensordot(one, f[:1], dims=1), (x[:1, :1] * 1).view(1)[0].cpu(), f, g


@case("MPS.apply / scale_factors idiom: (d,d) @ (Dl,d,Dr) broadcast, .mT, python scalar and 0-d tensor times a factor",
      {"op": ((3, 3), C), "f": ((2, 3, 2), C), "z": ((), C)})
def _(torch, op, f, z):
    w = 0.5 - 1.5j
    lst = [f, f[:1]]
    scaled = [w * t if i == 0 else t for i, t in enumerate(lst)]
    return (op @ f, op.mT @ f, w * f, z * f, scaled[0], scaled[0] is not f, scaled[1] is lst[1],
            (op.to(f.device) @ f).shape, f)


@case("MPS.norm / overlap idiom: factor.norm() ** 2, torch.abs(0-d) ** 2 (the square of the root is the radicand)",
      {"f": ((2, 3, 2), C), "z": ((), C)}, tol=1e-9)
def _(torch, f, z):
    return f.norm().cpu() ** 2, torch.abs(z) ** 2, f


# ------------------------------------------------------------------------------------------
# input generation and result normalisation
# ------------------------------------------------------------------------------------------
def gen_inputs(c, seed):
    rng = random.Random(f"{seed}:{c['name']}")
    out = {}
    for name, (shape, dt) in c["inputs"].items():
        n = 1
        for s in shape:
            n *= s
        if dt == C:
            flat = [[rng.randint(-6, 6) / 2, rng.randint(-6, 6) / 2] for _ in range(n)]
        elif dt == F:
            flat = [[rng.choice([k for k in range(-6, 7) if k]) / 2, 0.0] for _ in range(n)]
        elif dt == I64:
            flat = [[rng.randint(0, 5), 0] for _ in range(n)]
        else:
            flat = [[rng.randint(0, 1), 0] for _ in range(n)]
        out[name] = dict(shape=list(shape), dtype=dt, flat=flat)
    for a in c["angles"]:
        out[a] = dict(shape=[4], dtype=F, flat=[[rng.choice([0.3, 0.7, 1.1, 1.9, 2.4]), 0.0] for _ in range(4)], angle=True)
    return out


def _nest(flat, shape):
    if not shape:
        return flat[0]
    step = len(flat) // shape[0] if shape[0] else 0
    return [_nest(flat[i * step:(i + 1) * step], shape[1:]) for i in range(shape[0])]


def build_tensor(torch, spec, leaf):
    vals = [leaf(k, re, im) for k, (re, im) in enumerate(spec["flat"])]
    nested = _nest(vals, spec["shape"]) if spec["shape"] else vals[0]
    return torch.tensor(nested, dtype=getattr(torch, spec["dtype"]))


def normalise(torch, x, val):
    if isinstance(x, torch.Tensor) and str(x.layout) != "torch.strided":
        # sparse tensors are compared by their stored LAYOUT (index order, duplicates, flag), not by to_dense()
        if str(x.layout) == "torch.sparse_coo":
            parts = ["sparse_coo", list(x.shape), bool(x.is_coalesced()), x._nnz(), x._indices(), x._values()]
        else:
            parts = [str(x.layout), list(x.shape), x._nnz(), x.crow_indices(), x.col_indices(), x.values()]
        return normalise(torch, parts + [str(x.dtype)], val)
    if isinstance(x, torch.Tensor):
        if hasattr(x, "_a"):
            flat = [val(e) for e in x._a.reshape(-1).tolist()] if x._a.size else []
        else:
            y = x.detach().resolve_conj()
            flat = [val(e) for e in y.reshape(-1).tolist()]
        return dict(t=list(x.shape), dtype=str(x.dtype), flat=flat)
    if isinstance(x, (tuple, list)):
        return [normalise(torch, e, val) for e in x]
    if isinstance(x, (bool, int, float, complex, str)) or x is None:
        return dict(py=val(x) if not isinstance(x, (str, bool)) and x is not None else x, ty=type(x).__name__)
    if isinstance(x, torch.dtype):
        return dict(py=str(x), ty="dtype")
    if hasattr(x, "evalf"):                        # symbolic python scalar out of .item()
        return dict(py=val(x), ty="complex")
    return dict(py=repr(x), ty=type(x).__name__)


def run_side(torch, concrete, env_for=None, symbolic=False):
    """-> {case name: normalised outcome}"""
    res = {}
    is_shim = getattr(torch, "IS_SYMTORCH", False)
    for c in CASES:
        if symbolic and not c["symbolic"]:
            continue
        specs = concrete[c["name"]]
        if symbolic and is_shim:
            import poly
            poly.reset_registry()
            env = {}

            def leaf_factory(nm, spec):
                def leaf(k, re, im):
                    if spec.get("angle"):
                        p = poly.angle(f"{nm}{k}")
                        env[f"{nm}{k}"] = re
                        env[f"cos({nm}{k})"] = math.cos(re)
                        env[f"sin({nm}{k})"] = math.sin(re)
                        return p
                    if spec["dtype"] == C:
                        a, b = poly.var(f"{nm}{k}.re"), poly.var(f"{nm}{k}.im")
                        env[f"{nm}{k}.re"], env[f"{nm}{k}.im"] = re, im
                        return a + poly.I * b
                    if spec["dtype"] == F:
                        env[f"{nm}{k}"] = re
                        return poly.var(f"{nm}{k}", nonzero=True)
                    return int(re) if spec["dtype"] == I64 else bool(re)
                return leaf

            def val(e):
                if hasattr(e, "evalf"):
                    z = e.evalf(env)
                else:
                    z = complex(e)
                return [z.real, z.imag]
        else:
            def leaf_factory(nm, spec):
                def leaf(k, re, im):
                    if spec["dtype"] == C:
                        return complex(re, im)
                    if spec["dtype"] == F:
                        return float(re)
                    return int(re) if spec["dtype"] == I64 else bool(re)
                return leaf

            def val(e):
                if hasattr(e, "evalf"):
                    z = e.evalf({})
                else:
                    z = complex(e)
                return [z.real, z.imag]
        try:
            args = {nm: build_tensor(torch, sp, leaf_factory(nm, sp)) for nm, sp in specs.items()}
            out = c["fn"](torch, **args)
            res[c["name"]] = dict(ok=normalise(torch, out, val))
        except Exception as e:          # noqa: BLE001
            kind = type(e).__name__
            if kind in ("UnsupportedOp", "UndecidedTruth"):
                res[c["name"]] = dict(unsupported=f"{kind}: {e}")
            else:
                res[c["name"]] = dict(raised=kind, msg=str(e)[:200])
    return res


def agree(a, b, tol):
    """structural comparison of two normalised outcomes -> list of differences"""
    diffs = []

    def walk(x, y, path):
        if isinstance(x, list) and isinstance(y, list) and not (x and isinstance(x[0], (int, float))):
            if len(x) != len(y):
                diffs.append(f"{path}: length {len(x)} vs {len(y)}")
                return
            for k, (p, q) in enumerate(zip(x, y)):
                walk(p, q, f"{path}[{k}]")
            return
        if isinstance(x, dict) and isinstance(y, dict):
            if "t" in x or "t" in y:
                if x.get("t") != y.get("t"):
                    diffs.append(f"{path}: shape {x.get('t')} vs {y.get('t')}")
                    return
                if x.get("dtype") != y.get("dtype"):
                    diffs.append(f"{path}: dtype {x.get('dtype')} vs {y.get('dtype')}")
                for k, (p, q) in enumerate(zip(x["flat"], y["flat"])):
                    if abs(complex(*p) - complex(*q)) > tol * (1 + abs(complex(*q))):
                        diffs.append(f"{path}: entry {k}: {p} vs {q}")
                        break
                return
            if x.get("ty") != y.get("ty") and not ({x.get("ty"), y.get("ty")} <= {"int", "float", "complex"}):
                diffs.append(f"{path}: python type {x.get('ty')} vs {y.get('ty')}")
                return
            p, q = x.get("py"), y.get("py")
            if isinstance(p, list) and isinstance(q, list):
                if abs(complex(*p) - complex(*q)) > tol * (1 + abs(complex(*q))):
                    diffs.append(f"{path}: value {p} vs {q}")
            elif p != q:
                diffs.append(f"{path}: value {p!r} vs {q!r}")
            return
        if x != y:
            diffs.append(f"{path}: {x!r} vs {y!r}")

    if "ok" in a and "ok" in b:
        walk(a["ok"], b["ok"], "result")
    elif "raised" in a and "raised" in b:
        if a["raised"] != b["raised"]:
            diffs.append(f"exception type {a['raised']} vs {b['raised']}")
    else:
        diffs.append(f"outcome {json.dumps(a)[:200]} vs {json.dumps(b)[:200]}")
    return diffs


def poly_selftest(seed, rounds=300):
    """random ring identities of poly.Poly checked numerically: evalf is a ring homomorphism that
    respects I^2=-1, s^2=1-c^2, r^2=P, conj/real/imag -- guards the normal form itself"""
    import cmath
    from fractions import Fraction
    import poly
    rng = random.Random(f"poly-{seed}")
    fails = []
    n = 0
    for k in range(rounds):
        poly.reset_registry()
        xs = [poly.var(f"x{i}") for i in range(3)]
        phi = poly.angle("phi")
        c, s_ = poly.p_cos(phi), poly.p_sin(phi)
        atoms = xs + [c, s_, poly.I, poly.const(rng.randint(-3, 3)), poly.const(rng.choice([0.5, -1.5, 0.25]))]
        ang = rng.uniform(0.2, 3.0)
        env = {f"x{i}": rng.choice([-2.5, -1.0, 0.5, 1.5, 3.0]) for i in range(3)}
        env.update({"phi": ang, "cos(phi)": math.cos(ang), "sin(phi)": math.sin(ang)})

        def rand(depth):
            if depth == 0:
                return rng.choice(atoms)
            a, b = rand(depth - 1), rand(depth - 1)
            return rng.choice([lambda: a + b, lambda: a - b, lambda: a * b, lambda: a * b + a, lambda: -a])()
        p, q = rand(3), rand(3)
        P, Q = p.evalf(env), q.evalf(env)
        root_arg = p.real() * p.real() + 1
        r = poly.p_sqrt(root_arg)
        checks = [((p * q).evalf(env), P * Q), ((p + q).evalf(env), P + Q), ((p - q).evalf(env), P - Q),
                  (p.conj().evalf(env), P.conjugate()), (p.real().evalf(env), P.real), (p.imag().evalf(env), P.imag),
                  ((p ** 3).evalf(env), P ** 3), ((p / 4).evalf(env), P / 4),
                  ((r * r * q).evalf(env), root_arg.evalf(env) * Q), ((r * q).evalf(env), cmath.sqrt(root_arg.evalf(env)) * Q),
                  ((poly.p_exp(poly.I * phi) * poly.p_exp(-1 * poly.I * phi)).evalf(env), 1.0),
                  ((s_ * s_ + c * c).evalf(env), 1.0)]
        # canonical form: algebraically equal expressions have identical dicts
        same = [((p + q) * (p - q)).same(p * p - q * q), (p * (q + 1)).same(p * q + p), ((s_ * s_ + c * c)).same(1),
                ((r * r)).same(root_arg), (p - p).is_zero(), ((p * q) * p).same(p * (q * p))]
        # differentiation (specifications that are derivatives): product rule as a canonical-form identity, central
        # finite difference numerically, quarter turns of exp, substitution of the literal phase 0
        for wrt in ("x0", "phi"):
            dp, dq = poly.diff(p, wrt), poly.diff(q, wrt)
            same.append(poly.diff(p * q, wrt).same(dp * q + p * dq))
            same.append(poly.diff(p + q, wrt).same(dp + dq))
            h = 1e-5
            ep, em = dict(env), dict(env)
            if wrt == "phi":
                ep.update({"phi": ang + h, "cos(phi)": math.cos(ang + h), "sin(phi)": math.sin(ang + h)})
                em.update({"phi": ang - h, "cos(phi)": math.cos(ang - h), "sin(phi)": math.sin(ang - h)})
            else:
                ep[wrt], em[wrt] = env[wrt] + h, env[wrt] - h
            fd = (p.evalf(ep) - p.evalf(em)) / (2 * h)
            n += 1
            if abs(dp.evalf(env) - fd) > 1e-5 * (1 + abs(fd) + abs(p.evalf(env))):
                fails.append(f"round {k}: d/d{wrt} = {dp.evalf(env)} but finite difference {fd} for p={p}"[:300])
        kq = rng.randint(-8, 8)
        if kq:
            turn = Fraction(math.pi / 2) * kq                   # an exact integer multiple of the double pi/2
            checks.append((poly.p_exp(poly.I * (phi + turn)).evalf(env), cmath.exp(1j * (ang + kq * math.pi / 2))))
            checks.append((poly.p_exp(poly.I * poly.const(turn)).evalf(env), cmath.exp(1j * kq * math.pi / 2)))
        env0 = dict(env, **{"phi": 0.0, "cos(phi)": 1.0, "sin(phi)": 0.0})
        checks.append((poly.subs_const(p, {"cos(phi)": 1, "sin(phi)": 0, "x1": 0}).evalf(dict(env0, x1=7.0)), p.evalf(dict(env0, x1=0.0))))
        for a, b in checks:
            n += 1
            if abs(a - b) > 1e-8 * (1 + abs(b)):
                fails.append(f"round {k}: {a} vs {b} for p={p} q={q}"[:300])
        for ok in same:
            n += 1
            if not ok:
                fails.append(f"round {k}: canonical-form identity failed for p={p} q={q}"[:300])
    poly.reset_registry()
    return n, fails


def main():
    seed = 0
    if "--seed" in sys.argv:
        seed = int(sys.argv[sys.argv.index("--seed") + 1])
    if "--native" in sys.argv:
        import torch
        with open(sys.argv[sys.argv.index("--native") + 1]) as f:
            concrete = json.load(f)
        print(json.dumps(run_side(torch, concrete)))
        return 0
    sys.path.insert(0, SHIM)
    import torch
    assert torch.IS_SYMTORCH
    summary = dict(seed=seed, cases=len(CASES), rounds=0, exact_compared=0, symbolic_compared=0, disagreements=[],
                   unsupported=[])
    import tempfile
    torch.config.op_log = set()
    for rnd in range(3):
        concrete = {c["name"]: gen_inputs(c, seed * 1000 + rnd) for c in CASES}
        fd, path = tempfile.mkstemp(suffix=".json")
        with os.fdopen(fd, "w") as f:
            json.dump(concrete, f)
        try:
            p = subprocess.run(["/venv/bin/python", os.path.abspath(__file__), "--native", path],
                               capture_output=True, text=True, timeout=600,
                               env={**{k: v for k, v in os.environ.items() if k != "PYTHONPATH"},
                                    "OMP_NUM_THREADS": "1", "MKL_NUM_THREADS": "1"})
        finally:
            os.remove(path)
        try:
            native = json.loads(p.stdout.strip().splitlines()[-1])
        except Exception:
            summary["error"] = "native side failed: " + (p.stdout + p.stderr)[-1500:]
            break
        shim_c = run_side(torch, concrete)
        shim_s = run_side(torch, concrete, symbolic=True)
        summary["rounds"] += 1
        for c in CASES:
            n = c["name"]
            for label, side, tol in (("exact", shim_c, c["tol"]), ("symbolic", shim_s, 1e-9)):
                if n not in side:
                    continue
                if "unsupported" in side[n]:
                    summary["unsupported"].append(f"{label}: {n}: {side[n]['unsupported']}")
                    continue
                d = agree(side[n], native[n], tol)
                summary["exact_compared" if label == "exact" else "symbolic_compared"] += 1
                if d:
                    summary["disagreements"].append(dict(case=n, mode=label, diffs=d[:4]))
    n_poly, poly_fails = poly_selftest(seed)
    summary["poly_identities_checked"] = n_poly
    for f in poly_fails[:5]:
        summary["disagreements"].append(dict(case="poly ring identities", mode="poly", diffs=[f]))
    summary["unsupported"] = sorted(set(summary["unsupported"]))
    summary["ops_covered"] = sorted(torch.config.op_log)
    print(json.dumps(summary))
    return 0 if not summary["disagreements"] and not summary.get("error") else 1


if __name__ == "__main__":
    sys.exit(main())
