"""C06 -- emu-sv operators apply exactly the Hamiltonian and Lindbladian they represent.

Case kinds
  sv_ham    RydbergHamiltonian(...) * psi  and  .diag      vs dense H (Kronecker products)
  lindblad  RydbergLindbladian(...) @ rho, .h_eff(rho, .)  vs dense Lindblad generator
  matmul    matmul_2x2_with_batched(l, r)                  vs the index definition and l @ r
"""
from __future__ import annotations

import itertools

import numpy as np

from .core import dagger, dense_rydberg, embed, mat, zeros


# ------------------------------------------------------------------------------------------
# shared input construction
# ------------------------------------------------------------------------------------------
def _drive(B, case):
    N = case["N"]
    om = [0 if j in case.get("omega_zero", []) else B.real(f"om{j}") for j in range(N)]
    de = [0 if j in case.get("delta_zero", []) else B.real(f"de{j}") for j in range(N)]
    ph, cs = [], []
    for j in range(N):
        if case["phi"][j]:
            p, c, s = B.angle(f"phi{j}")
            ph.append(p)
            cs.append((c, s))
        else:
            ph.append(0)
            cs.append((1, 0))
    pairs = {tuple(p) for p in case["U"]}
    U = [[0] * N for _ in range(N)]
    for i in range(N):
        for j in range(i + 1, N):
            if (i, j) in pairs:
                U[i][j] = U[j][i] = B.real(f"U{i}_{j}", nonzero=True)
    return om, de, ph, cs, U


def _drive_tensors(B, case, om, de, ph, U):
    dt = case.get("param_dtype", "complex128")
    return (B.tensor(om, dt), B.tensor(de, dt), B.tensor(ph, dt), B.tensor(U, "float64"))


# ------------------------------------------------------------------------------------------
def sv_ham(B, case):
    N = case["N"]
    om, de, ph, cs, U = _drive(B, case)
    psi = [B.cplx(f"psi{k}") for k in range(2 ** N)]
    t_om, t_de, t_ph, t_U = _drive_tensors(B, case, om, de, ph, U)
    t_psi = B.tensor(psi, "complex128")
    psi2 = [(k + 2) * psi[(k + 1) % len(psi)] for k in range(len(psi))]       # a different vector: shifted, rescaled
    t_psi2 = B.tensor(psi2, "complex128")
    with B.under_test():
        from emu_sv.hamiltonian import RydbergHamiltonian
        H = RydbergHamiltonian(omegas=t_om, deltas=t_de, phis=t_ph, interaction_matrix=t_U, device="cpu")
        out = H * t_psi
        out2 = H * t_psi2                     # a second application (another vector) must neither accumulate state
        is_complex_path = bool(H.complex)     # nor disturb the first result (checked AFTER the second application)
    Hd = dense_rydberg(B, N, om, de, cs, U)
    want = Hd.dot(mat(B, psi))
    want2 = Hd.dot(mat(B, psi2))
    want_diag = mat(B, [Hd[k, k] for k in range(2 ** N)])
    expect_complex = any(case["phi"])
    checks = [("H*psi", B.arr(out), want),
              ("H*psi2 (second application, other vector)", B.arr(out2), want2),
              ("H.diag", B.arr(H.diag), want_diag),
              ("psi not modified", B.arr(t_psi), mat(B, psi)),
              ("complex-path flag", mat(B, [int(is_complex_path)]), mat(B, [int(expect_complex)]))]
    return checks


# ------------------------------------------------------------------------------------------
def _hermitian(B, n, name="rho"):
    m = [[None] * n for _ in range(n)]
    for k in range(n):
        m[k][k] = B.real(f"{name}{k}_{k}")
        for l in range(k + 1, n):
            z = B.cplx(f"{name}{k}_{l}")
            m[k][l] = z
            m[l][k] = B.conj(z)
    return m


def _general(B, n, m=None, name="rho"):
    m = n if m is None else m
    return [[B.cplx(f"{name}{k}_{l}") for l in range(m)] for k in range(n)]


def _jump(B, k, pattern):
    """2x2 jump operator; pattern: 4 flags (row-major) saying which entries are symbolic"""
    return [[B.cplx(f"L{k}_{a}{b}") if pattern[2 * a + b] else 0 for b in range(2)] for a in range(2)]


def lindblad(B, case):
    N = case["N"]
    dim = 2 ** N
    om, de, ph, cs, U = _drive(B, case)
    rho = _hermitian(B, dim) if case["rho"] == "hermitian" else _general(B, dim)
    Ls = [_jump(B, k, pat) for k, pat in enumerate(case["jumps"])]
    t_om, t_de, t_ph, t_U = _drive_tensors(B, case, om, de, ph, U)
    t_rho = B.tensor(rho, "complex128")
    t_Ls = [B.tensor(L, "complex128") for L in Ls]
    if case.get("gpu"):
        t_rho = B.force_gpu(t_rho)
    with B.under_test():
        from emu_sv.lindblad_operator import RydbergLindbladian
        from emu_base.jump_lindblad_operators import compute_noise_from_lindbladians
        op = RydbergLindbladian(omegas=t_om, deltas=t_de, phis=t_ph, pulser_lindblads=t_Ls,
                                interaction_matrix=t_U, device="cpu")
        out = op @ t_rho
        noise = compute_noise_from_lindbladians(t_Ls)
        heff = op.h_eff(t_rho, noise)
    # ---- dense specification
    Hd = dense_rydberg(B, N, om, de, cs, U)
    R = mat(B, rho)
    Lm = [mat(B, L) for L in Ls]
    S = zeros(B, dim, dim)                               # sum_q sum_k (L_k^dag L_k)_q
    jump_term = zeros(B, dim, dim)                       # sum_q sum_k L_kq rho L_kq^dag
    for L in Lm:
        LdL = dagger(B, L).dot(L)
        for q in range(N):
            S = S + embed(B, {q: LdL}, N)
            Lq = embed(B, {q: L}, N)
            jump_term = jump_term + Lq.dot(R).dot(dagger(B, Lq))
    half_i = 0.5 * B.I
    Heff = Hd - half_i * S
    X = Heff.dot(R)
    if case["rho"] == "hermitian":
        # i * Lindblad generator:  [H,rho] - i/2 {S,rho} + i sum L rho L^dag
        want = Hd.dot(R) - R.dot(Hd) - half_i * (S.dot(R) + R.dot(S)) + B.I * jump_term
    else:
        # what the operator documents for an arbitrary matrix: Heff rho - (Heff rho)^dag + i sum L rho L^dag
        want = X - dagger(B, X) + B.I * jump_term
    return [("L@rho", B.arr(out), want),
            ("h_eff(rho)", B.arr(heff), X),
            ("rho not modified", B.arr(t_rho), R)]


# ------------------------------------------------------------------------------------------
def matmul(B, case):
    nb, m = case["batch"], case["cols"]
    left = _general(B, 2, 2, "l")
    right = [[[B.cplx(f"r{b}_{j}_{c}") for c in range(m)] for j in range(2)] for b in range(nb)]
    t_l = B.tensor(left, "complex128")
    t_r = B.tensor(right, "complex128")
    with B.under_test():
        from emu_base.math.matmul import matmul_2x2_with_batched
        out = matmul_2x2_with_batched(t_l, t_r)
        cpu = t_l @ t_r
    want = zeros(B, nb, 2, m)
    for b in range(nb):
        for i in range(2):
            for c in range(m):
                want[b, i, c] = left[i][0] * right[b][0][c] + left[i][1] * right[b][1][c]
    return [("matmul_2x2_with_batched", B.arr(out), want),
            ("left @ right (CPU path)", B.arr(cpu), want),
            ("right not modified", B.arr(t_r), mat(B, right))]


KINDS = {"sv_ham": sv_ham, "lindblad": lindblad, "matmul": matmul}


# ------------------------------------------------------------------------------------------
# case enumeration
# ------------------------------------------------------------------------------------------
def _all_pairs(N):
    return [[i, j] for i in range(N) for j in range(i + 1, N)]


def _subsets(items):
    for r in range(len(items) + 1):
        for c in itertools.combinations(items, r):
            yield [list(x) for x in c]


FULL = [1, 1, 1, 1]
JUMP_PATTERNS = [FULL, [0, 1, 0, 0], [1, 0, 0, 1], [0, 1, 1, 0]]       # general, sigma^-, dephasing-like, x-like


def cases(tier, control=False):
    out = []
    # ---- Hamiltonian: every phase zero-pattern; every interaction pattern for N <= 3
    nmax_all_U = 3
    for N in range(1, 5):
        for phi in itertools.product([0, 1], repeat=N):
            Us = list(_subsets(_all_pairs(N))) if N <= nmax_all_U else [_all_pairs(N), _all_pairs(N)[::2]]
            for U in Us:
                for dt in ("complex128", "float64"):
                    if dt == "float64" and N > 2 and not (tier == "thorough"):
                        continue
                    out.append(dict(kind="sv_ham", N=N, phi=list(phi), U=U, param_dtype=dt))
        out.append(dict(kind="sv_ham", N=N, phi=[1] * N, U=_all_pairs(N), omega_zero=[0], delta_zero=[N - 1],
                        param_dtype="complex128"))
        out.append(dict(kind="sv_ham", N=N, phi=[0] * N, U=_all_pairs(N), omega_zero=list(range(N)),
                        param_dtype="complex128"))
    if tier == "thorough":
        N = 4
        for phi in itertools.product([0, 1], repeat=N):
            for U in _subsets(_all_pairs(N)):
                if U in (_all_pairs(N), _all_pairs(N)[::2]):
                    continue                      # already listed above
                out.append(dict(kind="sv_ham", N=N, phi=list(phi), U=U, param_dtype="complex128"))
        N = 5
        chain = [[i, i + 1] for i in range(N - 1)]
        for phi in itertools.product([0, 1], repeat=N):
            for U in (_all_pairs(N), chain, []):
                out.append(dict(kind="sv_ham", N=N, phi=list(phi), U=U, param_dtype="complex128"))
        N = 6
        for phi in ([0] * N, [1] * N, [1, 0] * 3, [0, 0, 0, 0, 0, 1], [1, 0, 0, 0, 0, 0]):
            for U in (_all_pairs(N), [[i, i + 1] for i in range(N - 1)]):
                out.append(dict(kind="sv_ham", N=N, phi=list(phi), U=U, param_dtype="complex128"))
        N = 7
        for phi in ([1] * N, [1, 0, 1, 0, 1, 0, 1], [0] * N):
            out.append(dict(kind="sv_ham", N=N, phi=list(phi), U=_all_pairs(N), param_dtype="complex128"))
    # ---- Lindbladian
    lind_N = [1, 2] if tier == "quick" else [1, 2, 3]
    for N in lind_N:
        phis = list(itertools.product([0, 1], repeat=N))
        for phi in phis:
            jump_sets = [[], [FULL], [FULL, FULL], [JUMP_PATTERNS[1], JUMP_PATTERNS[2]]]
            if tier == "thorough" and N <= 2:
                jump_sets.append([JUMP_PATTERNS[1], JUMP_PATTERNS[2], JUMP_PATTERNS[3]])
            if N == 3:
                jump_sets = [[], [FULL], [JUMP_PATTERNS[1], JUMP_PATTERNS[2]]]
            for jumps in jump_sets:
                for gpu in (False, True):
                    for rho in ("hermitian", "general"):
                        if rho == "general" and ((N == 3 and len(jumps) > 1) or (tier == "quick" and len(jumps) == 2 and jumps[0] == FULL)):
                            continue
                        out.append(dict(kind="lindblad", N=N, phi=list(phi), U=_all_pairs(N), jumps=jumps,
                                        gpu=gpu, rho=rho, param_dtype="complex128"))
    # ---- 2x2 batched matmul on its own
    for nb, m in [(1, 1), (1, 4), (2, 2), (4, 1), (3, 5)] + ([(8, 8), (16, 2)] if tier == "thorough" else []):
        out.append(dict(kind="matmul", batch=nb, cols=m))
    if control:
        out = [c for c in out if (c["kind"] == "sv_ham" and c["N"] <= 3 and c.get("param_dtype") == "complex128")
               or (c["kind"] == "lindblad" and c["N"] <= 2 and len(c["jumps"]) <= 1)
               or c["kind"] == "matmul"]
    return out
PACKAGES = ["emu_base", "emu_sv", "emu_base.math.matmul", "emu_sv.hamiltonian", "emu_sv.lindblad_operator"]
