"""C05 -- the emu-mps matrix-product Hamiltonian contracts to the dense Rydberg / XY Hamiltonian.

One case = (N, hamiltonian type, dim, sparsity pattern of the symmetric interaction matrix).
For each case the real `make_H` is run on an interaction matrix whose entries are literal 0
or a non-zero symbol, then the real `update_H` twice (second time with fresh symbols and a
different phase zero-pattern).  After each step the MPO factors are contracted to a dense
operator (checker-side sparse contraction, independent of the shim's tensordot) and compared
entry by entry with the Pulser-convention Hamiltonian built from its definition:

  H = sum_j [ Om_j/2 (cos phi_j sx_j + sin phi_j sy_j) - de_j n_j + noise_j ]
      + sum_{i<j} J_ij n_i n_j                         (Rydberg)
      + sum_{i<j} J_ij (s+_i s-_j + s-_i s+_j)          (XY)

with sx, sy, n, s+- living in the upper-left 2x2 block of the dim x dim single-atom space
(test/emu_mps/test_hamiltonian.py: sv_hamiltonian), atom 0 = most significant digit.
"""
from __future__ import annotations

import itertools

import numpy as np

from .core import SparseOp, embed, eye, kron, mat, number_op, sigma_x, sigma_y, zeros

PACKAGES = ["emu_base", "emu_mps", "emu_mps.hamiltonian", "emu_mps.mpo"]


# ------------------------------------------------------------------------------------------
# sparse operators: {(row, col): value}
# ------------------------------------------------------------------------------------------
def _add(B, d, key, v):
    if B.is_zero(v):
        return
    old = d.get(key)
    if old is None:
        d[key] = v
    else:
        s = old + v
        if B.is_zero(s):
            del d[key]
        else:
            d[key] = s


def contract_mpo(B, factors, dim):
    """factors[k]: ndarray (Dl, dim, dim, Dr), index order (left, out, in, right) -> sparse dense op"""
    nz = []
    for f in factors:
        if f.ndim != 4 or f.shape[1] != dim or f.shape[2] != dim:
            raise ValueError(f"bad factor shape {f.shape}")
        by_left = {}
        for idx in np.ndindex(f.shape):
            v = f[idx]
            if not B.is_zero(v):
                by_left.setdefault(idx[0], []).append((idx[1], idx[2], idx[3], v))
        nz.append(by_left)
    if factors[0].shape[0] != 1 or factors[-1].shape[3] != 1:
        raise ValueError("outer bond dimensions must be 1")
    state = {0: {(0, 0): 1}}                  # bond index -> {(row, col): value}
    for k, by_left in enumerate(nz):
        if k and factors[k].shape[0] != factors[k - 1].shape[3]:
            raise ValueError("bond dimension mismatch")
        new = {}
        for l, ops in state.items():
            for (a, b, r, v) in by_left.get(l, ()):
                tgt = new.setdefault(r, {})
                for (row, col), w in ops.items():
                    _add(B, tgt, (row * dim + a, col * dim + b), w * v)
        state = new
    return state.get(0, {})


def sparse_embed(B, ops, N, dim):
    """{site: small matrix} -> sparse operator on dim^N by index arithmetic"""
    sites = sorted(ops)
    small = [[(a, b, ops[s][a, b]) for a in range(dim) for b in range(dim) if not B.is_zero(ops[s][a, b])]
             for s in sites]
    others = [k for k in range(N) if k not in ops]
    out = {}
    for combo in itertools.product(*small):
        val = 1
        for (_, _, v) in combo:
            val = val * v
        for rest in itertools.product(range(dim), repeat=len(others)):
            rd = [0] * N
            cd = [0] * N
            for s, (a, b, _) in zip(sites, combo):
                rd[s], cd[s] = a, b
            for k, x in zip(others, rest):
                rd[k] = cd[k] = x
            row = col = 0
            for k in range(N):
                row = row * dim + rd[k]
                col = col * dim + cd[k]
            _add(B, out, (row, col), val)
    return out


def sparse_sum(B, terms):
    out = {}
    for t in terms:
        for k, v in t.items():
            _add(B, out, k, v)
    return out


def _pad(B, m2, dim):
    m = zeros(B, dim, dim)
    m[:2, :2] = m2
    return m


def spec_interaction(B, N, dim, J, htype):
    n = _pad(B, number_op(B), dim)
    sp = zeros(B, dim, dim)
    sp[0, 1] = 1                                  # sigma^+ in the convention of the repo's tests
    sm = zeros(B, dim, dim)
    sm[1, 0] = 1
    terms = []
    for i in range(N):
        for j in range(i + 1, N):
            if B.is_zero(J[i][j]):
                continue
            if htype == "Rydberg":
                terms.append(sparse_embed(B, {i: J[i][j] * n, j: n}, N, dim))
            else:
                terms.append(sparse_embed(B, {i: J[i][j] * sp, j: sm}, N, dim))
                terms.append(sparse_embed(B, {i: J[i][j] * sm, j: sp}, N, dim))
    return sparse_sum(B, terms)


def spec_single(B, N, dim, om, de, cs, noise):
    terms = []
    for j in range(N):
        c, s = cs[j]
        loc = _pad(B, (om[j] * 0.5) * (c * sigma_x(B) + s * sigma_y(B)) - de[j] * number_op(B), dim) + noise
        terms.append(sparse_embed(B, {j: loc}, N, dim))
    return sparse_sum(B, terms)


def dense_from_sparse(B, sp, n):
    m = zeros(B, n, n)
    for (r, c), v in sp.items():
        m[r, c] = v
    return m


def dense_spec_kron(B, N, dim, J, htype, om, de, cs, noise):
    """the same specification by literal Kronecker products (oracle self-check for small N)"""
    h = zeros(B, dim ** N, dim ** N)
    n = _pad(B, number_op(B), dim)
    sp = zeros(B, dim, dim)
    sp[0, 1] = 1
    sm = zeros(B, dim, dim)
    sm[1, 0] = 1
    for j in range(N):
        if om is not None:
            c, s = cs[j]
            loc = _pad(B, (om[j] * 0.5) * (c * sigma_x(B) + s * sigma_y(B)) - de[j] * number_op(B), dim) + noise
            h = h + embed(B, {j: loc}, N, dim)
        for k in range(j + 1, N):
            if htype == "Rydberg":
                h = h + J[j][k] * embed(B, {j: n, k: n}, N, dim)
            else:
                h = h + J[j][k] * (embed(B, {j: sp, k: sm}, N, dim) + embed(B, {j: sm, k: sp}, N, dim))
    return h


# ------------------------------------------------------------------------------------------
def _drive(B, N, dim, tag, phi_pattern):
    om = [B.real(f"om{tag}{j}") for j in range(N)]
    de = [B.real(f"de{tag}{j}") for j in range(N)]
    ph, cs = [], []
    for j in range(N):
        if phi_pattern[j]:
            p, c, s = B.angle(f"phi{tag}{j}")
            ph.append(p)
            cs.append((c, s))
        else:
            ph.append(0)
            cs.append((1, 0))
    noise = [[B.cplx(f"nz{tag}{a}{b}") for b in range(dim)] for a in range(dim)]
    return om, de, ph, cs, noise


def pattern_pairs(N, bits):
    pairs = [(i, j) for i in range(N) for j in range(i + 1, N)]
    return [p for k, p in enumerate(pairs) if bits >> k & 1]


def mpo(B, case):
    N, dim, htype, bits = case["N"], case["dim"], case["type"], case["pattern"]
    pairs = set(pattern_pairs(N, bits))
    J = [[0] * N for _ in range(N)]
    for (i, j) in pairs:
        J[i][j] = J[j][i] = B.real(f"J{i}_{j}", nonzero=True)
    t_J = B.tensor(J, "float64")
    phi1 = [1] * N
    phi2 = case.get("phi2", [k % 2 for k in range(N)])
    om1, de1, ph1, cs1, nz1 = _drive(B, N, dim, "a", phi1)
    om2, de2, ph2, cs2, nz2 = _drive(B, N, dim, "b", phi2)
    dt = "complex128"
    snaps = []
    with B.under_test():
        from emu_mps.hamiltonian import make_H, update_H
        from emu_base import HamiltonianType
        ham = make_H(interaction_matrix=t_J, hamiltonian_type=getattr(HamiltonianType, htype), dim=dim,
                     num_gpus_to_use=0)
        snaps.append([B.arr(f).copy() for f in ham.factors])
        update_H(hamiltonian=ham, omega=B.tensor(om1, dt), delta=B.tensor(de1, dt), phi=B.tensor(ph1, dt),
                 noise=B.tensor(nz1, dt))
        snaps.append([B.arr(f).copy() for f in ham.factors])
        t_nz2 = B.tensor(nz2, dt)
        update_H(hamiltonian=ham, omega=B.tensor(om2, dt), delta=B.tensor(de2, dt), phi=B.tensor(ph2, dt),
                 noise=t_nz2)
        snaps.append([B.arr(f).copy() for f in ham.factors])
    inter = spec_interaction(B, N, dim, J, htype)
    specs = [inter,
             sparse_sum(B, [inter, spec_single(B, N, dim, om1, de1, cs1, mat(B, nz1))]),
             sparse_sum(B, [inter, spec_single(B, N, dim, om2, de2, cs2, mat(B, nz2))])]
    labels = ["make_H", "update_H", "update_H (second, fresh symbols)"]
    n = dim ** N
    checks = []
    for lab, fs, sp in zip(labels, snaps, specs):
        got = contract_mpo(B, fs, dim)
        checks.append((lab, SparseOp(got, (n, n)), SparseOp(sp, (n, n))))
    checks.append(("interaction matrix not modified", B.arr(t_J), mat(B, J)))
    checks.append(("noise argument not modified", B.arr(t_nz2), mat(B, nz2)))
    if case.get("kron_selfcheck"):
        # oracle self-check: sparse index arithmetic == literal Kronecker products
        checks.append(("oracle self-check (kron)", dense_from_sparse(B, specs[2], n),
                       dense_spec_kron(B, N, dim, J, htype, om2, de2, cs2, mat(B, nz2))))
    case["bond_dims"] = [int(f.shape[3]) for f in snaps[0]]
    return checks


KINDS = {"mpo": mpo}


def n_pairs(N):
    return N * (N - 1) // 2


def structured_patterns(N):
    """hand-picked families: empty, full, single pair, single missing pair, chains of range r, stars, two blocks"""
    pairs = [(i, j) for i in range(N) for j in range(i + 1, N)]
    idx = {p: k for k, p in enumerate(pairs)}
    full = 2 ** len(pairs) - 1
    pats = {0, full}
    for k in range(len(pairs)):
        pats.add(1 << k)
        pats.add(full ^ (1 << k))
    for r in range(1, N):
        pats.add(sum(1 << idx[p] for p in pairs if p[1] - p[0] <= r))
        pats.add(sum(1 << idx[p] for p in pairs if p[1] - p[0] == r))
    for c in range(N):
        pats.add(sum(1 << idx[p] for p in pairs if c in p))
        pats.add(full ^ sum(1 << idx[p] for p in pairs if c in p))
    for cut in range(1, N):
        pats.add(sum(1 << idx[p] for p in pairs if (p[0] < cut) == (p[1] < cut)))      # two blocks
        pats.add(sum(1 << idx[p] for p in pairs if (p[0] < cut) != (p[1] < cut)))      # bipartite across the cut
    return sorted(pats)


def sampled_patterns(N, count, seed):
    import random
    rng = random.Random(f"c05-{N}-{seed}")
    pats = set(structured_patterns(N))
    m = n_pairs(N)
    while len(pats) < count + len(structured_patterns(N)):
        p = rng.choice([0.12, 0.25, 0.5, 0.75, 0.9])
        pats.add(sum(1 << k for k in range(m) if rng.random() < p))
    return sorted(pats)


# (N, dim) -> "all" or number of seeded random patterns added to the structured families
PLAN = {
    "quick": {(2, 2): "all", (2, 3): "all", (3, 2): "all", (3, 3): "all", (4, 2): "all", (4, 3): "all",
              (5, 2): "all", (5, 3): 0, (6, 2): 150, (7, 2): 60},
    "thorough": {(2, 2): "all", (2, 3): "all", (3, 2): "all", (3, 3): "all", (4, 2): "all", (4, 3): "all",
                 (5, 2): "all", (5, 3): "all", (6, 2): "all", (6, 3): 300, (7, 2): 3000, (7, 3): 0},
    "control": {(2, 2): "all", (2, 3): "all", (3, 2): "all", (4, 2): "all", (4, 3): 0, (5, 2): 100, (6, 2): 0, (7, 2): 0},
}


def plan_description(tier):
    parts = []
    for (N, dim), how in sorted(PLAN[tier].items()):
        what = (f"all {2 ** n_pairs(N)} patterns" if how == "all" else
                f"{len(structured_patterns(N))} structured + {how} seeded random patterns of {2 ** n_pairs(N)}")
        parts.append(f"N={N} dim={dim}: {what}")
    return "; ".join(parts) + " (each for Rydberg and XY)"


def cases(tier, control=False, seed=0):
    out = []
    plan = PLAN["control" if control else tier]
    for (N, dim), how in sorted(plan.items()):
        pats = range(2 ** n_pairs(N)) if how == "all" else sampled_patterns(N, how, seed)
        for htype in ("Rydberg", "XY"):
            for bits in pats:
                c = dict(kind="mpo", N=N, type=htype, dim=dim, pattern=bits)
                if (N <= 3 and dim == 2) or N == 2:
                    c["kron_selfcheck"] = True
                if how != "all":
                    c["sampled"] = True
                out.append(c)
    # heaviest first so that the pool stays busy
    out.sort(key=lambda c: -(c["dim"] ** c["N"]))
    return out
