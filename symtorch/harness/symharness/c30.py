"""C30 (bounded structural part) -- the hand-written derivative operators of the emu-sv backward pass
are the partial derivatives of the Hamiltonian.

`EvolveStateVector.backward` (emu_sv/time_evolution.py) does not differentiate the Hamiltonian by autograd:
it applies the hand-written operators DHDOmegaSparse / DHDDeltaSparse / DHDPhiSparse / DHDUSparse.  The
gradient can only equal a finite difference of the emulated results if each of them *is* the partial
derivative of the Hamiltonian that the forward pass exponentiates.

Specification (independent of the code under test): the dense Kronecker-product Hamiltonian of core.py
(the one C06 compares RydbergHamiltonian with), built with a *named symbol for every drive parameter*,
differentiated entry by entry as an exact polynomial (angles: d cos = -sin, d sin = cos), literal zeros of
the case substituted afterwards.

Case kinds
  dh_omega  DHDOmegaSparse(k, device, N, phis[k]) @ V             vs  (dH/dOmega_k) V
  dh_delta  DHDDeltaSparse(k, N) @ V                              vs  (dH/ddelta_k) V
  dh_phi    DHDPhiSparse(k, device, N, omegas[k], phis[k]) @ V    vs  (dH/dphi_k) V
  dh_u      DHDUSparse(i, j, N) @ V                               vs  (dH/dU_ij) V
  backward  EvolveStateVector.backward with `double_krylov` replaced by a stub that returns ARBITRARY
            symbolic Krylov data (Vs, dS, Vg)                     vs  Re Tr(-i dt dH/dp Vs^T dS conj(Vg)) for every
            parameter p, every output slot; plus: the operator handed to double_krylov is -i dt H
  spec      the differentiated dense Hamiltonian                  vs  the literal Kronecker products of the
            docstrings (cross-check of the specification and of poly.diff; no code under test involved)
V is a batch of arbitrary complex vectors (every entry Re + i Im of two symbols).
"""
from __future__ import annotations

import itertools
from types import SimpleNamespace

import numpy as np

from .core import PolySpec, dense_rydberg, embed, mat, number_op, sigma_x, sigma_y, zeros


# ------------------------------------------------------------------------------------------
# inputs: symbols of the run (B) and the same-named symbols of the specification (PolySpec)
# ------------------------------------------------------------------------------------------
def _names(N):
    return ([f"om{j}" for j in range(N)], [f"de{j}" for j in range(N)], [f"phi{j}" for j in range(N)],
            {(i, j): f"U{i}_{j}" for i in range(N) for j in range(i + 1, N)})


def _drive(B, case):
    """the drive handed to the code under test: literal zeros where the case says so"""
    N = case["N"]
    n_om, n_de, n_ph, n_U = _names(N)
    om = [0.0 if j in case.get("omega_zero", []) else B.real(n_om[j]) for j in range(N)]
    de = [0.0 if j in case.get("delta_zero", []) else B.real(n_de[j]) for j in range(N)]
    ph = []
    for j in range(N):
        ph.append(B.angle(n_ph[j])[0] if case["phi"][j] else 0.0)
    absent = {tuple(p) for p in case.get("U_zero", [])}
    U = [[0.0] * N for _ in range(N)]
    for (i, j), nm in n_U.items():
        if (i, j) not in absent:
            U[i][j] = U[j][i] = B.real(nm, nonzero=True)
    return om, de, ph, U


def _spec(B, case):
    """-> (PolySpec, dense H with a symbol for EVERY parameter, the literal zeros of the case)"""
    N = case["N"]
    PS = PolySpec(B)
    n_om, n_de, n_ph, n_U = _names(N)
    om = [PS.real(n) for n in n_om]
    de = [PS.real(n) for n in n_de]
    cs = [PS.angle(n) for n in n_ph]
    U = [[0] * N for _ in range(N)]
    for (i, j), nm in n_U.items():
        U[i][j] = U[j][i] = PS.real(nm)
    zero = {}
    for j in case.get("omega_zero", []):
        zero[n_om[j]] = 0
    for j in case.get("delta_zero", []):
        zero[n_de[j]] = 0
    for j in range(N):
        if not case["phi"][j]:
            zero[f"cos({n_ph[j]})"] = 1
            zero[f"sin({n_ph[j]})"] = 0
    for p in case.get("U_zero", []):
        zero[n_U[tuple(p)]] = 0
    return PS, dense_rydberg(PS, N, om, de, cs, U), zero


def _dH(B, case, name):
    """dense dH/d<name> in the element type of the run (polynomials under the shim, numbers natively)"""
    PS, Hd, zero = _spec(B, case)
    return PS.lower(PS.subs(PS.diff(Hd, name), zero))


def _batch(B, nb, dim, name="v"):
    return [[B.cplx(f"{name}{b}_{k}") for k in range(dim)] for b in range(nb)]


def _apply(B, D, V):
    """rows of V are vectors: -> rows D v"""
    Vm = mat(B, V)
    out = zeros(B, *Vm.shape)
    for b in range(Vm.shape[0]):
        out[b] = D.dot(Vm[b])
    return out


def _nonvacuous(B, D):
    """1 when the specification operator has a non-zero entry (kept as a compared entry so that a case whose
    expected result is legitimately the zero vector -- Omega_k literally 0 -- is still not vacuous)"""
    return mat(B, [1 if any(not B.is_zero(x) for x in D.flat) else 0])


# ------------------------------------------------------------------------------------------
# the four operators on their own
# ------------------------------------------------------------------------------------------
def _operator_case(B, case, build, wrt):
    N = case["N"]
    om, de, ph, U = _drive(B, case)
    V = _batch(B, case["batch"], 2 ** N)
    pd = case.get("param_dtype", "float64")
    t_om, t_ph = B.tensor(om, pd), B.tensor(ph, pd)
    t_V = B.tensor(V, "complex128")
    with B.under_test():
        import emu_sv.time_evolution as te
        op = build(te, t_om, t_ph, t_V.device)
        out = op @ t_V
        out2 = op @ t_V                       # a second application must not depend on the first
    D = _dH(B, case, wrt)
    want = _apply(B, D, V)
    checks = [(f"{type(op).__name__} @ V", B.arr(out), want),
              (f"{type(op).__name__} @ V (second application)", B.arr(out2), want),
              ("V not modified", B.arr(t_V), mat(B, V))]
    if not case.get("expect_zero"):
        checks.append(("specification operator is not identically zero (vacuity guard)", _nonvacuous(B, D), mat(B, [1])))
    return checks


def dh_omega(B, case):
    k, N = case["k"], case["N"]
    return _operator_case(B, case, lambda te, om, ph, dev: te.DHDOmegaSparse(k, dev, N, ph[k]), f"om{k}")


def dh_phi(B, case):
    k, N = case["k"], case["N"]
    return _operator_case(B, case, lambda te, om, ph, dev: te.DHDPhiSparse(k, dev, N, om[k], ph[k]), f"phi{k}")


def dh_delta(B, case):
    k, N = case["k"], case["N"]
    return _operator_case(B, case, lambda te, om, ph, dev: te.DHDDeltaSparse(k, N), f"de{k}")


def dh_u(B, case):
    i, j, N = case["i"], case["j"], case["N"]
    return _operator_case(B, case, lambda te, om, ph, dev: te.DHDUSparse(i, j, N), f"U{i}_{j}")


# ------------------------------------------------------------------------------------------
# how backward combines them (everything but the Krylov routine and autograd)
# ------------------------------------------------------------------------------------------
def _re(B, x):
    return B.P(x).real() if B.mode == "sym" else complex(x).real


def backward(B, case):
    N = case["N"]
    dim = 2 ** N
    ms, mg = case["krylov"]
    needs = case["needs"]                          # gradients requested for (omegas, deltas, phis, interaction)
    om, de, ph, U = _drive(B, case)
    dts = B.real("dt")
    Vs = _batch(B, ms, dim, "Vs")
    Vg = _batch(B, mg, dim, "Vg")
    dS = [[B.cplx(f"dS{b}_{a}") for a in range(mg)] for b in range(ms)]
    state = [B.cplx(f"psi{k}") for k in range(dim)]
    gout = [B.cplx(f"g{k}") for k in range(dim)]
    probe = [B.cplx(f"x{k}") for k in range(dim)]
    pd = case.get("param_dtype", "float64")
    t_om, t_de, t_ph = B.tensor(om, pd), B.tensor(de, pd), B.tensor(ph, pd)
    t_U = B.tensor(U, "float64")
    t_state, t_gout, t_probe = (B.tensor(v, "complex128") for v in (state, gout, probe))
    t_Vs, t_Vg = B.tensor(Vs, "complex128"), B.tensor(Vg, "complex128")
    t_dS = B.tensor(dS, "complex128")
    seen = {}

    def krylov_stub(op, a, b, tolerance):
        """stands for double_krylov: ARBITRARY Krylov bases and coupling matrix (lists of vectors, matrix, list)"""
        seen["args"] = (a is t_state, b is t_gout, tolerance == 0.5)
        seen["op"] = op(t_probe)
        return [t_Vs[r] for r in range(ms)], t_dS, [t_Vg[r] for r in range(mg)]

    ctx = SimpleNamespace(saved_tensors=(t_om, t_de, t_ph, t_U, t_state), dt=dts, tolerance=0.5,
                          needs_input_grad=(False, needs[0], needs[1], needs[2], needs[3], False, False, False))
    with B.under_test():
        import emu_sv.time_evolution as te
        orig = te.double_krylov
        te.double_krylov = krylov_stub
        try:
            res = te.EvolveStateVector.backward(ctx, t_gout, None)
        finally:
            te.double_krylov = orig
    # ---- specification: g_p = Re Tr( -i dt dH/dp  Vs^T dS conj(Vg) )   (docstring of backward)
    Vsm, Vgm, dSm = mat(B, Vs), mat(B, Vg), mat(B, dS)
    E = dSm.T.dot(Vsm)                               # e_l[a, x] = sum_b dS[b, a] Vs[b, x]
    VgC = zeros(B, mg, dim)
    for idx in np.ndindex(Vgm.shape):
        VgC[idx] = B.conj(Vgm[idx])

    def grad(name):
        D = _dH(B, case, name)
        tot = 0
        for a in range(mg):
            tot = tot + VgC[a].dot(D.dot(E[a]))
        return _re(B, (-1 * B.I) * dts * tot)

    checks = []
    shape_ok = len(res) == 8 and all(res[q] is None for q in (0, 5, 6, 7))
    checks.append(("backward returns 8 slots; dt, state, tolerance, lindblads slots are None",
                   mat(B, [int(shape_ok)]), mat(B, [1])))
    names = [("omegas", [f"om{k}" for k in range(N)]), ("deltas", [f"de{k}" for k in range(N)]),
             ("phis", [f"phi{k}" for k in range(N)])]
    for q, (label, syms) in enumerate(names):
        g = res[1 + q]
        if not needs[q]:
            checks.append((f"grad_{label} is None when not requested", mat(B, [int(g is None)]), mat(B, [1])))
            continue
        checks.append((f"grad_{label}", B.arr(g), mat(B, [grad(s) for s in syms])))
    g = res[4]
    if not needs[3]:
        checks.append(("grad_interaction is None when not requested", mat(B, [int(g is None)]), mat(B, [1])))
    else:
        want = zeros(B, N, N)
        for i in range(N):
            for j in range(i + 1, N):
                want[i, j] = grad(f"U{i}_{j}")      # the Hamiltonian reads the upper triangle only
        checks.append(("grad_interaction (upper triangle; zero elsewhere)", B.arr(g), want))
    if any(needs):
        PS, Hd, zero = _spec(B, case)
        H = PS.lower(PS.subs(Hd, zero))
        checks.append(("operator handed to double_krylov is -i dt H", B.arr(seen["op"]),
                       (-1 * B.I) * dts * H.dot(mat(B, probe))))
        checks.append(("double_krylov receives (state, grad_state_out, tolerance)",
                       mat(B, [int(all(seen["args"]))]), mat(B, [1])))
    checks.append(("saved tensors not modified", np.concatenate([B.arr(t_om), B.arr(t_de), B.arr(t_ph)]),
                   mat(B, list(om) + list(de) + list(ph))))
    return checks


# ------------------------------------------------------------------------------------------
# cross-check of the specification itself (no code under test)
# ------------------------------------------------------------------------------------------
def spec(B, case):
    N = case["N"]
    _drive(B, case)                                   # registers the symbols of the run (numeric assignment natively)
    PS, Hd, zero = _spec(B, case)
    n_om, n_de, n_ph, n_U = _names(N)
    half = PS.poly.const(1) / 2
    checks = []
    for k in range(N):
        c, s = PS.angle(n_ph[k])
        om = PS.real(n_om[k])
        lit = {"om": embed(PS, {k: half * (c * sigma_x(PS) + s * sigma_y(PS))}, N),
               "de": embed(PS, {k: -1 * number_op(PS)}, N),
               "phi": embed(PS, {k: (half * om) * ((-1 * s) * sigma_x(PS) + c * sigma_y(PS))}, N)}
        for key, nm in (("om", n_om[k]), ("de", n_de[k]), ("phi", n_ph[k])):
            checks.append((f"d denseH / d {nm} == docstring operator",
                           PS.lower(PS.subs(PS.diff(Hd, nm), zero)), PS.lower(PS.subs(lit[key], zero))))
    for (i, j), nm in n_U.items():
        checks.append((f"d denseH / d {nm} == n_i n_j",
                       PS.lower(PS.subs(PS.diff(Hd, nm), zero)),
                       PS.lower(embed(PS, {i: number_op(PS), j: number_op(PS)}, N))))
    return checks


KINDS = {"dh_omega": dh_omega, "dh_delta": dh_delta, "dh_phi": dh_phi, "dh_u": dh_u, "backward": backward,
         "spec": spec}
CLASS_OF = {"dh_omega": "DHDOmegaSparse", "dh_delta": "DHDDeltaSparse", "dh_phi": "DHDPhiSparse",
            "dh_u": "DHDUSparse", "backward": "EvolveStateVector.backward", "spec": "specification"}
CLAUSE_OF = {"dh_omega": "equals-d-denseH-domega", "dh_delta": "equals-d-denseH-ddelta",
             "dh_phi": "equals-d-denseH-dphi", "dh_u": "equals-d-denseH-dU",
             "backward": "gradient-formula-uses-d-denseH", "spec": "d-denseH-equals-docstring-operators"}
PACKAGES = ["emu_base", "emu_sv", "emu_sv.time_evolution", "emu_sv.hamiltonian"]


def obligation_name(case, prop="C30"):
    """stable, readable obligation name of a case (the lock file stores these)"""
    kind = case["kind"]
    parts = [f"N={case['N']}"]
    if "k" in case:
        parts.append(f"k={case['k']}")
    if "i" in case:
        parts.append(f"pair=({case['i']},{case['j']})")
    parts.append("phases=(" + ",".join(str(int(bool(x))) for x in case["phi"]) + ")")
    if case.get("omega_zero"):
        parts.append("omega0=" + "".join(str(j) for j in case["omega_zero"]))
    if case.get("U_zero"):
        parts.append("U0=" + "".join(f"{i}{j}" for i, j in case["U_zero"]))
    if "batch" in case:
        parts.append(f"batch={case['batch']}")
    if "krylov" in case:
        parts.append(f"krylov=({case['krylov'][0]},{case['krylov'][1]})")
        parts.append("needs=" + "".join(str(int(x)) for x in case["needs"]))
    if case.get("param_dtype", "float64") != "float64":
        parts.append(case["param_dtype"])
    return f"{prop}/{CLASS_OF[kind]}[{','.join(parts)}]/{CLAUSE_OF[kind]}"


# ------------------------------------------------------------------------------------------
# case enumeration
# ------------------------------------------------------------------------------------------
def _patterns(N, full):
    """phase zero patterns (1 = a non-zero phase symbol, 0 = the literal 0.0)"""
    if full:
        return [list(p) for p in itertools.product([0, 1], repeat=N)]
    pats = [[0] * N, [1] * N, [k % 2 for k in range(N)], [(k + 1) % 2 for k in range(N)]]
    for k in range(N):
        pats.append([int(j == k) for j in range(N)])
        pats.append([int(j != k) for j in range(N)])
    out = []
    for p in pats:
        if p not in out:
            out.append(p)
    return out


def cases(tier, control=False):
    """quick: N = 1..4, every site / pair, every phase zero pattern.  thorough: N = 5 in addition with every
    pattern, N = 6 with 14 patterns (all-zero, all-non-zero, alternating, one-hot, one-cold).
    `tier` of a case says in which tier it first appears (thorough-only names are not written to the lock)."""
    out = []
    thorough = tier == "thorough"
    nmax = 6 if thorough else 4

    def add(_thorough=False, **c):
        c["tier"] = "thorough" if (_thorough or c["N"] > 4) else "quick"
        out.append(c)

    for N in range(1, nmax + 1):
        pats = _patterns(N, full=N <= 5)
        for phi in pats:
            for k in range(N):
                batches = [1, 2] if N <= 4 else [1]
                for nb in batches:
                    add(kind="dh_omega", N=N, k=k, phi=phi, batch=nb)
                    add(kind="dh_phi", N=N, k=k, phi=phi, batch=nb)
                if N <= 3:
                    add(kind="dh_omega", N=N, k=k, phi=phi, batch=3, param_dtype="complex128")
                    add(kind="dh_phi", N=N, k=k, phi=phi, batch=3, param_dtype="complex128")
                if N <= 3 or thorough:
                    # Omega_k literally 0: the phase derivative is the zero operator
                    add(kind="dh_phi", N=N, k=k, phi=phi, batch=1, omega_zero=[k], expect_zero=True,
                        _thorough=N > 3)
        # the detuning / interaction derivatives do not take the phases; two patterns keep the specification honest
        for phi in ([0] * N, [1] * N):
            for k in range(N):
                for nb in ([1, 2] if N <= 4 else [1]):
                    add(kind="dh_delta", N=N, k=k, phi=phi, batch=nb)
            for i in range(N):
                for j in range(i + 1, N):
                    for nb in ([1, 2] if N <= 4 else [1]):
                        add(kind="dh_u", N=N, i=i, j=j, phi=phi, batch=nb)
        add(kind="spec", N=N, phi=[1] * N)
        add(kind="spec", N=N, phi=[0] * N)
        add(kind="spec", N=N, phi=[k % 2 for k in range(N)])
    # ---- backward: every phase pattern; all gradients requested, each alone, none
    bmax = 4 if thorough else 3
    for N in range(1, bmax + 1):
        for phi in _patterns(N, full=True):
            shapes = [(1, 1), (2, 2), (2, 3)] if N <= 2 else ([(2, 2)] if N == 3 else [(1, 2)])
            for kr in shapes:
                add(kind="backward", N=N, phi=phi, krylov=list(kr), needs=[1, 1, 1, 1], _thorough=N > 3)
            if N <= 2:
                for q in range(4):
                    add(kind="backward", N=N, phi=phi, krylov=[2, 1], needs=[int(q == r) for r in range(4)])
                add(kind="backward", N=N, phi=phi, krylov=[1, 1], needs=[0, 0, 0, 0])
                add(kind="backward", N=N, phi=phi, krylov=[2, 2], needs=[1, 1, 1, 1], param_dtype="complex128")
        if N >= 2:
            add(kind="backward", N=N, phi=[1] * N, krylov=[2, 2], needs=[1, 1, 1, 1], U_zero=[[0, 1]], omega_zero=[0],
                _thorough=N > 3)
    seen, uniq = set(), []
    for c in out:                                     # small N: several pattern generators coincide
        n = obligation_name(c)
        if n not in seen:
            seen.add(n)
            uniq.append(c)
    out = uniq
    if not thorough:
        out = [c for c in out if c["tier"] == "quick"]
    if control:
        out = [c for c in out if c["N"] <= 3 and c.get("batch", 1) <= 2 and c.get("param_dtype", "float64") == "float64"
               and (c["kind"] != "backward" or (c["N"] <= 2 and c["needs"] == [1, 1, 1, 1]))]
    return out
