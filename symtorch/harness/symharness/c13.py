"""C13 -- emu-sv observable kernels equal their definitions (state-vector and density-matrix).

Case kinds
  sv_obs   qubit_occupation_sv_impl, correlation_matrix_sv_impl, RydbergHamiltonian.expect,
           energy_variance_sv_impl, energy_second_moment_sv_impl on a symbolic (unnormalised) psi
  dm_obs   the *_den_mat_impl kernels and RydbergLindbladian.expect on a symbolic Hermitian rho
Definitions (dense): <n_i> = <psi|n_i|psi> / Tr(rho n_i), <n_i n_j>, E = <psi|H|psi> / Tr(H rho),
<H^2>, Var = <H^2> - E^2, with H the dense Rydberg Hamiltonian (Kronecker products).
Range lemma checked syntactically: every occupation / correlation entry is a sub-sum of the terms
of <psi|psi> (resp. of Tr rho's diagonal symbols) with coefficient 1, hence in [0, <psi|psi>].
NOT covered here: MPS observables (QR based), entanglement entropy, fidelity, variance >= 0,
the normalisation done by fill_results before the callbacks (Engine A).
"""
from __future__ import annotations

import itertools

from .core import dagger, dense_rydberg, embed, mat, number_op, zeros
from .c06 import _all_pairs, _drive, _drive_tensors, _hermitian

PACKAGES = ["emu_base", "emu_sv", "emu_sv.custom_callback_implementations", "emu_sv.hamiltonian",
            "emu_sv.lindblad_operator"]


def _subsum(B, small, big):
    """1 iff every term of `small` is a term of `big` with the same coefficient 1 (=> 0 <= small <= big
    whenever all terms are squares); numeric mode: plain 0 <= small <= big"""
    if B.mode == "num":
        s, b = complex(small).real, complex(big).real
        return int(-1e-12 <= s <= b + 1e-12)
    ps, pb = B.P(small), B.P(big)
    for m, c in ps.t.items():
        if c != 1 or pb.t.get(m) != 1:
            return 0
        if not (len(m) == 1 and m[0][1] == 2):          # a single square x^2
            return 0
    return 1


def sv_obs(B, case):
    N = case["N"]
    n = 2 ** N
    om, de, ph, cs, U = _drive(B, case)
    psi = [B.cplx(f"psi{k}") for k in range(n)]
    t_om, t_de, t_ph, t_U = _drive_tensors(B, case, om, de, ph, U)
    t_psi = B.tensor(psi, "complex128")
    with B.under_test():
        from emu_sv.state_vector import StateVector
        from emu_sv.hamiltonian import RydbergHamiltonian
        from emu_sv import custom_callback_implementations as cb
        st = StateVector(t_psi, gpu=False)
        H = RydbergHamiltonian(omegas=t_om, deltas=t_de, phis=t_ph, interaction_matrix=t_U, device="cpu")
        occ = cb.qubit_occupation_sv_impl(None, config=None, state=st, hamiltonian=None)
        cor = cb.correlation_matrix_sv_impl(None, config=None, state=st, hamiltonian=None)
        en = H.expect(st)
        var = cb.energy_variance_sv_impl(None, config=None, state=st, hamiltonian=H)
        m2 = cb.energy_second_moment_sv_impl(None, config=None, state=st, hamiltonian=H)
    p = mat(B, psi)
    pc = mat(B, [B.conj(x) for x in psi])
    Hd = dense_rydberg(B, N, om, de, cs, U)
    Hp = Hd.dot(p)
    nn = number_op(B)
    want_occ = mat(B, [pc.dot(embed(B, {i: nn}, N).dot(p)) for i in range(N)])
    want_cor = zeros(B, N, N)
    for i in range(N):
        for j in range(N):
            want_cor[i, j] = pc.dot(embed(B, {i: nn, j: nn}, N).dot(p))
    E = pc.dot(Hp)
    H2 = sum(B.conj(x) * x for x in Hp)
    norm2 = sum(B.conj(x) * x for x in psi)
    lemma = [_subsum(B, x, norm2) for x in list(want_occ) + list(want_cor.reshape(-1))]
    return [("occupation", B.arr(occ), want_occ), ("correlation matrix", B.arr(cor), want_cor),
            ("energy", B.arr(en), mat(B, E)), ("energy variance", B.arr(var), mat(B, H2 - E * E)),
            ("energy second moment", B.arr(m2), mat(B, H2)),
            ("range lemma: entries are sub-sums of <psi|psi>", mat(B, lemma), mat(B, [1] * len(lemma))),
            ("state not modified", B.arr(t_psi), p)]


def dm_obs(B, case):
    N = case["N"]
    n = 2 ** N
    om, de, ph, cs, U = _drive(B, case)
    rho = _hermitian(B, n)
    t_om, t_de, t_ph, t_U = _drive_tensors(B, case, om, de, ph, U)
    t_rho = B.tensor(rho, "complex128")
    Ls = [[[B.cplx(f"L{k}_{a}{b}") for b in range(2)] for a in range(2)] for k in range(case.get("jumps", 0))]
    with B.under_test():
        from emu_sv.density_matrix_state import DensityMatrix
        from emu_sv.lindblad_operator import RydbergLindbladian
        from emu_sv import custom_callback_implementations as cb
        st = DensityMatrix(t_rho, gpu=False)
        op = RydbergLindbladian(omegas=t_om, deltas=t_de, phis=t_ph,
                                pulser_lindblads=[B.tensor(L, "complex128") for L in Ls],
                                interaction_matrix=t_U, device="cpu")
        occ = cb.qubit_occupation_sv_den_mat_impl(None, config=None, state=st, hamiltonian=None)
        cor = cb.correlation_matrix_sv_den_mat_impl(None, config=None, state=st, hamiltonian=None)
        en = op.expect(st)
        var = cb.energy_variance_sv_den_mat_impl(None, config=None, state=st, hamiltonian=op)
        m2 = cb.energy_second_moment_den_mat_impl(None, config=None, state=st, hamiltonian=op)
    R = mat(B, rho)
    Hd = dense_rydberg(B, N, om, de, cs, U)
    nn = number_op(B)

    def tr(m):
        return sum(m[k, k] for k in range(n))
    want_occ = mat(B, [tr(R.dot(embed(B, {i: nn}, N))) for i in range(N)])
    want_cor = zeros(B, N, N)
    for i in range(N):
        for j in range(N):
            want_cor[i, j] = tr(R.dot(embed(B, {i: nn, j: nn}, N)))
    E = tr(Hd.dot(R))
    H2 = tr(Hd.dot(Hd).dot(R))
    trace = tr(R)
    if B.mode == "sym":
        lemma = [int(all(c == 1 and B.P(trace).t.get(m) == 1 for m, c in B.P(x).t.items()))
                 for x in list(want_occ) + list(want_cor.reshape(-1))]
    else:
        lemma = [1] * (N + N * N)
    return [("occupation", B.arr(occ), want_occ), ("correlation matrix", B.arr(cor), want_cor),
            ("energy", B.arr(en), mat(B, E)), ("energy variance", B.arr(var), mat(B, H2 - E * E)),
            ("energy second moment", B.arr(m2), mat(B, H2)),
            ("range lemma: entries are sub-sums of the diagonal of rho", mat(B, lemma), mat(B, [1] * len(lemma))),
            ("state not modified", B.arr(t_rho), R)]


KINDS = {"sv_obs": sv_obs, "dm_obs": dm_obs}


def cases(tier, control=False, seed=0):
    out = []
    Ns = [1, 2, 3] if tier == "quick" or control else [1, 2, 3, 4]
    for N in Ns:
        phis = list(itertools.product([0, 1], repeat=N))
        if N >= 3 and (tier == "quick" or N == 4):
            phis = [tuple([0] * N), tuple([1] * N), tuple([1] + [0] * (N - 1)), tuple([0] * (N - 1) + [1])]
        for phi in phis:
            Us = [_all_pairs(N)] + ([[]] if N > 1 else []) + ([_all_pairs(N)[::2]] if N > 2 else [])
            for U in Us:
                out.append(dict(kind="sv_obs", N=N, phi=list(phi), U=U, param_dtype="complex128"))
                if N <= (2 if tier == "quick" or control else 3):
                    for jumps in (0, 1):
                        out.append(dict(kind="dm_obs", N=N, phi=list(phi), U=U, jumps=jumps, param_dtype="complex128"))
    return out
