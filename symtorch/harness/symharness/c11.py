"""C11 -- the QR/SVD/eigh-free subset of the emu-mps MPS / MPO operations equals dense linear algebra.

The real emu_mps/algebra.py, emu_mps/mps.py, emu_mps/mpo.py (and emu_mps/utils.py:new_left_bath,
assign_devices) run on matrix-product factors whose entries are complex symbols (re + i im);
the result factors are contracted to a dense vector / matrix by the checker (explicit index
loops below -- not the shim's tensordot) and compared entry by entry, as exact polynomial
identities, with the same operation done on the dense vectors / matrices of the operands.

Case kinds
  add      algebra.add_factors on rank-3 (MPS) and rank-4 (MPO) trains, MPO.__add__
  mps      MPS.inner / mps.inner / MPS.overlap / scale_factors / MPS.__rmul__ / MPS.__imul__ /
           MPS.apply at the orthogonality centre / get_max_bond_dim / n_qudits
  mpo      MPO.__add__ / MPO.__rmul__ / MPO.expect
  oprepr   MPO._from_operator_repr with symbolic coefficients, the three eigenstate bases
  make     MPS.make
  norm     MPS.norm on an MPS that IS canonical: exact Gaussian-rational isometries around a
           symbolic centre factor (the only configuration in which `norm` has a dense counterpart
           without a QR sweep)
Every kind also checks that the operands' factors are entry-wise unchanged after the operation,
and after an in-place write into the result where the code documents a fresh tensor.

NOT covered (torch.linalg.qr / eigh / svdvals / multinomial / special.entr are outside the
polynomial shim; such cases are not generated): MPS.orthogonalize, MPS.truncate, MPS.__add__ after
add_factors, MPS._from_state_amplitudes (its first `+=` truncates), MPS.norm / expect_batch /
get_correlation_matrix / apply when they have to move the orthogonality centre, expect_batch and
get_correlation_matrix in every configuration (they call QR / orthogonalize for num_sites >= 2),
entanglement_entropy, sample, MPO.apply_to, MPO.__matmul__, algebra.zip_right(_step), truncate_impl.

Convention of the dense side: site 0 is the most significant digit; level index g = 0 = '0',
r = 1 = '1', x = 2 (MPS.make / _from_state_amplitudes / sample docstrings); the operator name
'ab' is |a><b| (pulser Operator.from_operator_repr); MPO factor axes (left, out, in, right).
"""
from __future__ import annotations

import itertools
import zlib
from fractions import Fraction

import numpy as np

from .core import embed, zeros

PACKAGES = ["emu_base", "emu_mps", "emu_mps.algebra", "emu_mps.mps", "emu_mps.mpo", "emu_mps.utils"]

BASES = {"rg": ("r", "g"), "gr": ("g", "r"), "01": ("0", "1"), "grx": ("g", "r", "x"), "rgx": ("r", "g", "x")}
LEVEL = {"g": 0, "0": 0, "r": 1, "1": 1, "x": 2}

# concrete Gaussian dyadic rationals for the non-symbolic entries of a partially symbolic factor
CONSTS = [0, 1, -1, 1j, 0.5, -2, 1 + 1j, 0.5 - 1.5j, 2j, -0.5j, 3, 0, -1 + 2j, 0.25]


def _h(*parts):
    return zlib.crc32("|".join(map(str, parts)).encode())


# ------------------------------------------------------------------------------------------
# inputs
# ------------------------------------------------------------------------------------------
def sym_array(B, name, shape, fill, salt=0):
    """ndarray of elements: every entry a complex symbol (fill == "full"), or `fill` seeded positions
    symbolic and the rest concrete Gaussian rationals"""
    a = np.empty(shape, dtype=B.np_dtype)
    idxs = list(np.ndindex(*shape))
    if fill == "full":
        symbolic = set(idxs)
    else:
        symbolic = set(sorted(idxs, key=lambda i: _h(name, i, salt))[: int(fill)])
    for idx in idxs:
        if idx in symbolic:
            a[idx] = B.cplx(f"{name}{list(idx)}".replace(" ", ""))
        else:
            a[idx] = complex(CONSTS[_h("c", name, idx, salt) % len(CONSTS)])
    return a


def to_tensor(B, a):
    return B.tensor(a.tolist(), "complex128")


def train(B, name, bonds, d, rank, fill, salt=0):
    """bonds: the N-1 inner bond dimensions -> (list of element arrays, list of tensors)"""
    full = [1] + list(bonds) + [1]
    arrs = []
    for k in range(len(full) - 1):
        shape = (full[k], d, full[k + 1]) if rank == 3 else (full[k], d, d, full[k + 1])
        arrs.append(sym_array(B, f"{name}{k}", shape, fill, salt))
    return arrs, [to_tensor(B, a) for a in arrs]


def snap(B, tensors):
    return [np.array(B.arr(t)).copy() for t in tensors]


def flat(B, arrs):
    out = []
    for a in arrs:
        out.extend(np.asarray(a).reshape(-1).tolist())
    v = np.empty(len(out), dtype=B.np_dtype)
    for k, x in enumerate(out):
        v[k] = x
    return v


def ints(B, xs):
    v = np.empty(len(xs), dtype=B.np_dtype)
    for k, x in enumerate(xs):
        v[k] = int(x)
    return v


# ------------------------------------------------------------------------------------------
# dense side (explicit index loops; NumPy only as a container)
# ------------------------------------------------------------------------------------------
def _dot(B, row, col):
    acc = 0
    for x, y in zip(row, col):
        if B.is_zero(x) or B.is_zero(y):
            continue
        acc = acc + x * y
    return acc


def dense_mps(B, arrs):
    cur = [[1]]
    for f in arrs:
        Dl, d, Dr = f.shape
        if any(len(r) != Dl for r in cur):
            raise ValueError("bond dimension mismatch")
        cur = [[_dot(B, row, [f[l, s, r] for l in range(Dl)]) for r in range(Dr)] for row in cur for s in range(d)]
    if any(len(r) != 1 for r in cur):
        raise ValueError("the last bond dimension must be 1")
    v = np.empty(len(cur), dtype=B.np_dtype)
    for k, row in enumerate(cur):
        v[k] = row[0]
    return v


def dense_mpo(B, arrs):
    cur = [[[1]]]                                     # cur[row][col][bond]
    for f in arrs:
        Dl, do, di, Dr = f.shape
        if do != di or any(len(b) != Dl for r in cur for b in r):
            raise ValueError("bad MPO factor")
        cur = [[[_dot(B, b, [f[l, a, c, r] for l in range(Dl)]) for r in range(Dr)] for b in row for c in range(di)]
               for row in cur for a in range(do)]
    n = len(cur)
    m = np.empty((n, n), dtype=B.np_dtype)
    for i, row in enumerate(cur):
        for j, b in enumerate(row):
            if len(b) != 1:
                raise ValueError("the last bond dimension must be 1")
            m[i, j] = b[0]
    return m


def vdot(B, x, y):
    """sum_i conj(x_i) y_i"""
    return _dot(B, [B.conj(v) for v in x], list(y))


def matvec(B, m, v):
    out = np.empty(m.shape[0], dtype=B.np_dtype)
    for i in range(m.shape[0]):
        out[i] = _dot(B, list(m[i]), list(v))
    return out


def scalar(B, x):
    v = np.empty(1, dtype=B.np_dtype)
    v[0] = x
    return v


def got_scalar(B, t):
    return np.asarray(B.arr(t)).reshape(1)


# ------------------------------------------------------------------------------------------
# kinds
# ------------------------------------------------------------------------------------------
def add(B, case):
    N, d, rank, fill = case["N"], case["d"], case["rank"], case["fill"]
    ba, bb = case["ba"], case["bb"]
    A, tA = train(B, "a", ba, d, rank, fill)
    Bm, tB = train(B, "b", bb, d, rank, fill)
    if case.get("repeat"):
        # the idiom of _from_state_amplitudes / _from_operator_repr: one tensor object at every site
        A, tA = [A[0]] * N, [tA[0]] * N
    la, lb = list(tA), list(tB)
    with B.under_test():
        from emu_mps.algebra import add_factors
        res = add_factors(la, lb)
        res_arr = snap(B, res)
        shapes = [int(x) for f in res for x in f.shape]
        after = snap(B, la) + snap(B, lb)
        lists_ok = int(len(la) == N and len(lb) == N and all(x is y for x, y in zip(la, tA)) and all(x is y for x, y in zip(lb, tB)))
        if rank == 4:
            from emu_mps.mpo import MPO
            s = MPO(list(tA)) + MPO(list(tB))
            s_arr = snap(B, s.factors)
            s_type = int(type(s) is MPO)
        for f in res:                              # torch.cat returns fresh tensors: writing into the
            f.zero_()                              # result must not reach the operands
        after2 = snap(B, la) + snap(B, lb)
    dense = dense_mps if rank == 3 else dense_mpo
    want = dense(B, A) + dense(B, Bm)
    fa, fb = [1] + list(ba) + [1], [1] + list(bb) + [1]
    if case.get("repeat"):
        fa = [1] * (N + 1)
    want_shapes = []
    for k in range(N):
        l = 1 if k == 0 else fa[k] + fb[k]
        r = 1 if k == N - 1 else fa[k + 1] + fb[k + 1]
        want_shapes += [l] + [d] * (rank - 2) + [r]
    checks = [("add_factors", dense(B, res_arr), want),
              ("add_factors: factor shapes (bond dimensions add)", ints(B, shapes), ints(B, want_shapes)),
              ("add_factors: operands unchanged", flat(B, after), flat(B, A + Bm)),
              ("add_factors: operand lists unchanged", ints(B, [lists_ok]), ints(B, [1])),
              ("add_factors: operands unchanged after zero_() on every result factor", flat(B, after2), flat(B, A + Bm))]
    if rank == 4:
        checks += [("MPO.__add__", dense(B, s_arr), want), ("MPO.__add__ returns an MPO", ints(B, [s_type]), ints(B, [1]))]
    return checks


def _site_op(B, N, d, q, op):
    return embed(B, {q: op}, N, d)


def mps(B, case):
    N, d, fill = case["N"], case["d"], case["fill"]
    basis = BASES[case["basis"]]
    oc = case["oc"]
    A, tA = train(B, "a", case["ba"], d, 3, fill, case.get("salt", 0))
    Bm, tB = train(B, "b", case["bb"], d, 3, case.get("fill_b", fill), case.get("salt", 0))
    z = B.cplx("z")
    w = B.cplx("w")
    op = sym_array(B, "op", (d, d), "full")
    t_op = to_tensor(B, op)
    t_w = B.tensor(w, "complex128")
    got = {}
    with B.under_test():
        from emu_mps.mps import MPS, inner
        from emu_mps.algebra import scale_factors
        la = list(tA)
        a = MPS(la, orthogonality_center=oc, eigenstates=basis, precision=0.125, max_bond_dim=77)
        b = MPS(list(tB), eigenstates=basis)
        got["inner"] = a.inner(b)
        got["inner_fn"] = inner(a, b)
        got["inner_rev"] = b.inner(a)
        if case.get("overlap"):
            got["overlap"] = a.overlap(b)
        got["nq"] = [a.n_qudits, a.get_max_bond_dim(), a.dim]
        which = case.get("which", 0)
        sf = scale_factors(la, z, which=which)
        got["sf"] = snap(B, sf)
        got["sf_new_list"] = int(sf is not la and len(sf) == N and sf[which] is not la[which])
        r = z * a
        got["rmul"] = snap(B, r.factors)
        got["rmul_meta"] = [int(r is not a), int(r.factors is not a.factors), int(r.orthogonality_center == oc),
                            int(r.precision == 0.125), int(r.max_bond_dim == 77), int(tuple(r.eigenstates) == tuple(basis)),
                            int(type(r) is MPS)]
        c = a
        c *= t_w                                    # a 0-d tensor as the scalar (`accum_mps *= 1 / norm`); __imul__ is
        got["imul"] = snap(B, c.factors)            # not documented as in-place: it returns a new MPS
        got["imul_meta"] = [int(c is not a), int(c.orthogonality_center == oc)]
        got["after_alg"] = snap(B, a.factors) + snap(B, b.factors)
        r.factors[oc if oc is not None else 0].zero_()     # `scalar * f` is a fresh tensor
        got["after_zero"] = snap(B, a.factors)
        if oc is not None:
            # orthogonalize(oc) is a no-op when the centre is already at oc: no QR is reached
            c.apply(oc, t_op)
            got["apply"] = snap(B, c.factors)
            got["apply_meta"] = [int(c.orthogonality_center == oc)]
            got["after_apply"] = snap(B, a.factors) + [np.array(B.arr(t_op)).copy()]
    pa, pb = dense_mps(B, A), dense_mps(B, Bm)
    ip = vdot(B, pa, pb)
    zpa, wpa = z * pa, w * pa
    checks = [("MPS.inner", got_scalar(B, got["inner"]), scalar(B, ip)),
              ("mps.inner()", got_scalar(B, got["inner_fn"]), scalar(B, ip)),
              ("MPS.inner (arguments swapped)", got_scalar(B, got["inner_rev"]), scalar(B, B.conj(ip))),
              ("n_qudits, get_max_bond_dim, dim", ints(B, got["nq"]), ints(B, [N, max(list(case["ba"]) + [1]), d])),
              ("scale_factors", dense_mps(B, got["sf"]), zpa),
              ("scale_factors: new list, one new tensor", ints(B, [got["sf_new_list"]]), ints(B, [1])),
              ("MPS.__rmul__", dense_mps(B, got["rmul"]), zpa),
              ("MPS.__rmul__: new object, new list, centre / precision / max_bond_dim / eigenstates kept",
               ints(B, got["rmul_meta"]), ints(B, [1] * 7)),
              ("MPS.__imul__ (0-d tensor scalar)", dense_mps(B, got["imul"]), wpa),
              ("MPS.__imul__: new object, centre kept", ints(B, got["imul_meta"]), ints(B, [1, 1])),
              ("operands unchanged after inner / overlap / scaling", flat(B, got["after_alg"]), flat(B, A + Bm)),
              ("operand unchanged after zero_() on the scaled factor of the result", flat(B, got["after_zero"]), flat(B, A))]
    if case.get("overlap"):
        checks.append(("MPS.overlap", got_scalar(B, got["overlap"]), scalar(B, ip * B.conj(ip))))
    if oc is not None:
        checks += [("MPS.apply at the orthogonality centre", dense_mps(B, got["apply"]), matvec(B, _site_op(B, N, d, oc, op), wpa)),
                   ("MPS.apply: centre", ints(B, got["apply_meta"]), ints(B, [1])),
                   ("operand and operator unchanged after apply on the scaled copy", flat(B, got["after_apply"]), flat(B, A + [op]))]
    return checks


def mpo(B, case):
    N, d, fill = case["N"], case["d"], case["fill"]
    basis = BASES[case["basis"]]
    A, tA = train(B, "a", case["ba"], d, 4, fill, case.get("salt", 0))
    P, tP = train(B, "p", case["bp"], d, 3, case.get("fill_p", fill), case.get("salt", 0))
    z = B.cplx("z")
    got = {}
    with B.under_test():
        from emu_mps.mps import MPS
        from emu_mps.mpo import MPO
        oa = MPO(list(tA))
        psi = MPS(list(tP), eigenstates=basis)
        got["expect"] = oa.expect(psi)
        r = z * oa
        got["rmul"] = snap(B, r.factors)
        got["meta"] = [int(type(r) is MPO), int(r is not oa), int(r.factors is not oa.factors), int(r.factors[0] is not oa.factors[0])]
        got["after"] = snap(B, oa.factors) + snap(B, psi.factors)
        r.factors[0].zero_()                       # `scalar * f` is a fresh tensor
        got["after2"] = snap(B, oa.factors)
    dA, p = dense_mpo(B, A), dense_mps(B, P)
    ex = vdot(B, p, matvec(B, dA, p))
    return [("MPO.expect", got_scalar(B, got["expect"]), scalar(B, ex)),
            ("MPO.__rmul__", dense_mpo(B, got["rmul"]), z * dA),
            ("MPO.__rmul__: MPO, new object, new list, new first factor", ints(B, got["meta"]), ints(B, [1] * 4)),
            ("operands unchanged after expect / scalar *", flat(B, got["after"]), flat(B, A + P)),
            ("operand unchanged after zero_() on the scaled factor of the result", flat(B, got["after2"]), flat(B, A))]


def op_names(basis):
    return [a + b for a in basis for b in basis]


def oprepr(B, case):
    N = case["N"]
    basis = BASES[case["basis"]]
    d = len(basis)
    terms = []
    spec = zeros(B, d ** N, d ** N)
    record = []
    for ti, term in enumerate(case["terms"]):
        coeff = B.cplx(f"c{ti}")
        tensorop = []
        local = {}
        for oi, (names, targets) in enumerate(term):
            qop = {nm: B.cplx(f"o{ti}_{oi}_{nm}") for nm in names}
            record.append((qop, dict(qop)))
            tensorop.append((qop, set(targets)) if case.get("target_sets") else (qop, list(targets)))
            m = zeros(B, d, d)
            for nm, v in qop.items():
                m[LEVEL[nm[0]], LEVEL[nm[1]]] = m[LEVEL[nm[0]], LEVEL[nm[1]]] + v
            for t in targets:
                local[t] = m
        terms.append((coeff, tensorop))
        spec = spec + coeff * embed(B, local, N, d)
    with B.under_test():
        from emu_mps.mpo import MPO
        op, back = MPO._from_operator_repr(eigenstates=basis, n_qudits=N, operations=terms)
        fs = snap(B, op.factors)
        meta = [int(type(op) is MPO), int(back is terms), int(len(op.factors) == N)]
    untouched = int(all(q.keys() == c.keys() and all(q[k] is c[k] for k in q) for q, c in record))
    return [("MPO._from_operator_repr", dense_mpo(B, fs), spec),
            ("_from_operator_repr: MPO returned with the same operations object", ints(B, meta), ints(B, [1] * 3)),
            ("_from_operator_repr: the operator dictionaries are not modified", ints(B, [untouched]), ints(B, [1]))]


def make(B, case):
    N = case["N"]
    basis = BASES[case["basis"]]
    d = len(basis)
    with B.under_test():
        from emu_mps.mps import MPS
        m = MPS.make(N, eigenstates=list(basis), num_gpus_to_use=0)
        fs = snap(B, m.factors)
        n2 = m.norm() ** 2
        ip = m.inner(m)
        meta = [m.n_qudits, m.dim, m.get_max_bond_dim(), int(m.orthogonality_center == 0), int(tuple(m.eigenstates) == tuple(basis))]
    e0 = zeros(B, d ** N)
    e0[0] = 1
    return [("MPS.make", dense_mps(B, fs), e0), ("MPS.make: norm()**2", got_scalar(B, n2), scalar(B, 1)),
            ("MPS.make: inner with itself", got_scalar(B, ip), scalar(B, 1)),
            ("MPS.make: n_qudits, dim, bond dimension, centre, eigenstates", ints(B, meta), ints(B, [N, d, 1, 1, 1]))]


# ---- exact isometries: Householder reflections of Gaussian-integer vectors ---------------------
GAUSS = [(1, 0), (0, 1), (1, 1), (-1, 0), (1, -1), (0, -1), (2, 1), (-1, 2)]


def _householder(n, tag):
    """n x n unitary I - 2 v v^dagger / (v^dagger v) as pairs of Fractions (re, im)"""
    v = [GAUSS[_h("v", tag, k) % len(GAUSS)] for k in range(n)]
    nv = sum(a * a + b * b for a, b in v)
    U = [[None] * n for _ in range(n)]
    for j in range(n):
        for k in range(n):
            (a, b), (c, e) = v[j], v[k]
            re, im = a * c + b * e, b * c - a * e          # v_j conj(v_k)
            U[j][k] = (Fraction(int(j == k)) - Fraction(2 * re, nv), -Fraction(2 * im, nv))
    return U


def _elem(B, q):
    re, im = q
    if B.mode == "sym":
        return B.P(re) + B.I * B.P(im)
    return complex(float(re), float(im))


def isometry(B, shape, side, tag):
    """left: sum_{l,s} conj(A[l,s,r]) A[l,s,r'] = delta;  right: sum_{s,r} A[l,s,r] conj(A[l',s,r]) = delta"""
    Dl, d, Dr = shape
    a = np.empty(shape, dtype=B.np_dtype)
    if side == "left":
        U = _householder(Dl * d, tag)
        for l in range(Dl):
            for s in range(d):
                for r in range(Dr):
                    a[l, s, r] = _elem(B, U[l * d + s][r])
    else:
        U = _householder(d * Dr, tag)
        for l in range(Dl):
            for s in range(d):
                for r in range(Dr):
                    a[l, s, r] = _elem(B, U[l][s * Dr + r])
    return a


def canonical_ok(bonds, d, oc):
    full = [1] + list(bonds) + [1]
    N = len(full) - 1
    return (all(full[k + 1] <= full[k] * d for k in range(oc)) and
            all(full[k] <= d * full[k + 1] for k in range(oc + 1, N)))


def norm(B, case):
    N, d, oc = case["N"], case["d"], case["oc"]
    basis = BASES[case["basis"]]
    full = [1] + list(case["ba"]) + [1]
    A = []
    for k in range(N):
        shape = (full[k], d, full[k + 1])
        if k == oc:
            A.append(sym_array(B, f"a{k}", shape, case["fill"]))
        else:
            A.append(isometry(B, shape, "left" if k < oc else "right", f"{case['ba']}{k}"))
    tA = [to_tensor(B, a) for a in A]
    with B.under_test():
        from emu_mps.mps import MPS
        a = MPS(list(tA), orthogonality_center=oc, eigenstates=basis)
        n2 = a.norm() ** 2
        ip = a.inner(a)
        after = snap(B, a.factors)
    pa = dense_mps(B, A)
    want = vdot(B, pa, pa)
    return [("MPS.norm()**2 (canonical MPS, symbolic centre)", got_scalar(B, n2), scalar(B, want)),
            ("MPS.inner(self) (canonical MPS)", got_scalar(B, ip), scalar(B, want)),
            ("checker self-check: ||psi||^2 equals the squared norm of the centre factor", scalar(B, want),
             scalar(B, vdot(B, A[oc].reshape(-1), A[oc].reshape(-1)))),
            ("operand unchanged after norm / inner", flat(B, after), flat(B, A))]


KINDS = {"add": add, "mps": mps, "mpo": mpo, "oprepr": oprepr, "make": make, "norm": norm}


# ------------------------------------------------------------------------------------------
# case plan
# ------------------------------------------------------------------------------------------
DIM_BASES = {2: ["rg", "01", "gr"], 3: ["grx", "rgx"]}


def profiles(N, maxb):
    return [list(p) for p in itertools.product(range(1, maxb + 1), repeat=N - 1)]


def _prod(xs):
    r = 1
    for x in xs:
        r *= x
    return r


def _basis(d, k):
    return DIM_BASES[d][k % len(DIM_BASES[d])]


def _add_cases(tier, control):
    out = []

    def one(N, d, rank, ba, bb, **kw):
        out.append(dict(kind="add", N=N, d=d, rank=rank, fill="full", ba=list(ba), bb=list(bb),
                        _w=(_prod(ba) + _prod(bb)) * (d ** (N * (rank - 2))) * 2 ** N, **kw))
    if control:
        for rank in (3, 4):
            one(2, 2, rank, [2], [1])
            one(3, 2, rank, [2, 2], [1, 3])
            one(3, 2, rank, [1, 2], [2, 1])
        one(3, 2, 3, [1, 1], [2, 1], repeat=True)
        return out
    thorough = tier == "thorough"
    for d in (2, 3):
        for rank in (3, 4):
            for N in (2, 3):
                ps = profiles(N, 3)
                for i, ba in enumerate(ps):
                    for j, bb in enumerate(ps):
                        if rank == 4 and d == 3 and N == 3 and not thorough and (i + j) % 9:
                            continue
                        one(N, d, rank, ba, bb)
            ps = profiles(4, 3)
            for i, ba in enumerate(ps):
                for j, bb in enumerate(ps):
                    if rank == 4 and d == 3:
                        # 81 x 81 matrices of degree-4 polynomials: two small profiles only (thorough)
                        if not (thorough and max(ba) <= 2 and max(bb) <= 2 and (i + j) % 13 == 0):
                            continue
                    elif rank == 4:
                        if (i - j) % 27 not in ((0, 5, 11) if thorough else (5,)):
                            continue
                    elif not thorough and (i - j) % 27 not in (0, 7):
                        continue
                    one(4, d, rank, ba, bb)
            if rank == 3:
                ps = profiles(5, 3)
                for i, ba in enumerate(ps):
                    if thorough or i % (6 if d == 2 else 20) == 0:
                        one(5, d, 3, ba, ps[(7 * i + 3) % len(ps)])
        for N in (2, 3, 4):
            for rank in (3, 4):
                if rank == 4 and d == 3 and N == 4:
                    continue
                for bb in profiles(N, 2):
                    one(N, d, rank, [1] * (N - 1), bb, repeat=True)
    return out


def _mps_cases(tier, control, seed):
    out = []
    OC = [None, 0, 1, 2, 3, 4]

    def one(N, d, ba, bb, oc, k, fill="full", fill_b=None, **kw):
        c = dict(kind="mps", N=N, d=d, basis=_basis(d, k), fill=fill, ba=list(ba), bb=list(bb), oc=oc, which=k % N, **kw)
        if fill_b is not None:
            c["fill_b"] = fill_b
        full_a, full_b = fill == "full", (fill if fill_b is None else fill_b) == "full"
        ip_terms = ((_prod(ba) * 2 ** N) if full_a else 3 ** N) * ((_prod(bb) * 2 ** N) if full_b else 3 ** N) * \
            (d ** N if (full_a and full_b) else 1)
        if full_a and full_b and ip_terms <= 600:
            c["overlap"] = True
        if fill != "full" or fill_b not in (None, "full"):
            c["salt"] = seed
        c["_w"] = ip_terms
        out.append(c)
    if control:
        for oc in (None, 0, 1):
            one(2, 2, [2], [2], oc, 0)
        one(3, 2, [2, 2], [1, 2], 1, 1)
        one(3, 2, [1, 2], [2, 1], 2, 2)
        one(2, 3, [1], [2], 1, 0)
        return out
    thorough = tier == "thorough"
    k = 0
    for d in (2, 3):
        for ba in profiles(2, 3):
            for bb in profiles(2, 3):
                for oc in (None, 0, 1):
                    k += 1
                    one(2, d, ba, bb, oc, k)
        ps = profiles(3, 3)
        for ba in ps:
            for bb in ps:
                k += 1
                oc = OC[k % 4]
                if d == 2 or thorough or max(ba + bb) <= 2:
                    one(3, d, ba, bb, oc, k)
                else:
                    one(3, d, ba, bb, oc, k, fill_b=3)
        ps = profiles(4, 3)
        for i, ba in enumerate(ps):
            k += 1
            one(4, d, ba, ps[(5 * i + 2) % len(ps)], OC[k % 5], k, fill=2)
            if thorough:
                one(4, d, ba, ps[(11 * i + 7) % len(ps)], OC[(k + 2) % 5], k + 1, fill=1, fill_b=3)
        for i, ba in enumerate(profiles(4, 2)):
            k += 1
            if d == 2 or thorough:
                one(4, d, ba, [1, 1, 1], OC[k % 5], k)
            if thorough and d == 2:
                for j, bb in enumerate(profiles(4, 2)):
                    if (i + j) % 4 == 0:                     # both fully symbolic: 2^(2N) d^N x bond paths monomials
                        k += 1
                        one(4, d, ba, bb, OC[k % 5], k)
        ps = profiles(5, 3)
        for i, ba in enumerate(ps):
            k += 1
            if thorough and i % 2 == 0:
                one(5, d, ba, ps[(13 * i + 4) % len(ps)], OC[k % 6], k, fill=2)
            elif i % 4 == 1:
                one(5, d, ba, ps[(13 * i + 4) % len(ps)], OC[k % 6], k, fill=1)
    return out


def _mpo_cases(tier, control, seed):
    out = []

    def one(N, d, ba, bp, k, fill="full", fill_p=None, w=1):
        c = dict(kind="mpo", N=N, d=d, basis=_basis(d, k), fill=fill, ba=list(ba), bp=list(bp), _w=w)
        if fill_p is not None:
            c["fill_p"] = fill_p
        if fill != "full" or fill_p not in (None, "full"):
            c["salt"] = seed
        out.append(c)
    if control:
        one(2, 2, [2], [2], 0)
        one(2, 2, [1], [2], 1)
        one(3, 2, [2, 2], [2, 1], 2, fill_p=0)
        one(3, 2, [1, 2], [1, 1], 0)
        return out
    thorough = tier == "thorough"
    k = 0
    for d in (2, 3):
        for ba in profiles(2, 3):
            for bp in profiles(2, 3):
                k += 1
                one(2, d, ba, bp, k, w=_prod(ba) * _prod(bp) ** 2 * d ** 4 * 100)
        ps = profiles(3, 3)
        for i, ba in enumerate(ps):
            k += 1
            one(3, d, ba, ps[(4 * i + 1) % 9], k, fill_p=0, w=2e4 * _prod(ba))
            if d == 2 or (thorough and max(ba) <= 2):
                one(3, d, ba, ps[(7 * i + 5) % 9], k + 1, fill_p=1, w=2e5 * _prod(ba))
            if max(ba) <= 2 and d == 2:
                one(3, d, ps[(2 * i + 3) % 9], ba, k + 2, fill=1, fill_p="full", w=8e5)
        # both fully symbolic at N = 3: <psi|A|psi> has (bond paths of A) x (bond paths of psi)^2 x d^(2N) x 2^(3N) monomials
        for ba in profiles(3, 2):
            for bp in profiles(3, 2):
                if d == 3 and not (thorough and _prod(ba) * _prod(bp) <= 2):
                    continue
                if d == 2 and not thorough and _prod(bp) > 1:
                    continue
                k += 1
                one(3, d, ba, bp, k, w=_prod(ba) * _prod(bp) ** 2 * d ** 6 * 512)
        ps = profiles(4, 3)
        for i, ba in enumerate(ps):
            if thorough or i % 3 == 0:
                k += 1
                one(4, d, ba, ps[(8 * i + 3) % 27], k, fill=1, fill_p=1, w=1e5 * d ** 3)
        for i, ba in enumerate(profiles(4, 2)):
            if d == 2 and (thorough or i % 2 == 0):
                k += 1
                one(4, d, ba, ps[(5 * i + 13) % 27], k, fill_p=0, w=4e5)
    return out


NAME_IDX = {2: [[(1, 1)], [(0, 0), (1, 1)], [(1, 0), (0, 1)], [(0, 0), (0, 1), (1, 0), (1, 1)], [(0, 1)], [(1, 0)]],
            3: [[(1, 1)], [(0, 0), (2, 2)], [(1, 0), (0, 1)], [(2, 0), (0, 2), (1, 1)], [(2, 1)], [(1, 2)], [(0, 2)], [(2, 0), (2, 2)],
                [(0, 1), (1, 2), (2, 0)], [(a, b) for a in range(3) for b in range(3)]]}


def _names(basis, idx_pairs):
    letter = {LEVEL[ch]: ch for ch in BASES[basis]}
    return [letter[a] + letter[b] for a, b in idx_pairs]


def _partitions_into_ops(N, max_ops=2):
    """1..max_ops operators on non-empty disjoint target lists"""
    out = []
    sites = list(range(N))
    for r in range(1, N + 1):
        for tg in itertools.combinations(sites, r):
            out.append([list(tg)])
            if max_ops >= 2:
                rest = [s for s in sites if s not in tg]
                for r2 in range(1, len(rest) + 1):
                    for tg2 in itertools.combinations(rest, r2):
                        if tg < tg2:
                            out.append([list(tg), list(tg2)])
    return out


def _oprepr_cases(tier, control):
    out = []
    thorough = tier == "thorough"
    plan = [("rg", 2), ("grx", 2)] if control else \
        [(b, N) for b in ("rg", "01", "gr", "grx", "rgx") for N in (2, 3, 4) if not (len(BASES[b]) == 3 and N == 4 and not thorough)]
    for basis, N in plan:
        d = len(BASES[basis])
        ns = NAME_IDX[d]
        for pi, part in enumerate(_partitions_into_ops(N)):
            for ni in range(len(ns)):
                if not control and not thorough and N >= 3 and (pi + ni) % (3 if N == 3 else 7):
                    continue
                if thorough and N == 4 and d == 3 and (pi + ni) % 5:
                    continue
                term1 = [[_names(basis, ns[(ni + k) % len(ns)]), tg] for k, tg in enumerate(part)]
                term2 = [[_names(basis, ns[(ni + 2) % len(ns)]), [N - 1]]]
                variant = (pi + ni) % 3
                terms = [term1] if variant == 0 else [term1, term2] if variant == 1 else [term1, [], term2]
                out.append(dict(kind="oprepr", N=N, basis=basis, terms=terms, target_sets=bool((pi + ni) % 2), _w=d ** (2 * N)))
    return out


def _norm_cases(tier, control):
    out = []
    thorough = tier == "thorough"
    k = 0
    for d in (2, 3):
        for N in ((2, 3) if control else (2, 3, 4, 5) if thorough else (2, 3, 4)):
            for ba in profiles(N, 2 if control else 4 if (thorough and N <= 4) else 3):
                for oc in range(N):
                    if canonical_ok(ba, d, oc):
                        k += 1
                        out.append(dict(kind="norm", N=N, d=d, basis=_basis(d, k), fill="full", ba=ba, oc=oc, _w=_prod(ba) * d ** N))
    return out


def cases(tier, control=False, seed=0):
    out = _add_cases(tier, control) + _mps_cases(tier, control, seed) + _mpo_cases(tier, control, seed) + \
        _oprepr_cases(tier, control) + _norm_cases(tier, control)
    for N in ((2,) if control else range(2, 7)):
        for b in BASES:
            out.append(dict(kind="make", N=N, basis=b, _w=1))
    out.sort(key=lambda c: c["_w"] if control else -c["_w"])     # heaviest first keeps the pool busy
    for c in out:
        del c["_w"]
    return out


def plan_description(tier):
    cs = cases(tier)
    by = {}
    for c in cs:
        key = c["kind"]
        e = by.setdefault(key, dict(n=0, N=set(), d=set(), b=0))
        e["n"] += 1
        e["N"].add(c["N"])
        e["d"].add(c.get("d", len(BASES[c["basis"]]) if "basis" in c else 0))
        e["b"] = max([e["b"]] + list(c.get("ba", [])) + list(c.get("bb", [])) + list(c.get("bp", [])))
    parts = []
    for kind in ("add", "mps", "mpo", "oprepr", "make", "norm"):
        e = by[kind]
        parts.append(f"{kind}: {e['n']} cases, {min(e['N'])}-{max(e['N'])} sites, physical dim {sorted(e['d'])}"
                     + (f", inner bond dims 1-{e['b']}" if e["b"] else ""))
    return "; ".join(parts)
