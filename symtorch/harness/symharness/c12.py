"""C12 -- emu-sv state / operator objects are faithful to their definitions (dense part).

Case kinds
  sv_amp     StateVector / DensityMatrix ._from_state_amplitudes on concrete Gaussian-rational
             amplitudes: index mapping (g=0, r=1, atom 0 most significant) and normalisation
  sv_alg     inner / norm / overlap / + / scalar* / from_state_vector / DensityMatrix.overlap /
             make on symbolic vectors and matrices
  dense_op   DenseOperator._from_operator_repr with symbolic coefficients vs Kronecker products;
             @, +, scalar*, apply_to, expect on symbolic matrices
  sparse_op  SparseOperator._from_operator_repr (1-3 terms, symbolic coefficients, QuditOps with several
             entries per row such as {"gg": a, "gr": b}) vs the Kronecker products AND vs DenseOperator built
             from the same representation; CSR layout; apply_to / expect of the built operator on a symbolic vector
  sparse_alg SparseOperator +, scalar*, @, apply_to, expect, deepcopy on symbolic CSR matrices built from
             unsorted index lists with duplicates
The sparse layouts (COO index order / duplicates / is_coalesced flag, CSR row pointers) are those of the model
/verif/symtorch/torch/_sparse.py.
NOT covered: sampling.
"""
from __future__ import annotations

import itertools
from fractions import Fraction

from .core import dagger, embed, eye, kron, mat, zeros

PACKAGES = ["emu_base", "emu_sv", "emu_sv.state_vector", "emu_sv.density_matrix_state", "emu_sv.dense_operator",
            "emu_sv.sparse_operator"]

AMPS = [(1, 0), (-2, 0), (0, 1.5), (3, 4), (0.6, 0), (0, -0.8), (5, 12), (-0.28, 0.96), (3, 0), (0, 4), (-5, 0), (0, 12)]


def _index(bits):
    return int(bits.replace("r", "1").replace("g", "0"), 2)


def _isqrt_fraction(q):
    from math import isqrt
    n, d = q.numerator, q.denominator
    rn, rd = isqrt(n), isqrt(d)
    assert rn * rn == n and rd * rd == d, "case design error: norm must be rational"
    return Fraction(rn, rd)


def sv_amp(B, case):
    N = case["N"]
    amps = {s: complex(*AMPS[k]) for s, k in case["amps"]}
    with B.under_test():
        from emu_sv.state_vector import StateVector
        from emu_sv.density_matrix_state import DensityMatrix
        sv, back = StateVector._from_state_amplitudes(eigenstates=tuple(case["basis"]), n_qudits=N, amplitudes=dict(amps))
        dm, _ = DensityMatrix._from_state_amplitudes(eigenstates=tuple(case["basis"]), n_qudits=N, amplitudes=dict(amps))
        nq = sv.n_qudits
    # specification: place, then normalise iff | ||a||^4 - 1 | > 1e-12 (the documented tolerance)
    n2 = sum(Fraction(a.real) ** 2 + Fraction(a.imag) ** 2 for a in amps.values())
    if abs(n2 * n2 - 1) > Fraction(1e-12):
        scale = 1 / _isqrt_fraction(n2)
    else:
        scale = Fraction(1)
    want = zeros(B, 2 ** N)
    for s, a in amps.items():
        v = (Fraction(a.real) * scale) + B.I * (Fraction(a.imag) * scale) if B.mode == "sym" else a * float(scale)
        want[_index(s)] = v
    w = mat(B, [[x] for x in want])
    rho = w.dot(dagger(B, w))
    return [("StateVector._from_state_amplitudes", B.arr(sv.data), want),
            ("DensityMatrix._from_state_amplitudes", B.arr(dm.data), rho),
            ("n_qudits", mat(B, [nq]), mat(B, [N])),
            ("amplitudes returned unchanged", mat(B, [int(dict(back) == amps)]), mat(B, [1]))]


def _vec(B, n, name):
    return [B.cplx(f"{name}{k}") for k in range(n)]


def _matrix(B, n, name):
    return [[B.cplx(f"{name}{k}_{l}") for l in range(n)] for k in range(n)]


def sv_alg(B, case):
    N = case["N"]
    n = 2 ** N
    psi, phi = _vec(B, n, "psi"), _vec(B, n, "phi")
    z = B.cplx("z")
    R, S = _matrix(B, n, "rho"), _matrix(B, n, "sig")
    t_psi, t_phi = B.tensor(psi, "complex128"), B.tensor(phi, "complex128")
    with B.under_test():
        from emu_sv.state_vector import StateVector, inner
        from emu_sv.density_matrix_state import DensityMatrix
        a = StateVector(t_psi, gpu=False)
        b = StateVector(t_phi, gpu=False)
        got = dict(inner=a.inner(b), inner_fn=inner(a, b), norm2=a.norm() ** 2, overlap=a.overlap(b),
                   add=(a + b).data, rmul=(z * a).data, dm=DensityMatrix.from_state_vector(a).data,
                   dmo=DensityMatrix(B.tensor(R, "complex128"), gpu=False).overlap(DensityMatrix(B.tensor(S, "complex128"), gpu=False)),
                   make=StateVector.make(N, gpu=False).data, dmake=DensityMatrix.make(N, gpu=False).data,
                   zero=StateVector.zero(N, gpu=False).data, nq=a.n_qudits)
    p, q = mat(B, psi), mat(B, phi)
    ip = sum(B.conj(x) * y for x, y in zip(psi, phi))
    n2 = sum(B.conj(x) * x for x in psi)
    e0 = zeros(B, n)
    e0[0] = 1
    E00 = zeros(B, n, n)
    E00[0, 0] = 1
    pc = mat(B, [[x] for x in psi])
    tr = sum(B.conj(R[i][j]) * S[i][j] for i in range(n) for j in range(n))
    return [("inner", B.arr(got["inner"]), mat(B, ip)), ("inner()", B.arr(got["inner_fn"]), mat(B, ip)),
            ("norm()**2", B.arr(got["norm2"]), mat(B, n2)),
            ("overlap", B.arr(got["overlap"]), mat(B, ip * B.conj(ip))),
            ("__add__", B.arr(got["add"]), p + q), ("__rmul__", B.arr(got["rmul"]), z * p),
            ("from_state_vector", B.arr(got["dm"]), pc.dot(dagger(B, pc))),
            ("DensityMatrix.overlap", B.arr(got["dmo"]), mat(B, tr)),
            ("make", B.arr(got["make"]), e0), ("DensityMatrix.make", B.arr(got["dmake"]), E00),
            ("zero", B.arr(got["zero"]), zeros(B, n)), ("n_qudits", mat(B, [got["nq"]]), mat(B, [N])),
            ("inputs not modified", B.arr(t_psi), p)]


UNITS = {"gg": (0, 0), "gr": (0, 1), "rg": (1, 0), "rr": (1, 1)}       # |a><b| with g = 0, r = 1


def dense_op(B, case):
    N = case["N"]
    n = 2 ** N
    terms = []
    spec = zeros(B, n, n)
    for ti, term in enumerate(case["terms"]):
        coeff = B.cplx(f"c{ti}")
        tensorop = []
        local = {}
        for oi, (names, targets) in enumerate(term):
            qop = {nm: B.cplx(f"o{ti}_{oi}_{nm}") for nm in names}
            tensorop.append((qop, set(targets)) if case.get("target_sets") else (qop, list(targets)))
            m = zeros(B, 2, 2)
            for nm, v in qop.items():
                m[UNITS[nm]] = m[UNITS[nm]] + v
            for t in targets:
                local[t] = m
        terms.append((coeff, tensorop))
        spec = spec + coeff * embed(B, local, N)
    A, Bm = _matrix(B, n, "A"), _matrix(B, n, "B")
    psi = _vec(B, n, "psi")
    z = B.cplx("z")
    with B.under_test():
        from emu_sv.dense_operator import DenseOperator
        from emu_sv.state_vector import StateVector
        op, back = DenseOperator._from_operator_repr(eigenstates=tuple(case["basis"]), n_qudits=N, operations=terms)
        a = DenseOperator(B.tensor(A, "complex128"), gpu=False)
        b = DenseOperator(B.tensor(Bm, "complex128"), gpu=False)
        sv = StateVector(B.tensor(psi, "complex128"), gpu=False)
        got = dict(mm=(a @ b).data, add=(a + b).data, rmul=(z * a).data, app=a.apply_to(sv).data, ex=a.expect(sv))
    Am, Bn, p = mat(B, A), mat(B, Bm), mat(B, psi)
    Ap = Am.dot(p)
    ex = sum(B.conj(x) * y for x, y in zip(psi, Ap))
    return [("_from_operator_repr", B.arr(op.data), spec),
            ("@", B.arr(got["mm"]), Am.dot(Bn)), ("+", B.arr(got["add"]), Am + Bn), ("scalar *", B.arr(got["rmul"]), z * Am),
            ("apply_to", B.arr(got["app"]), Ap), ("expect", B.arr(got["ex"]), mat(B, ex)),
            ("operations returned unchanged", mat(B, [int(back is terms)]), mat(B, [1]))]


def _build_repr(B, case):
    """-> (operations for the code under test, dense Kronecker-product specification); independent of the code"""
    N = case["N"]
    terms = []
    spec = zeros(B, 2 ** N, 2 ** N)
    for ti, term in enumerate(case["terms"]):
        coeff = B.cplx(f"c{ti}")
        tensorop = []
        local = {}
        for oi, (names, targets) in enumerate(term):
            qop = {nm: B.cplx(f"o{ti}_{oi}_{nm}") for nm in names}
            tensorop.append((qop, set(targets)) if case.get("target_sets") else (qop, list(targets)))
            m = zeros(B, 2, 2)
            for nm, v in qop.items():
                m[UNITS[nm]] = m[UNITS[nm]] + v
            for t in targets:
                local[t] = m
        terms.append((coeff, tensorop))
        spec = spec + coeff * embed(B, local, N)
    return terms, spec


def _flag(B, ok):
    return mat(B, [int(bool(ok))])


def sparse_op(B, case):
    N = case["N"]
    n = 2 ** N
    terms, spec = _build_repr(B, case)
    psi = _vec(B, n, "psi")
    with B.under_test():
        from emu_sv.sparse_operator import SparseOperator
        from emu_sv.dense_operator import DenseOperator
        from emu_sv.state_vector import StateVector
        op, back = SparseOperator._from_operator_repr(eigenstates=tuple(case["basis"]), n_qudits=N, operations=terms)
        dop, _ = DenseOperator._from_operator_repr(eigenstates=tuple(case["basis"]), n_qudits=N, operations=terms)
        sv = StateVector(B.tensor(psi, "complex128"), gpu=False)
        app = op.apply_to(sv).data
        ex = op.expect(sv)
    got = B.arr(op.data.to_dense())                 # harness-side read-out of the stored CSR matrix
    p = mat(B, psi)
    Sp = spec.dot(p)
    want_ex = sum(B.conj(x) * y for x, y in zip(psi, Sp))
    return [("SparseOperator._from_operator_repr", got, spec),
            ("sparse == DenseOperator from the same representation", got, B.arr(dop.data)),
            ("layout is CSR", _flag(B, str(op.data.layout) == "torch.sparse_csr"), _flag(B, True)),
            ("apply_to (CSR @ vector)", B.arr(app), Sp), ("expect", B.arr(ex), mat(B, want_ex)),
            ("operations returned unchanged", _flag(B, back is terms), _flag(B, True))]


def _pattern(n, pattern, which):
    """storage-order list of (row, col): unsorted, with duplicates unless the pattern is 'full'"""
    import random
    rng = random.Random(f"c12-sparse:{n}:{pattern}:{which}")
    if pattern == "full":
        return [(r, c) for r in range(n) for c in range(n)]
    if pattern == "scattered":
        cells = [(r, c) for r in range(n) for c in range(n)]
        pick = rng.sample(cells, min(len(cells), 2 * n))
        pick += [pick[k] for k in range(0, len(pick), 3)]              # duplicates
        rng.shuffle(pick)
        return pick
    if pattern == "edge rows":
        e = [(r, c) for r in (n - 1, 0) for c in range(n - 1, -1, -1)]  # last row first, columns descending
        return e + e[:: 2]
    raise ValueError(pattern)


def sparse_alg(B, case):
    import copy
    N = case["N"]
    n = 2 ** N
    torch = B.torch
    ent = {w: _pattern(n, case["pattern"], w) for w in "ab"}
    val = {w: [B.cplx(f"{w}{k}") for k in range(len(ent[w]))] for w in "ab"}
    dense = {}
    for w in "ab":
        m = zeros(B, n, n)
        for (r, c), v in zip(ent[w], val[w]):
            m[r, c] = m[r, c] + v
        dense[w] = m
    psi = _vec(B, n, "psi")
    z = B.cplx("z")

    def csr(w):
        idx = torch.tensor([[r for r, _ in ent[w]], [c for _, c in ent[w]]], dtype=torch.int64)
        return torch.sparse_coo_tensor(idx, B.tensor(val[w], "complex128"), (n, n)).to_sparse_csr()
    ta, tb = csr("a"), csr("b")
    with B.under_test():
        from emu_sv.sparse_operator import SparseOperator
        from emu_sv.state_vector import StateVector
        a = SparseOperator(ta, gpu=False)
        b = SparseOperator(tb, gpu=False)
        sv = StateVector(B.tensor(psi, "complex128"), gpu=False)
        add = (a + b).data
        rmul = (z * a).data
        app = a.apply_to(sv).data
        ex = a.expect(sv)
        try:
            mm = (a @ b).data
        except NotImplementedError:
            mm = None                               # the class declares the product unsupported
        cp = copy.deepcopy(a)
    A, Bm, p = dense["a"], dense["b"], mat(B, psi)
    Ap = A.dot(p)
    want_ex = sum(B.conj(x) * y for x, y in zip(psi, Ap))
    checks = [("+", B.arr(add.to_dense()), A + Bm), ("scalar *", B.arr(rmul.to_dense()), z * A),
              ("apply_to", B.arr(app), Ap), ("expect", B.arr(ex), mat(B, want_ex)),
              ("__deepcopy__", B.arr(cp.data.to_dense()), A),
              ("__deepcopy__ copies the matrix", _flag(B, cp.data is not a.data), _flag(B, True)),
              ("results are CSR", _flag(B, all(str(t.layout) == "torch.sparse_csr" for t in (add, rmul, cp.data))), _flag(B, True)),
              ("operands not modified", B.arr(a.data.to_dense()), A), ("operands not modified (b)", B.arr(b.data.to_dense()), Bm)]
    if mm is None:
        checks.append(("@ raises NotImplementedError (declared by the class, nothing to compare)", _flag(B, True), _flag(B, True)))
    else:
        checks.append(("@", B.arr(mm.to_dense()), A.dot(Bm)))
    return checks


KINDS = {"sv_amp": sv_amp, "sv_alg": sv_alg, "dense_op": dense_op, "sparse_op": sparse_op, "sparse_alg": sparse_alg}


def _partitions_into_ops(N, max_ops=2):
    """disjoint target lists: every way to give 1..max_ops operators non-empty disjoint target sets"""
    out = []
    sites = list(range(N))
    for r in range(1, N + 1):
        for tg in itertools.combinations(sites, r):
            out.append([list(tg)])
            if max_ops >= 2:
                rest = [s for s in sites if s not in tg]
                for r2 in range(1, len(rest) + 1):
                    for tg2 in itertools.combinations(rest, r2):
                        if tg < tg2:
                            out.append([list(tg), list(tg2)])
    return out


NAME_SETS = [["rr"], ["gg", "rr"], ["rg", "gr"], ["gg", "gr", "rg", "rr"], ["gr"], ["rg"]]


def cases(tier, control=False, seed=0):
    out = []
    nmax_amp = 4
    for N in range(1, nmax_amp + 1):
        strings = ["".join(s) for s in itertools.product("gr", repeat=N)]
        for k, s in enumerate(strings):
            out.append(dict(kind="sv_amp", N=N, basis=["r", "g"], amps=[[s, k % len(AMPS)]]))
        if N <= 3:
            for (s1, s2) in itertools.permutations(strings, 2):
                out.append(dict(kind="sv_amp", N=N, basis=["g", "r"], amps=[[s1, 8], [s2, 9]]))      # 3, 4i: unnormalised
                out.append(dict(kind="sv_amp", N=N, basis=["r", "g"], amps=[[s1, 4], [s2, 5]]))      # 0.6, -0.8i
        else:
            for (s1, s2) in list(itertools.combinations(strings, 2))[:: (1 if tier == "thorough" else 7)]:
                out.append(dict(kind="sv_amp", N=N, basis=["r", "g"], amps=[[s1, 10], [s2, 11]]))
    for N in ([1, 2, 3] if not control else [1, 2]):
        out.append(dict(kind="sv_alg", N=N))
    if tier == "thorough" and not control:
        out.append(dict(kind="sv_alg", N=4))
    for N in ([1, 2, 3] if not control else [1, 2]):
        parts = _partitions_into_ops(N)
        for pi, part in enumerate(parts):
            for ni, names in enumerate(NAME_SETS):
                if tier == "quick" and N == 3 and (pi + ni) % 3:
                    continue
                term1 = [(names, tg) if k == 0 else (NAME_SETS[(ni + 1) % len(NAME_SETS)], tg) for k, tg in enumerate(part)]
                term2 = [(NAME_SETS[(ni + 2) % len(NAME_SETS)], [N - 1])]
                out.append(dict(kind="dense_op", N=N, basis=["r", "g"], terms=[term1]))
                out.append(dict(kind="dense_op", N=N, basis=["g", "r"], terms=[term1, term2], target_sets=bool((pi + ni) % 2)))
    out += _sparse_cases(tier, control)
    return out


# operator-name sets for the sparse cases: NAME_SETS plus factors with several entries in one ROW ({"gg": a, "gr": b}
# has two in row g, {"rg", "rr"} two in row r) -- the shape for which the COO index order of a Kronecker product is
# not row-sorted
SPARSE_NAME_SETS = NAME_SETS + [["gg", "gr"], ["rg", "rr"], ["gr", "gg", "rr"]]


def _sparse_cases(tier, control):
    out = []
    S = SPARSE_NAME_SETS
    sizes = [1, 2] if control else ([1, 2, 3, 4] if tier == "thorough" else [1, 2, 3])
    for N in sizes:
        parts = _partitions_into_ops(N)
        for pi, part in enumerate(parts):
            for ni, names in enumerate(S):
                if N == 3 and tier == "quick" and (pi + ni) % 3:
                    continue
                if N == 4 and (pi + 2 * ni) % 7:
                    continue
                term1 = [(names, tg) if k == 0 else (S[(ni + 6) % len(S)], tg) for k, tg in enumerate(part)]
                term2 = [(S[(ni + 2) % len(S)], [N - 1])]
                term3 = [(S[(ni + 7) % len(S)], tg) for tg in part]      # same targets as term1, other factors
                sets = bool((pi + ni) % 2)
                out.append(dict(kind="sparse_op", N=N, basis=["r", "g"], terms=[term1], target_sets=sets))
                out.append(dict(kind="sparse_op", N=N, basis=["g", "r"], terms=[term1, term2], target_sets=not sets))
                if (pi + ni) % 2 == 0:
                    out.append(dict(kind="sparse_op", N=N, basis=["r", "g"], terms=[term1, term2, term3]))
    for N in sizes:
        for pattern in ("full", "scattered", "edge rows"):
            if pattern == "full" and N > 3:
                continue
            out.append(dict(kind="sparse_alg", N=N, pattern=pattern))
    return out
