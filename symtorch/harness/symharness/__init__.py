"""Engine-B harness: cases, independent dense specifications and comparison.

Backend-generic: the same case code runs
  * symbolically  (python3-vt, PYTHONPATH=/verif/symtorch:/verif/symtorch/harness:<repo>)
    on the torch *shim* with polynomial entries -> exact identity check, and
  * natively      (/venv/bin/python, PYTHONPATH=/verif/symtorch/harness:<repo>)
    on real torch with a numeric assignment of the symbols -> replay of a mismatch.
"""
