"""Backends (symbolic / numeric), dense linear-algebra helpers that work on both element
types, comparison and the per-case execution wrapper."""
from __future__ import annotations

import hashlib
import math
import time
import traceback
from functools import reduce

import numpy as np


class CodeRaised(Exception):
    """the code under test raised (anything but an UnsupportedOp of the shim)"""

    def __init__(self, exc, tb):
        super().__init__(repr(exc))
        self.exc, self.tb = exc, tb


class _UnderTest:
    def __init__(self, B):
        self.B = B

    def __enter__(self):
        return self

    def __exit__(self, et, ev, tb):
        if et is None:
            return False
        if self.B.is_unsupported(ev):
            return False
        raise CodeRaised(ev, "".join(traceback.format_exception(et, ev, tb))[-3000:]) from None


class SymBackend:
    mode = "sym"
    np_dtype = object

    def __init__(self):
        import poly
        import torch
        if not getattr(torch, "IS_SYMTORCH", False):
            raise RuntimeError("symbolic mode needs the symtorch shim first on PYTHONPATH")
        poly.reset_registry()
        self.poly, self.torch = poly, torch
        self.I = poly.I
        self.symbols = []                    # (name, kind) in creation order
        torch.config.force_not_cpu = False
        torch.config.op_log = set()

    # leaves ---------------------------------------------------------------------------
    def real(self, name, nonzero=False):
        self.symbols.append((name, "nonzero" if nonzero else "real"))
        return self.poly.var(name, nonzero)

    def cplx(self, name):
        return self.real(name + ".re") + self.I * self.real(name + ".im")

    def angle(self, name):
        """-> (raw angle for the tensor, cos, sin) -- cos/sin are symbols with c^2+s^2=1"""
        self.symbols.append((name, "angle"))
        phi = self.poly.angle(name)
        return phi, self.poly.p_cos(phi), self.poly.p_sin(phi)

    # tensors --------------------------------------------------------------------------
    def tensor(self, nested, dtype, device="cpu"):
        return self.torch.tensor(nested, dtype=getattr(self.torch, dtype), device=device)

    def arr(self, t):
        return t._a

    def force_gpu(self, t):
        """make `.is_cpu` False for the duration of the case (drives the batched branch)"""
        self.torch.config.force_not_cpu = True
        return t

    def under_test(self):
        return _UnderTest(self)

    def is_unsupported(self, exc):
        return isinstance(exc, self.poly.UnsupportedOp)

    def ops_used(self):
        return sorted(self.torch.config.op_log or ())

    def finish(self):
        self.torch.config.force_not_cpu = False
        self.torch.config.op_log = None

    # elements -------------------------------------------------------------------------
    def P(self, x):
        return self.poly.Poly.coerce(x)

    def is_zero(self, x):
        return self.P(x).is_zero()

    def same(self, x, y):
        return self.P(x).same(self.P(y))

    def conj(self, x):
        return self.P(x).conj()

    def show(self, x):
        return str(self.P(x))

    def nterms(self, x):
        return len(self.P(x).t)


class NumBackend:
    mode = "num"
    np_dtype = complex
    TOL = 1e-9

    def __init__(self, env):
        import torch
        if getattr(torch, "IS_SYMTORCH", False):
            raise RuntimeError("numeric mode needs the real torch")
        self.torch = torch
        self.env = env
        self.I = 1j
        self.symbols = []

    def real(self, name, nonzero=False):
        self.symbols.append((name, "real"))
        return float(self.env[name])

    def cplx(self, name):
        return complex(self.real(name + ".re"), self.real(name + ".im"))

    def angle(self, name):
        v = float(self.env[name])
        return v, math.cos(v), math.sin(v)

    def tensor(self, nested, dtype, device="cpu"):
        return self.torch.tensor(nested, dtype=getattr(self.torch, dtype), device=device)

    def arr(self, t):
        return t.detach().cpu().resolve_conj().numpy()

    def force_gpu(self, t):
        torch = self.torch

        class NotCpu(torch.Tensor):
            @property
            def is_cpu(self):
                return False
        return t.as_subclass(NotCpu)

    def under_test(self):
        return _UnderTest(self)

    def is_unsupported(self, exc):
        return False

    def ops_used(self):
        return []

    def finish(self):
        pass

    def P(self, x):
        return complex(x)

    def is_zero(self, x):
        return complex(x) == 0

    def same(self, x, y):
        x, y = complex(x), complex(y)
        return abs(x - y) <= self.TOL * (1 + abs(x) + abs(y))

    def conj(self, x):
        return complex(x).conjugate()

    def show(self, x):
        return repr(complex(x))

    def nterms(self, x):
        return 0 if complex(x) == 0 else 1


# ------------------------------------------------------------------------------------------
# element-type-agnostic dense helpers (NumPy only; independent of the shim)
# ------------------------------------------------------------------------------------------
def mat(B, nested):
    return np.array(nested, dtype=B.np_dtype)


def zeros(B, *shape):
    return np.zeros(shape, dtype=B.np_dtype)


def eye(B, d):
    m = zeros(B, d, d)
    for i in range(d):
        m[i, i] = 1
    return m


def kron(a, b):
    r = np.multiply.outer(a, b)
    return r.transpose(0, 2, 1, 3).reshape(a.shape[0] * b.shape[0], a.shape[1] * b.shape[1])


def embed(B, ops, N, d=2):
    """ops: {site: dxd matrix}; identity elsewhere; site 0 is the most significant digit"""
    return reduce(kron, [ops.get(k, eye(B, d)) for k in range(N)])


def dagger(B, m):
    out = np.empty(m.T.shape, dtype=B.np_dtype)
    for idx in np.ndindex(m.shape):
        out[idx[::-1]] = B.conj(m[idx])
    return out


def sigma_x(B, d=2):
    m = zeros(B, d, d)
    m[0, 1] = 1
    m[1, 0] = 1
    return m


def sigma_y(B, d=2):
    m = zeros(B, d, d)
    m[0, 1] = -1 * B.I
    m[1, 0] = B.I
    return m


def number_op(B, d=2):
    m = zeros(B, d, d)
    m[1, 1] = 1
    return m


def dense_rydberg(B, N, om, de, cs, U):
    """Pulser convention (docstrings of emu_sv/hamiltonian.py, test/utils_testing):
       H = sum_j om_j/2 (cos phi_j sx_j + sin phi_j sy_j) - sum_j de_j n_j + sum_{i<j} U_ij n_i n_j
       basis index 1 = |r>, atom 0 = most significant bit."""
    h = zeros(B, 2 ** N, 2 ** N)
    half = 0.5
    for j in range(N):
        c, s = cs[j]
        loc = (om[j] * half) * (c * sigma_x(B) + s * sigma_y(B)) - de[j] * number_op(B)
        h = h + embed(B, {j: loc}, N)
        for k in range(j + 1, N):
            h = h + U[j][k] * embed(B, {j: number_op(B), k: number_op(B)}, N)
    return h


# ------------------------------------------------------------------------------------------
# polynomial specification side: for specifications that are *derivatives* of a dense operator
# ------------------------------------------------------------------------------------------
_POLY_NATIVE = None


def _poly_module(B):
    """the exact-polynomial module: the shim's own instance under the shim; under real torch (native replay)
    poly.py is loaded by file path, so the shim's fake `torch` never comes onto sys.path there"""
    global _POLY_NATIVE
    if B.mode == "sym":
        return B.poly
    if _POLY_NATIVE is None:
        import importlib.util
        import os
        path = os.path.join(os.path.dirname(os.path.dirname(os.path.dirname(os.path.abspath(__file__)))), "poly.py")
        spec = importlib.util.spec_from_file_location("symtorch_poly_for_specifications", path)
        _POLY_NATIVE = importlib.util.module_from_spec(spec)
        spec.loader.exec_module(_POLY_NATIVE)
    return _POLY_NATIVE


class PolySpec:
    """Element backend for the dense helpers above whose entries are always exact polynomials in *named*
    symbols -- in both modes.  Under the shim the names denote the very symbols handed to the code under test
    (the registry is keyed by name); natively the polynomials are evaluated at the numeric assignment of the
    run.  `diff` is the formal partial derivative (angles: d cos = -sin, d sin = cos); it never touches the
    code under test."""
    np_dtype = object

    def __init__(self, B):
        self.B = B
        self.poly = _poly_module(B)
        if B.mode != "sym":
            self.poly.reset_registry()
        self.I = self.poly.I
        self.angles = []

    def real(self, name):
        return self.poly.var(name)

    def angle(self, name):
        """-> (cos, sin) symbols of the angle `name`"""
        if name not in self.angles:
            self.angles.append(name)
        phi = self.poly.angle(name)
        return self.poly.p_cos(phi), self.poly.p_sin(phi)

    def conj(self, x):
        return self.poly.Poly.coerce(x).conj()

    def diff(self, arr, name):
        d = np.frompyfunc(lambda p: self.poly.diff(p, name), 1, 1)
        return np.asarray(d(np.asarray(arr, dtype=object)), dtype=object)

    def subs(self, arr, values):
        """substitute rational constants for named symbols (the literal zeros of a case) -- AFTER differentiating"""
        f = np.frompyfunc(lambda p: self.poly.subs_const(p, values), 1, 1)
        return np.asarray(f(np.asarray(arr, dtype=object)), dtype=object)

    def lower(self, arr):
        """polynomial array -> array of the run's element type (identity under the shim; evaluation at the
        run's numeric assignment natively)"""
        arr = np.asarray(arr, dtype=object)
        if self.B.mode == "sym":
            return arr
        env = dict(self.B.env)
        for a in self.angles:
            if a in env:                     # a phase that is the literal 0.0 in this case was substituted away
                env[f"cos({a})"] = math.cos(float(env[a]))
                env[f"sin({a})"] = math.sin(float(env[a]))
        out = np.zeros(arr.shape, dtype=complex)
        for idx in np.ndindex(arr.shape):
            out[idx] = self.poly.Poly.coerce(arr[idx]).evalf(env)
        return out


# ------------------------------------------------------------------------------------------
# comparison
# ------------------------------------------------------------------------------------------
class SparseOp:
    """a matrix given by its non-zero entries {(row, col): value}; every other entry is 0"""

    def __init__(self, entries, shape):
        self.entries, self.shape = entries, tuple(shape)


def compare_sparse(B, label, got, want, max_report=3):
    if got.shape != want.shape:
        return 0, 0, "", [dict(check=label, what="shape", got=list(got.shape), want=list(want.shape))]
    mism = []
    n_bad = 0
    h = hashlib.sha1()
    nz = 0
    for key in sorted(set(got.entries) | set(want.entries)):
        g = got.entries.get(key, 0)
        w = want.entries.get(key, 0)
        if not B.is_zero(w):
            nz += 1
        if B.mode == "sym":
            h.update(repr(key).encode())
            h.update(B.show(g).encode())
        if not B.same(g, w):
            n_bad += 1
            if len(mism) < max_report:
                mism.append(dict(check=label, index=list(key), got=B.show(g), want=B.show(w)))
                if B.mode == "sym" and len(mism) == 1:
                    mism[-1]["_diff"] = B.P(g) - B.P(w)
    if mism:
        mism[0]["n_bad_entries"] = n_bad
    return got.shape[0] * got.shape[1], nz, h.hexdigest(), mism


def compare(B, label, got, want, max_report=3):
    """-> (n_entries, n_nonzero_want, digest, mismatches[list of dict])"""
    if isinstance(want, SparseOp):
        return compare_sparse(B, label, got, want, max_report)
    got = np.asarray(got)
    want = np.asarray(want)
    if got.shape != want.shape:
        return 0, 0, "", [dict(check=label, what="shape", got=list(got.shape), want=list(want.shape))]
    mism = []
    nz = 0
    h = hashlib.sha1()
    for idx in np.ndindex(want.shape):
        g, w = got[idx], want[idx]
        if not B.is_zero(w):
            nz += 1
        if B.mode == "sym":
            h.update(B.show(g).encode())
            h.update(b"|")
        if not B.same(g, w):
            if len(mism) < max_report:
                mism.append(dict(check=label, index=list(idx), got=B.show(g), want=B.show(w)))
                if B.mode == "sym" and not mism[-1].get("_diff") and len(mism) == 1:
                    mism[-1]["_diff"] = B.P(g) - B.P(w)
            else:
                mism.append(None)
    n_bad = len(mism)
    mism = [m for m in mism if m is not None]
    if mism:
        mism[0]["n_bad_entries"] = n_bad
    return int(np.prod(want.shape, dtype=int)), nz, h.hexdigest(), mism


def random_env(B, rng):
    """numeric assignment of every symbol created by the case (dyadic rationals / angles)"""
    env = {}
    for name, kind in B.symbols:
        if kind == "angle":
            v = rng.choice([0.3, 0.7, 1.1, 1.9, 2.4, 2.9])
            env[name] = v
            env[f"cos({name})"] = math.cos(v)
            env[f"sin({name})"] = math.sin(v)
        else:
            env[name] = rng.choice([k for k in range(-12, 13) if k]) / 4.0
    return env


def witness_env(B, diff, seed):
    """an assignment at which the two sides differ numerically (a non-zero polynomial vanishes
    only on a measure-zero set, so a handful of random points is enough)"""
    import random
    rng = random.Random(seed)
    best = None
    for _ in range(40):
        env = random_env(B, rng)
        if diff is None:
            return env
        v = abs(diff.evalf(env))
        if best is None or v > best[0]:
            best = (v, env)
        if v > 1e-3:
            return env
    return best[1]


def execute(B, case, fn):
    """run one case -> JSON-able record"""
    t0 = time.time()
    c0 = time.process_time()
    rec = dict(case=case, status="ok", entries=0, nonzero=0, digest="", mismatches=[], checks=[])
    try:
        checks = fn(B, case)
        h = hashlib.sha1()
        for label, got, want in checks:
            n, nz, dg, mm = compare(B, label, got, want)
            rec["entries"] += n
            rec["nonzero"] += nz
            rec["checks"].append(label)
            h.update(dg.encode())
            if mm:
                rec["status"] = "mismatch"
                rec["mismatches"].extend(mm)
        diffs = [m.pop("_diff") for m in rec["mismatches"] if "_diff" in m]
        if B.mode == "sym" and rec["status"] == "mismatch":
            rec["env"] = witness_env(B, diffs[0] if diffs else None, case.get("_seed", 0))
        rec["digest"] = h.hexdigest()
    except CodeRaised as e:
        rec["status"] = "raised"
        if B.mode == "sym":
            rec["env"] = witness_env(B, None, case.get("_seed", 0))
        rec["exception"] = dict(type=type(e.exc).__name__, message=str(e.exc)[:500], traceback=e.tb)
    except Exception as e:               # noqa: BLE001
        if B.is_unsupported(e):
            rec["status"] = "unsupported"
            rec["op"] = f"{type(e).__name__}: {e}"
            rec["where"] = "".join(traceback.format_exc())[-1500:]
        else:
            rec["status"] = "crash"
            rec["traceback"] = traceback.format_exc()[-3000:]
    rec["symbols"] = B.symbols
    rec["ops"] = B.ops_used()
    B.finish()
    rec["time_s"] = round(time.time() - t0, 4)
    rec["cpu_s"] = round(time.process_time() - c0, 4)      # wall time means little on a loaded machine
    return rec
