"""Symbolic driver: run every case of a property on the shim, in a process pool.

  PYTHONPATH=/verif/symtorch:/verif/symtorch/harness:<repo_root> \
      python3-vt -m symharness.driver --prop C06 --tier quick --repo <repo_root> --out <file.json>
"""
from __future__ import annotations

import argparse
import importlib
import json
import multiprocessing as mp
import os
import sys
import time
import traceback


def _load(prop):
    return importlib.import_module("symharness." + prop.lower())


def _init_worker():
    import gc
    gc.disable()                           # cases are short and acyclic; refcounting frees everything


def _run(job):
    prop, case = job
    from .core import SymBackend, execute
    mod = _load(prop)
    try:
        B = SymBackend()
        return execute(B, case, mod.KINDS[case["kind"]])
    except Exception:                      # noqa: BLE001
        return dict(case=case, status="crash", traceback=traceback.format_exc()[-3000:],
                    entries=0, nonzero=0, digest="", mismatches=[], checks=[], symbols=[], ops=[], time_s=0)


def _fork_map(jobs, n, stop_on_first):
    """Plain fork/waitpid fan-out: worker k runs jobs k, k+n, k+2n, ... and writes its results to a
    temporary file.  (multiprocessing.Pool was dropped: its helper threads made about one run in 25
    hang at pool shutdown.)  `stop_on_first`: a worker that finds a mismatch creates a flag file,
    the others stop at their next case."""
    import json
    import tempfile
    d = tempfile.mkdtemp(prefix="engineb_fan_")
    flag = os.path.join(d, "stop")
    n = max(1, min(n, len(jobs)))
    pids = []
    for k in range(n):
        pid = os.fork()
        if pid == 0:
            code = 0
            try:
                _init_worker()
                out = []
                for j in jobs[k::n]:
                    if stop_on_first and os.path.exists(flag):
                        break
                    r = _run(j)
                    out.append(r)
                    if stop_on_first and r["status"] in ("mismatch", "raised"):
                        open(flag, "w").close()
                        break
                with open(os.path.join(d, f"part{k}.json.tmp"), "w") as f:
                    json.dump(out, f)
                os.replace(os.path.join(d, f"part{k}.json.tmp"), os.path.join(d, f"part{k}.json"))
            except BaseException:          # noqa: BLE001
                code = 1
                try:
                    with open(os.path.join(d, f"part{k}.err"), "w") as f:
                        f.write(traceback.format_exc())
                except Exception:          # noqa: BLE001
                    pass
            finally:
                os._exit(code)
        pids.append(pid)
    failed = []
    for k, pid in enumerate(pids):
        _, status = os.waitpid(pid, 0)
        if status != 0:
            failed.append(k)
    results = []
    errs = []
    for k in range(n):
        f = os.path.join(d, f"part{k}.json")
        if os.path.exists(f):
            with open(f) as fh:
                results.extend(json.load(fh))
        elif os.path.exists(os.path.join(d, f"part{k}.err")):
            errs.append(open(os.path.join(d, f"part{k}.err")).read()[-1500:])
        else:
            errs.append(f"worker {k} died without a result (exit status {k in failed})")
    import shutil
    shutil.rmtree(d, ignore_errors=True)
    if errs:
        raise RuntimeError("worker failure:\n" + "\n".join(errs))
    return results


def check_origin(repo_root, packages):
    root = os.path.realpath(repo_root)
    bad = []
    for p in packages:
        m = importlib.import_module(p)
        f = os.path.realpath(m.__file__)
        if not f.startswith(root + os.sep):
            bad.append(f"{p} imported from {f}, expected under {root}")
    return bad


def main(argv=None):
    ap = argparse.ArgumentParser()
    ap.add_argument("--prop", required=True)
    ap.add_argument("--tier", default="quick")
    ap.add_argument("--repo", required=True)
    ap.add_argument("--out", required=True)
    ap.add_argument("--jobs", type=int, default=min(16, os.cpu_count() or 1))
    ap.add_argument("--control", action="store_true", help="reduced case list for negative controls")
    ap.add_argument("--stop-on-first", action="store_true")
    ap.add_argument("--seed", type=int, default=0)
    a = ap.parse_args(argv)
    t0 = time.time()
    res = dict(prop=a.prop, tier=a.tier, repo=a.repo, results=[], error=None)
    try:
        import torch
        assert getattr(torch, "IS_SYMTORCH", False), "the shim is not first on PYTHONPATH"
        mod = _load(a.prop)
        # import the modules under test once in the parent (fork shares them) and pin their origin
        sys.stdout.flush()
        devnull = os.open(os.devnull, os.O_WRONLY)
        os.dup2(devnull, 1)                # the packages under test print at import / call time;
        bad = check_origin(a.repo, mod.PACKAGES)   # results go to --out, never to stdout
        if bad:
            raise RuntimeError("; ".join(bad))
        try:
            cases = mod.cases(a.tier, control=a.control, seed=a.seed)
        except TypeError:
            cases = mod.cases(a.tier, control=a.control)
        for c in cases:
            c["_seed"] = a.seed
        res["n_cases"] = len(cases)
        jobs = [(a.prop, c) for c in cases]
        if a.jobs > 1 and len(jobs) > 1:
            import gc
            gc.collect()
            gc.freeze()                    # keep the parent's heap out of the children's collections (no CoW storm)
            res["results"] = _fork_map(jobs, a.jobs, a.stop_on_first)
        else:
            for j in jobs:
                r = _run(j)
                res["results"].append(r)
                if a.stop_on_first and r["status"] in ("mismatch", "raised"):
                    break
    except Exception:                      # noqa: BLE001
        res["error"] = traceback.format_exc()
    res["wall_s"] = round(time.time() - t0, 2)
    with open(a.out, "w") as f:
        json.dump(res, f)
    return 0


if __name__ == "__main__":
    sys.exit(main())
