"""Stub: emu_sv/utils.py does `from pyparsing import Any` (a re-export of typing.Any);
pyparsing is not installed in the verification interpreter."""
from typing import Any  # noqa: F401
