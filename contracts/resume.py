"""C26: structural clauses of 'resuming equals an uninterrupted run' (emu_mps/mps_backend.py).

(a) MPSBackend.resume hands its results through the same post-processing as a normal run
    (impl.permute_results with the configuration's optimize_qubit_ordering);
(c) MPSBackend._run removes the advertised autosave file on normal termination, whatever the
    simulation steps did to it (ghost file system of contracts/autosave.py)."""
import z3

from pyvc.registry import Contract
from pyvc.values import Opaque, SymObj, to_z3

from . import autosave, config as cfgc

BACKEND = "emu_mps.mps_backend"
IMPL = "emu_mps.mps_backend_impl"


def register(reg, prop="C26"):
    autosave.register(reg, prop)

    def impl_obj(I, name="impl"):
        o = SymObj("MPSBackendImpl", IMPL)
        o.fields["config"] = cfgc.mps_config_obj(I, "config")
        o.fields["autosave_file"] = autosave.PathV("autosave.dat")
        o.fields["results"] = Opaque("impl.results")
        o.fields["last_save_time"] = I.ctx.fresh("last_save_time", "real")
        return o

    def fs_setup(I, fr):
        ctx = I.ctx
        st = {}
        for nm in ("autosave.dat", "autosave.new", "autosave.bak"):
            v = ctx.fresh("state(" + nm + ")", "int")
            ctx.assume(z3.And(v >= 0, v <= 2))
            st[nm] = v
        ctx.ghost["fs"] = st
        fr.locals["fs_state"] = lambda I2, nm: autosave.fs(I2)[nm]

    # the simulation step may autosave: afterwards the advertised file is in an arbitrary state
    def progress_model(I, self):
        ctx = I.ctx
        v = ctx.fresh("state_after_progress", "int")
        ctx.assume(z3.And(v >= 0, v <= 2))
        autosave.fs(I)["autosave.dat"] = v
        ctx.ghost["progress_calls"] = ctx.ghost.get("progress_calls", 0) + 1
        return None

    def permute_model(I, self, results, permute):
        I.ctx.ghost["permute_call"] = (self, results, permute)
        out = Opaque("permuted_results")
        I.ctx.ghost["permute_out"] = out
        return out
    reg.policies[f"{IMPL}:MPSBackendImpl.progress"] = progress_model
    reg.policies[f"{IMPL}:MPSBackendImpl.permute_results"] = permute_model
    reg.policies[f"{IMPL}:MPSBackendImpl.is_finished"] = lambda I, self: I.ctx.fresh("finished", "bool")

    # crash points inside _run are not the subject here: silence the per-effect obligations
    def quiet_effect(I, op):
        I.ctx.ghost["fs_effects"] = I.ctx.ghost.get("fs_effects", 0) + 1
    reg.hooks["c26_quiet"] = quiet_effect

    G = reg.ghost_funcs
    G["permuted_with"] = lambda I: I.ctx.ghost.get("permute_call", (None, None, None))[2]
    G["permute_input"] = lambda I: I.ctx.ghost.get("permute_call", (None, None, None))[1]
    G["permute_output"] = lambda I: I.ctx.ghost.get("permute_out")
    G["was_permuted"] = lambda I: "permute_call" in I.ctx.ghost

    reg.add_contract(Contract(
        f"{BACKEND}:MPSBackend._run", property=prop,
        params={"impl": impl_obj}, setup=fs_setup,
        loops={0: dict(invariant=[])},
        returns="opaque",
        ensures=["result is impl.results",
                 # the advertised autosave file is gone when the run finishes normally
                 "fs_state('autosave.dat') == 0"],
    ))

    def run_model(I, impl):
        I.ctx.ghost["run_calls"] = I.ctx.ghost.get("run_calls", 0) + 1
        I.ctx.ghost["run_autosave_file"] = impl.fields["autosave_file"]
        I.ctx.ghost["run_result"] = impl.fields["results"]
        return impl.fields["results"]

    # ---- a normal run: post-processing of the results -----------------------------------------
    def create_impl_model(I, data, config):
        o = impl_obj(I)
        o.fields["config"] = config
        I.ctx.ghost["impl"] = o
        return o
    reg.add_contract(Contract(
        f"{BACKEND}:MPSBackend._run_from_sequence_data", property=prop,
        params={"sequence_data": "opaque", "config": lambda I, n: cfgc.mps_config_obj(I, n)},
        policies={f"{IMPL}:create_impl": create_impl_model, f"{BACKEND}:MPSBackend._run": run_model,
                  f"{IMPL}:MPSBackendImpl.init": lambda I, self, *a: None},
        ensures=["was_permuted()", "permute_input() is impl_results()",
                 "permuted_with() == config.optimize_qubit_ordering", "result is permute_output()"],
    ))
    G["impl_results"] = lambda I: I.ctx.ghost["run_result"]

    # ---- resume: the same post-processing ---------------------------------------------------------
    def pickle_load(I, f):
        o = impl_obj(I)
        # the snapshot carries the path the crashed process wrote to; the file may have been moved, renamed or copied
        # since, so it need not be the path resume() was given
        o.fields["autosave_file"] = autosave.PathV("recorded-by-the-crashed-process.dat")
        I.ctx.ghost["impl"] = o
        return o

    def setup_resume(I, fr):
        fs_setup(I, fr)
        I.ctx.assume(autosave.fs(I)["autosave.dat"] == autosave.COMPLETE)     # resuming from a complete snapshot

    reg.add_contract(Contract(
        f"{BACKEND}:MPSBackend.resume", property=prop,
        params={"autosave_file": lambda I, n: autosave.PathV("autosave.dat")}, setup=setup_resume,
        policies={f"{BACKEND}:MPSBackend._run": run_model},
        raises={"ValueError": "False"},
        ensures=[
            # results of a resumed run go through exactly the post-processing of a normal run
            "was_permuted()", "permute_input() is impl_results()",
            "permuted_with() == loaded_impl().config.optimize_qubit_ordering",
            "result is permute_output()",
            # the continued run advertises -- and on completion removes -- the file it was resumed from, not the path
            # recorded in the snapshot (seed C26-e)
            "same_path(run_autosave_file(), autosave_file)",
        ],
    ))
    G["run_autosave_file"] = lambda I: I.ctx.ghost["run_autosave_file"]
    G["same_path"] = lambda I, a, b: isinstance(a, autosave.PathV) and isinstance(b, autosave.PathV) and a.name == b.name
    G["loaded_impl"] = lambda I: I.ctx.ghost["impl"]
    reg.external["pickle.load"] = pickle_load

    # crash points are C27's subject; here os.remove just deletes (no per-effect obligations)
    def remove_quiet(I, a, *x, **k):
        from pyvc.interp import RaiseSig
        st = autosave.fs(I)
        if I.ctx.branch(st[a.name] == autosave.ABSENT):
            raise RaiseSig("FileNotFoundError", a.name, I.ctx.cur_line)
        st[a.name] = z3.IntVal(autosave.ABSENT)
        return None
    reg.external["os.remove"] = remove_quiet
    reg.external["os.unlink"] = remove_quiet
    reg.external["builtins.open"] = lambda I, path, mode="r", *a, **k: autosave.FileV(path)
