"""C18: quantum-jump stepping of NoisyMPSBackendImpl and the sweep state machine of
MPSBackendImpl.progress (emu_mps/mps_backend_impl.py).  The state norm is an arbitrary function of
a ghost state version ("however the norm evolves"); evolution kernels, baths and update_H are
models that only record what was asked of them."""
import z3

from pyvc import ops
from pyvc.registry import Contract
from pyvc.values import EnumV, Opaque, SymObj, to_z3

from . import brents, common, config as cfgc

IMPL = "emu_mps.mps_backend_impl"


def _times(I):
    T = common.sym_seq(I, "target_times", sort="real")
    return T


def _state(I):
    """MPS whose norm is a function of a ghost version counter (changes when the state is evolved,
    jumped or rescaled; stable between two reads otherwise)."""
    ctx = I.ctx
    st = SymObj("MPS", None)
    nf = z3.Function(ctx.fresh_name("norm_of_version"), z3.IntSort(), z3.RealSort())
    st.fields["_version"] = 0

    def norm(I2):
        v = nf(to_z3(st.fields["_version"]))
        I2.ctx.assume(v >= 0)
        return v
    st.fields["norm"] = norm
    st.fields["orthogonality_center"] = 0
    st.fields["num_sites"] = ctx.fresh("num_sites", "int")
    st.fields["factors"] = Opaque("factors")
    return st


def noisy_impl(I, with_root_finder):
    ctx = I.ctx
    o = SymObj("NoisyMPSBackendImpl", IMPL)
    T = _times(I)
    idx = ctx.fresh("_timestep_index", "int")
    cnt = ctx.fresh("timestep_count", "int")
    ctx.assume(z3.And(idx >= 0, idx < cnt, to_z3(T.length) == cnt + 1))
    o.fields.update(
        target_times=T, _timestep_index=idx, timestep_count=cnt,
        current_time=ctx.fresh("current_time", "real"), target_time=ctx.fresh("target_time", "real"),
        norm_gap_before_jump=ctx.fresh("norm_gap_before_jump", "real"),
        jump_threshold=ctx.fresh("jump_threshold", "real"),
        state=_state(I), lindblad_ops=Opaque("lindblad_ops"),
        aggregated_lindblad_ops=Opaque("agg"), config=cfgc.mps_config_obj(I, "config"))
    if with_root_finder:
        o.fields["root_finder"] = I.reg.make_object(I, "BrentsRootFinder", "rf")
    else:
        o.fields["root_finder"] = None
    return o


def register(reg, prop="C18"):
    brents.register(reg, prop)
    cfgc.register(reg, prop)
    G = reg.ghost_funcs

    def log(I, what, **kw):
        I.ctx.ghost.setdefault("events", []).append((what, kw))

    def timestep_complete_model(I, self):
        # MPSBackendImpl.timestep_complete (verified under C14): observables are recorded for the
        # current time, the index advances by one, the next target is the end of the next step
        log(I, "timestep_complete", at=self.fields["current_time"], index=self.fields["_timestep_index"])
        self.fields["_timestep_index"] = ops.add(self.fields["_timestep_index"], 1)
        I.ctx.log_write(self.oid, "_timestep_index")
        nxt = I.ctx.fresh("next_target", "real")
        T = self.fields["target_times"]
        i = self.fields["_timestep_index"]
        I.ctx.assume(z3.Implies(to_z3(i) < to_z3(self.fields["timestep_count"]), nxt == to_z3(T.fn(ops.add(i, 1)))))
        self.fields["target_time"] = nxt
        I.ctx.log_write(self.oid, "target_time")
        return None

    def jump_model(I, self):
        # do_random_quantum_jump: applies one jump operator, renormalises, re-draws the threshold
        log(I, "jump", at=self.fields["current_time"])
        st = self.fields["state"]
        st.fields["_version"] = ops.add(st.fields["_version"], 1)
        g = I.ctx.fresh("gap_after_jump", "real")
        I.ctx.assume(g >= 0)           # set_jump_threshold: threshold <= norm^2 (verified separately)
        self.fields["norm_gap_before_jump"] = g
        self.fields["jump_threshold"] = I.ctx.fresh("threshold_after_jump", "real")
        return None

    reg.policies[f"{IMPL}:NoisyMPSBackendImpl.timestep_complete"] = timestep_complete_model
    reg.policies[f"{IMPL}:NoisyMPSBackendImpl.do_random_quantum_jump"] = jump_model
    G["n_events"] = lambda I, kind: sum(1 for (k, _) in I.ctx.ghost.get("events", []) if k == kind)
    G["event_time"] = lambda I, kind: [kw["at"] for (k, kw) in I.ctx.ghost.get("events", []) if k == kind][0]
    G["T"] = lambda I, obj, k: obj.fields["target_times"].fn(k)

    step_window = [
        # the step being simulated is [T[idx], T[idx+1]] and the simulation is inside it
        "T(self, self._timestep_index) <= self.current_time",
        "self.current_time < self.target_time",
        "self.target_time <= T(self, self._timestep_index + 1)",
    ]

    # ---- no root search in progress ---------------------------------------------------------------
    reg.add_contract(Contract(
        f"{IMPL}:NoisyMPSBackendImpl.sweep_complete", property=prop,
        label="NoisyMPSBackendImpl.sweep_complete[no search]",
        params={"self": lambda I, n: noisy_impl(I, False)},
        requires=step_window + [
            "self.target_time == T(self, self._timestep_index + 1)",
            "self.norm_gap_before_jump >= 0",        # the norm was above the threshold when last looked at
        ],
        raises={},
        ensures=[
            "self.current_time == old(self.target_time)",
            # either the step is complete (once), or a root search for the crossing starts in this step
            "(self.root_finder is None and n_events('timestep_complete') == 1 and n_events('jump') == 0"
            " and self.norm_gap_before_jump >= 0 and event_time('timestep_complete') == old(self.target_time))"
            " or (self.root_finder is not None and n_events('timestep_complete') == 0 and n_events('jump') == 0)",
            "implies(self.root_finder is not None, inv(self.root_finder) and self.root_finder.a != self.root_finder.b"
            " and min(self.root_finder.a, self.root_finder.b) == old(self.current_time)"
            " and max(self.root_finder.a, self.root_finder.b) == old(self.target_time)"
            " and self.root_finder.next_abscissa is not None and self.target_time == self.root_finder.next_abscissa"
            " and old(self.current_time) <= self.target_time and self.target_time <= old(self.target_time)"
            " and self._timestep_index == old(self._timestep_index))",
        ],
    ), callsite=False)

    # ---- root search in progress ------------------------------------------------------------------
    rf_pre = [
        "inv(self.root_finder)", "self.root_finder.a != self.root_finder.b",
        "self.root_finder.next_abscissa is not None", "self.target_time == self.root_finder.next_abscissa",
        "min(self.root_finder.a, self.root_finder.b) <= self.target_time",
        "self.target_time <= max(self.root_finder.a, self.root_finder.b)",
        "implies(self.root_finder.fb == 0, self.target_time == self.root_finder.b)",
        "T(self, self._timestep_index) <= min(self.root_finder.a, self.root_finder.b)",
        "max(self.root_finder.a, self.root_finder.b) <= T(self, self._timestep_index + 1)",
    ]
    reg.add_contract(Contract(
        f"{IMPL}:NoisyMPSBackendImpl.sweep_complete", property=prop,
        label="NoisyMPSBackendImpl.sweep_complete[search]",
        params={"self": lambda I, n: noisy_impl(I, True)},
        setup=lambda I, fr: fr.locals.__setitem__("RF", fr.locals["self"].fields["root_finder"]),
        requires=rf_pre,
        raises={},
        ensures=[
            "self.current_time == old(self.target_time)",
            "self._timestep_index == old(self._timestep_index) and n_events('timestep_complete') == 0",
            # a jump is applied only once the bracket is narrower than 1 ns, at an end of a bracket inside
            # the current step whose observed gaps have opposite (or zero) sign
            "implies(n_events('jump') == 1, self.root_finder is None and abs(RF.b - RF.a) < 1"
            " and (event_time('jump') == RF.a or event_time('jump') == RF.b) and RF.fa * RF.fb <= 0"
            " and T(self, self._timestep_index) <= min(RF.a, RF.b)"
            " and max(RF.a, RF.b) <= T(self, self._timestep_index + 1)"
            " and self.target_time == T(self, self._timestep_index + 1) and self.norm_gap_before_jump >= 0)",
            "n_events('jump') <= 1",
            # otherwise the search goes on with a nested bracket and a next abscissa inside it
            "implies(n_events('jump') == 0, self.root_finder is RF and inv(RF) and RF.a != RF.b"
            " and RF.next_abscissa is not None and self.target_time == RF.next_abscissa"
            " and min(RF.a, RF.b) <= self.target_time and self.target_time <= max(RF.a, RF.b)"
            " and implies(RF.fb == 0, self.target_time == RF.b)"
            " and T(self, self._timestep_index) <= min(RF.a, RF.b)"
            " and max(RF.a, RF.b) <= T(self, self._timestep_index + 1))",
        ],
    ), callsite=False)

    # ---- set_jump_threshold: the new gap is never negative ------------------------------------------
    def uniform(I, lo, hi):
        r = I.ctx.fresh("uniform", "real")
        I.ctx.assume(z3.And(r >= to_z3(lo), r <= to_z3(hi)))
        return r
    reg.external["random.uniform"] = uniform
    reg.add_contract(Contract(
        f"{IMPL}:NoisyMPSBackendImpl.set_jump_threshold", property=prop,
        params={"self": lambda I, n: noisy_impl(I, False), "bound": "real"},
        requires=["bound >= 0", "bound <= self.state.norm() * self.state.norm()"],
        ensures=["0 <= self.jump_threshold and self.jump_threshold <= bound", "self.norm_gap_before_jump >= 0"],
    ))
