"""Floating-point side obligations for PCHIP (C20): BOUNDED, concrete native execution (real torch).

The proof in contracts/pchip.py is over the reals (A1), where e.g. the weighted harmonic mean
(w_l + w_r) / (w_l / d_l + w_r / d_r) and (w_l + w_r) d_l d_r / (w_l d_r + w_r d_l) are the same
function.  In floats the second overflows for large secants.  replay/c20_fp.py runs the real module
on a handful of data sets scaled by powers of two across the exponent range of float64 and float32
and checks: finite, homogeneous (P[c y]/c == P[y]), knots reproduced."""
import json
import os
import subprocess
import time

VERIF = os.path.dirname(os.path.dirname(os.path.abspath(__file__)))


def run(prop, tier, repo_root):
    t0 = time.time()
    label = "PCHIP1D[float]"
    func = f"{prop}/{label}"
    rep = {"target": "emu_base.math.pchip_torch:PCHIP1D", "label": label, "paths": 0, "error": None, "crash": None,
           "obligations": [], "assumptions": [], "stats": {}, "span": None, "sha256": None, "wall_s": 0, "outcomes": {},
           "contract": None, "file": os.path.join(repo_root, "emu_base", "math", "pchip_torch.py")}
    try:
        env = dict(os.environ, PYTHONPATH=repo_root, PYTHONDONTWRITEBYTECODE="1", OMP_NUM_THREADS="2")
        p = subprocess.run(["/venv/bin/python", os.path.join(VERIF, "replay", "c20_fp.py"), repo_root, tier],
                           capture_output=True, text=True, timeout=900, env=env, cwd=repo_root)
        line = [l for l in p.stdout.splitlines() if l.startswith("C20FP ")]
        if not line:
            raise RuntimeError("native float run produced no result:\n" + (p.stdout + p.stderr)[-1500:])
        out = json.loads(line[-1][6:])
        rep["paths"] = out["runs"]
        if out["runs"] == 0:
            raise RuntimeError("no floating-point case was run (vacuity guard)")
        for cl in out["clauses"]:
            bad = out["fails"].get(cl)
            nat = None
            if bad:
                nat = {"cmd": f"/venv/bin/python replay/c20_fp.py {repo_root} {tier}", "exit": 1, "reproduced": True,
                       "stdout": f"REPRODUCED: {bad}"}
            rep["obligations"].append({
                "name": f"{func}/fp/{cl}", "kind": "bounded-float", "status": "failed" if bad else "discharged",
                "backend": "native-ieee754(torch)", "time_s": 0.0, "model": bad, "lineno": 1, "func": func, "path": [],
                "note": f"{out['runs']} native runs (data sets x 2**k scalings x float64/float32)", "known": None,
                **({"native_replay": nat} if nat else {})})
    except Exception:
        import traceback
        rep["crash"] = traceback.format_exc()
    rep["wall_s"] = round(time.time() - t0, 2)
    return [rep]
