"""Contracts for configuration safeguards and rejections (C33, C04)."""
from fractions import Fraction

import z3

from pyvc.registry import Contract
from pyvc.values import EnumV, Inf, Opaque, SymObj, SymSeq, to_z3

from . import common

CFG = "emu_mps.mps_config"
IMPL = "emu_mps.mps_backend_impl"
SVIMPL = "emu_sv.sv_backend_impl"
JUMP = "emu_base.jump_lindblad_operators"
ADAPTER = "emu_base.pulser_adapter"

ALLOWED_TAGS = ["bitstrings", "occupation", "correlation_matrix", "statistics", "energy",
                "energy_variance", "energy_second_moment"]


def observables_seq(I, name="observables"):
    """Arbitrarily many observables, each with an arbitrary tag."""
    tag = z3.Function(I.ctx.fresh_name("tag"), z3.IntSort(), z3.StringSort())

    def elem(k):
        o = SymObj("Observable", None)
        o.fields["_base_tag"] = tag(to_z3(k))
        o.fields["evaluation_times"] = Opaque(f"obs[{k}].evaluation_times")
        return o
    return common.sym_seq(I, name, elem)


def mps_config_obj(I, name="config", with_options=True):
    """An MPSConfig whose options are arbitrary (the base class keeps them in _backend_options
    and serves attribute reads from there: A5)."""
    ctx = I.ctx
    o = SymObj("MPSConfig", CFG)
    if with_options:
        opts = {
            "dt": ctx.fresh("dt", "real"), "precision": ctx.fresh("precision", "real"),
            "max_bond_dim": ctx.fresh("max_bond_dim", "int"),
            "max_krylov_dim": ctx.fresh("max_krylov_dim", "int"),
            "extra_krylov_tolerance": ctx.fresh("extra_krylov_tolerance", "real"),
            "optimize_qubit_ordering": ctx.fresh("optimize_qubit_ordering", "bool"),
            "interaction_cutoff": ctx.fresh("interaction_cutoff", "real"),
            "autosave_dt": ctx.fresh("autosave_dt", "real"),
            "autosave_prefix": "emu_mps_save_",
            "solver": EnumV("Solver", common._enum_member(I, "solver", ["TDVP", "DMRG"])),
            "observables": observables_seq(I),
            "noise_model": noise_model_obj(I),
            "num_gpus_to_use": None, "log_level": 20, "log_file": None,
            "initial_state": None,
        }
        o.fields["_backend_options"] = opts
    return o


def noise_model_obj(I, name="noise_model", eff=None):
    nm = SymObj("NoiseModel", None)
    nm.fields["noise_types"] = common.sym_seq(I, name + ".noise_types")
    nm.fields["noise_types"].kind = "tuple"
    for f in ("relaxation_rate", "dephasing_rate", "hyperfine_dephasing_rate", "depolarizing_rate",
              "state_prep_error"):
        nm.fields[f] = I.ctx.fresh(f"{name}.{f}", "real")
    nm.fields["runs"] = Opaque(name + ".runs")
    nm.fields["samples_per_run"] = Opaque(name + ".samples_per_run")
    nm.fields["eff_noise_opers"] = Opaque(name + ".eff_noise_opers") if eff is None else eff[0]
    nm.fields["eff_noise_rates"] = Opaque(name + ".eff_noise_rates") if eff is None else eff[1]
    return nm


def base_config_init(I, self, **kw):
    """Model of pulser.backend.EmulationConfig.__init__ (A4/A5): every keyword is stored in
    self._backend_options; `observables` and `noise_model` default to arbitrary values."""
    opts = dict(kw)
    if isinstance(opts.get("backend_options"), dict):
        # deprecated pulser keyword: a dict whose entries override the keyword options
        opts.update(opts["backend_options"])
    opts.setdefault("observables", observables_seq(I))
    opts.setdefault("noise_model", noise_model_obj(I))
    opts.setdefault("initial_state", None)
    self.fields["_backend_options"] = opts
    I.session.note("pulser EmulationConfig.__init__ modelled: stores every keyword in _backend_options; "
                   "attribute reads are served from it")
    return None


def register(reg, prop="C33"):
    common.register_enums(reg)
    reg.add_class("MPSConfig", module=CFG, getattr_dict="_backend_options", fields={})
    reg.add_class("Observable", module=None, fields={})
    reg.add_class("NoiseModel", module=None, fields={})
    reg.external["pulser.backend.EmulationConfig.__init__"] = base_config_init
    reg.ghost_funcs["ALLOWED_TAGS"] = list(ALLOWED_TAGS)
    reg.ghost_funcs["opt"] = lambda I, cfg, k: cfg.fields["_backend_options"][k]

    # ---- MPSConfig.check_permutable_observables --------------------------------------
    reg.add_contract(Contract(
        f"{CFG}:MPSConfig.check_permutable_observables", property=prop,
        params={"self": lambda I, n: mps_config_obj(I, n)},
        returns="bool",
        ensures=[
            # any observable whose tag is not in the un-permutable whitelist forces False
            "forall(lambda k: implies(self.observables[k]._base_tag not in ALLOWED_TAGS, not result),"
            " 0, len(self.observables))"],
    ))

    # ---- MPSConfig.__init__ -----------------------------------------------------------
    def legacy_options(I, n):
        """the deprecated `backend_options={...}` keyword of pulser's BackendConfig: a dict whose
        entries override the keyword options after MPSConfig took its own arguments"""
        return {"backend_options": {"precision": I.ctx.fresh("bo.precision", "real"),
                                    "extra_krylov_tolerance": I.ctx.fresh("bo.extra_krylov_tolerance", "real"),
                                    "autosave_dt": I.ctx.fresh("bo.autosave_dt", "real")}}

    def init_params(variant):
        return {
            "self": lambda I, n: mps_config_obj(I, n, with_options=False),
            "dt": "real", "precision": "real", "max_bond_dim": "int", "max_krylov_dim": "int",
            "extra_krylov_tolerance": "real", "num_gpus_to_use": "int?",
            "optimize_qubit_ordering": "bool", "interaction_cutoff": "real", "log_level": "int",
            "log_file": "opaque", "autosave_prefix": "str",
            "autosave_dt": (lambda I, n: Inf(1)) if variant == "inf" else "real",
            "solver": lambda I, n: EnumV("Solver", common._enum_member(I, "solver", ["TDVP", "DMRG"])),
            "kwargs": legacy_options if variant == "legacy" else (lambda I, n: {}),
        }
    safeguards = [
        # safeguard 1: an autosave interval of 10 s or less never yields a configuration
        "opt(self, 'autosave_dt') > 10",
        # safeguard 2: the effective Krylov tolerance (of the options actually stored) is >= 1e-12
        "implies(opt(self, 'precision') > 0,"
        " opt(self, 'precision') * opt(self, 'extra_krylov_tolerance') >= 1e-12)",
        # safeguard 3: reordering is off whenever an observable outside the whitelist is requested
        "forall(lambda k: implies(self.observables[k]._base_tag not in ALLOWED_TAGS,"
        " not opt(self, 'optimize_qubit_ordering')), 0, len(self.observables))",
        "implies(not optimize_qubit_ordering, not opt(self, 'optimize_qubit_ordering'))",
    ]
    plain = [
        "implies(precision * extra_krylov_tolerance >= 1e-12,"
        " opt(self, 'extra_krylov_tolerance') == extra_krylov_tolerance)",
        # the other options are stored as given
        "opt(self, 'precision') == precision and opt(self, 'dt') == dt",
        "opt(self, 'max_bond_dim') == max_bond_dim and opt(self, 'solver') == solver",
    ]
    for variant in ("", "inf", "legacy"):
        reg.add_contract(Contract(
            f"{CFG}:MPSConfig.__init__", property=prop,
            label="MPSConfig.__init__" + {"": "", "inf": "[autosave_dt=inf]",
                                          "legacy": "[backend_options dict]"}[variant],
            params=init_params(variant),
            requires=[],
            raises={"AssertionError": None, "ZeroDivisionError": None} if variant == "legacy" else
                   {"AssertionError": "not (autosave_dt > 10)", "ZeroDivisionError": "precision == 0"},
            raises_when={"AssertionError": "not (autosave_dt > 10)"} if variant == "" else {},
            policies={f"{CFG}:MPSConfig.monkeypatch_observables": _monkeypatch_model},
            ensures=safeguards + (plain if variant != "legacy" else []),
        ), callsite=(variant == ""))

    # ---- create_impl / DMRGBackendImpl.__init__ ----------------------------------------
    reg.add_contract(Contract(
        f"{IMPL}:DMRGBackendImpl.__init__", property=prop,
        params={"self": lambda I, n: SymObj("DMRGBackendImpl", IMPL),
                "mps_config": lambda I, n: mps_config_obj(I, n),
                "pulser_data": lambda I, n: common.sequence_data(I, n),
                "energy_tolerance": "real", "max_sweeps": "int"},
        # the DMRG solver refuses noise models with noise
        raises={"NotImplementedError": "len(mps_config.noise_model.noise_types) != 0"},
        raises_when={"NotImplementedError": "len(mps_config.noise_model.noise_types) != 0"},
        ensures=["len(mps_config.noise_model.noise_types) == 0"],
    ))
    reg.add_contract(Contract(
        f"{IMPL}:create_impl", property=prop,
        params={"data": lambda I, n: common.sequence_data(I, n),
                "config": lambda I, n: mps_config_obj(I, n)},
        # A4 (PulserData): Lindblad operators exist only for noise types of the noise model
        requires=["implies(len(data.lindblad_ops) > 0, len(config.noise_model.noise_types) != 0)"],
        raises={"NotImplementedError": "config.solver == DMRG and len(config.noise_model.noise_types) != 0"},
        raises_when={"NotImplementedError":
                     "config.solver == DMRG and len(config.noise_model.noise_types) != 0"},
        policies={f"{IMPL}:NoisyMPSBackendImpl.__init__": "opaque",
                  f"{IMPL}:MPSBackendImpl.__init__": "opaque"},
        ensures=["implies(config.solver == DMRG, cls_of(result) == 'DMRGBackendImpl')",
                 "implies(config.solver != DMRG and len(data.lindblad_ops) > 0,"
                 " cls_of(result) == 'NoisyMPSBackendImpl')",
                 "implies(config.solver != DMRG and len(data.lindblad_ops) == 0,"
                 " cls_of(result) == 'MPSBackendImpl')"],
    ))

    # ---- emu-sv: reject what it cannot emulate ------------------------------------------
    reg.add_class("SVConfig", module="emu_sv.sv_config", getattr_dict="_backend_options", fields={})

    def sv_config(I, n):
        o = SymObj("SVConfig", "emu_sv.sv_config")
        o.fields["_backend_options"] = {
            "gpu": None, "initial_state": None, "krylov_tolerance": I.ctx.fresh("krylov_tolerance", "real"),
            "observables": observables_seq(I), "dt": I.ctx.fresh("dt", "real")}
        return o
    reg.add_contract(Contract(
        "emu_sv.sv_backend:SVBackend._run_from_sequence_data", property=prop,
        params={"config": sv_config, "sequence_data": lambda I, n: common.sequence_data(I, n)},
        raises={"NotImplementedError": "sequence_data.hamiltonian_type != RYDBERG or sequence_data.dim != 2"},
        # results are produced only for what emu-sv implements: ground-rydberg (Ising)
        # interaction and two levels per atom (no leakage); anything else raises first
        ensures=["sequence_data.hamiltonian_type == RYDBERG", "sequence_data.dim == 2"],
    ))

    # ---- noise channels: unsupported ones raise ------------------------------------------
    reg.add_contract(Contract(
        f"{JUMP}:get_lindblad_operators", property=prop, label="get_lindblad_operators[raises]",
        params={"noise_type": "str", "noise_model": lambda I, n: noise_model_obj(I, n, eff=([], [])),
                "interact_type": "str", "dim": lambda I, n: 2},
        requires=[],
        raises={"NotImplementedError": "noise_type == 'dephasing' and noise_model.hyperfine_dephasing_rate != 0",
                "ValueError": None, "AssertionError": None},
        raises_when={},
        returns="opaque",
        ensures=["noise_type in ['relaxation', 'dephasing', 'depolarizing', 'eff_noise', 'leakage']",
                 "implies(noise_type == 'dephasing', noise_model.hyperfine_dephasing_rate == 0)"],
    ))


def register_pulser_data(reg, prop):
    """PulserData.__init__: an interaction type the emulators do not implement never yields data."""
    def from_sequence(I, *a, **k):
        I.ctx.ghost["from_sequence_args"] = (a, dict(k))
        h = SymObj("HamiltonianData", None)
        b = SymObj("BasisData", None)
        b.fields["interaction_type"] = I.ctx.fresh("interaction_type", "str")
        b.fields["dim"] = I.ctx.fresh("dim", "int")
        b.fields["eigenbasis"] = common.sym_seq(I, "eigenbasis")
        h.fields["basis_data"] = b
        h.fields["noisy_samples"] = Opaque("noisy_samples")
        I.session.note("pulser HamiltonianData.from_sequence modelled: returns an object whose "
                       "basis_data.interaction_type is an arbitrary string")
        return h
    reg.external["pulser._hamiltonian_data.HamiltonianData.from_sequence"] = from_sequence
    reg.add_class("PulserData", module=ADAPTER, fields={}, open=True)
    reg.add_class("HamiltonianData", module=None, fields={})
    reg.add_class("BasisData", module=None, fields={})
    reg.add_contract(Contract(
        f"{ADAPTER}:PulserData.__init__", property=prop,
        params={"self": lambda I, n: SymObj("PulserData", ADAPTER), "sequence": "opaque",
                "config": "opaque", "dt": "real"},
        raises={"ValueError": None, "AssertionError": None},
        ensures=["self.hamiltonian.basis_data.interaction_type in ['ising', 'XY']",
                 "implies(self.hamiltonian.basis_data.interaction_type == 'ising', self.hamiltonian_type == RYDBERG)",
                 "implies(self.hamiltonian.basis_data.interaction_type == 'XY', self.hamiltonian_type == XY)",
                 "self.dim == self.hamiltonian.basis_data.dim",
                 # pulser is asked for exactly the configured number of noise trajectories, for the configured
                 # modulation setting and the noise model the emulation uses (C34: sum of reps == n_trajectories
                 # is pulser's contract for THIS argument)
                 "hd_kw('n_trajectories') is config.n_trajectories",
                 "hd_kw('with_modulation') is config.with_modulation",
                 "hd_kw('noise_model') is self.noise_model"],
        ensures_names=["interaction-type-supported", "ising-is-rydberg", "xy-is-xy", "dim-from-pulser",
                       "pulser-asked-for-the-configured-number-of-trajectories",
                       "pulser-asked-with-the-configured-modulation", "pulser-given-the-noise-model-in-use"],
    ))
    reg.ghost_funcs["hd_kw"] = lambda I, name: I.ctx.ghost["from_sequence_args"][1].get(name)


def _monkeypatch_model(I, self):
    I.session.note("MPSConfig.monkeypatch_observables modelled: replaces each observable by a deep copy "
                   "with the same _base_tag (observable tags unchanged)")
    return None
