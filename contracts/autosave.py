"""C27: crash safety of MPSBackendImpl.save_simulation over a ghost file system.

Ghost state: for each path name its state  0 = absent, 1 = partially written, 2 = complete
snapshot.  Effects (A4, POSIX single-directory-entry semantics):
  open(p, "wb")      p := partial (created / truncated)
  pickle.dump(o, f)  data reaches the open file; the file counts as complete only once closed
  close (with-exit)  p := complete if something was dumped
  os.rename(a, b) / os.replace(a, b)   b := state(a); a := absent   (atomic)
  os.remove(a)       a := absent
A crash may happen after any effect (and before the first): after EVERY effect the obligation
"the advertised file holds a complete snapshot" is generated.
"""
import z3

from pyvc.paths import NeedFork
from pyvc.registry import Contract
from pyvc.values import Opaque, SymObj, Unsupported

from . import config as cfgc

IMPL = "emu_mps.mps_backend_impl"
ABSENT, PARTIAL, COMPLETE = 0, 1, 2


class PathV:
    def __init__(self, name):
        self.name = name

    def call_method(self, I, name, args, kwargs):
        if name == "with_suffix":
            stem = self.name.rsplit(".", 1)[0]
            return PathV(stem + args[0])
        if name == "is_file":
            return fs(I)[self.name] != ABSENT
        if name in ("exists",):
            return fs(I)[self.name] != ABSENT
        if name == "stat":
            # size of the file: anything >= 0 for a partially written file (a crash inside pickle.dump leaves
            # a truncated, usually non-empty file), > 0 for a complete snapshot
            from pyvc.interp import RaiseSig
            st = fs(I)[self.name]
            if I.ctx.branch(st == ABSENT):
                raise RaiseSig("FileNotFoundError", self.name, I.ctx.cur_line)
            size = I.ctx.fresh(f"size({self.name})", "int")
            I.ctx.assume(z3.And(size >= 0, z3.Implies(st == COMPLETE, size > 0)))
            o = SymObj("stat_result", None)
            o.fields["st_size"] = size
            return o
        raise Unsupported(f"Path.{name}")


class FileV:
    def __init__(self, path):
        self.path = path
        self.dumped = False

    def call_method(self, I, name, args, kwargs):
        if name == "tell":
            return I.ctx.fresh("file_position", "int")
        if name in ("flush", "close"):
            # flush() hands the data to the OS but the file is only counted complete when closed
            # (the model is conservative: a crash with the handle still open may lose buffered data)
            _effect(I, f"{name}({self.path.name})")
            return None
        if name == "fileno":
            return I.ctx.fresh("fd", "int")
        raise Unsupported(f"file.{name}")


def fs(I):
    return I.ctx.ghost["fs"]


def _effect(I, op):
    """a crash point: the advertised name must hold a complete snapshot right now"""
    ctx = I.ctx
    if ctx.speculative:
        raise NeedFork()
    n = ctx.ghost.get("fs_effects", 0) + 1
    ctx.ghost["fs_effects"] = n
    ctx.ghost.setdefault("fs_trace", []).append(op)
    # named after the effect (not its ordinal) so that reordering does not rename obligations
    ctx.prove(f"crash-after:{op}", fs(I)["autosave.dat"] == COMPLETE, "crash-point")


def m_open(I, path, mode="r", *a, **k):
    if not isinstance(path, PathV):
        raise Unsupported("open() of a non-ghost path")
    if "w" in mode:
        fs(I)[path.name] = z3.IntVal(PARTIAL)
        _effect(I, f"open({path.name})")
    return FileV(path)


def m_dump(I, obj, fh, *a, **k):
    fh.dumped = True
    _effect(I, f"pickle.dump->{fh.path.name}")
    return None


def with_exit(I, v):
    if isinstance(v, FileV):
        if v.dumped:
            fs(I)[v.path.name] = z3.IntVal(COMPLETE)
            I.ctx.ghost["new_snapshot_at"] = v.path.name
            I.ctx.ghost.setdefault("snap", {})[v.path.name] = "new"
        _effect(I, f"close({v.path.name})")


def m_rename(I, a, b, *x, **k):
    from pyvc.interp import RaiseSig
    st = fs(I)
    if I.ctx.branch(st[a.name] == ABSENT):
        raise RaiseSig("FileNotFoundError", a.name, I.ctx.cur_line)
    st[b.name] = st[a.name]
    st[a.name] = z3.IntVal(ABSENT)
    snap = I.ctx.ghost.setdefault("snap", {})
    snap[b.name] = snap.get(a.name, "old")
    _effect(I, f"rename({a.name}->{b.name})")
    return None


def m_remove(I, a, *x, **k):
    from pyvc.interp import RaiseSig
    st = fs(I)
    if I.ctx.branch(st[a.name] == ABSENT):
        raise RaiseSig("FileNotFoundError", a.name, I.ctx.cur_line)
    st[a.name] = z3.IntVal(ABSENT)
    _effect(I, f"remove({a.name})")
    return None


def register(reg, prop="C27"):
    cfgc.register(reg, prop)
    reg.external["builtins.open"] = m_open
    reg.external["pickle.dump"] = m_dump
    reg.external["os.rename"] = m_rename
    reg.external["os.replace"] = m_rename
    reg.external["os.remove"] = m_remove
    reg.external["os.unlink"] = m_remove
    reg.external["os.path.getsize"] = lambda I, p: I.ctx.fresh("filesize", "real")
    reg.hooks["with_exit"] = with_exit

    def impl_obj(I, n):
        o = SymObj("MPSBackendImpl", IMPL)
        o.fields["last_save_time"] = I.ctx.fresh("last_save_time", "real")
        o.fields["config"] = cfgc.mps_config_obj(I, "config")
        o.fields["autosave_file"] = PathV("autosave.dat")
        return o

    def setup(I, fr):
        ctx = I.ctx
        # once the first autosave has completed: the advertised file is a complete snapshot;
        # leftovers of an earlier crashed attempt (.new/.bak) are arbitrary
        st = {"autosave.dat": z3.IntVal(COMPLETE)}
        for nm in ("autosave.new", "autosave.bak"):
            v = ctx.fresh("state(" + nm + ")", "int")
            ctx.assume(z3.And(v >= 0, v <= 2))
            st[nm] = v
        ctx.ghost["fs"] = st
        ctx.ghost["snap"] = {"autosave.dat": "old"}
        fr.locals["fs_state"] = lambda I2, nm: fs(I2)[nm]
        fr.locals["effects"] = lambda I2: I2.ctx.ghost.get("fs_effects", 0)
        fr.locals["snapshot_of"] = lambda I2, nm: I2.ctx.ghost["snap"].get(nm, "old") if True else None
        fr.locals["new_written_to"] = lambda I2: I2.ctx.ghost.get("new_snapshot_at", "")

    reg.add_contract(Contract(
        f"{IMPL}:MPSBackendImpl.save_simulation", property=prop,
        params={"self": impl_obj}, setup=setup,
        requires=[],
        raises={},
        ensures=[
            # the advertised name holds a complete snapshot on return as well
            "fs_state('autosave.dat') == 2",
            # when a save took place: no temporary is left behind and the time stamp moved
            "implies(effects() > 0, snapshot_of('autosave.dat') == 'new')",
            "implies(effects() > 0, fs_state('autosave.new') == 0)",
            "implies(effects() > 0, fs_state('autosave.bak') == 0)",
            "implies(effects() == 0, self.last_save_time == old(self.last_save_time))",
        ],
    ))


    # ---- the reader: MPSBackend.resume after a crash at ANY point of save_simulation ----------------
    # What the writer's contract guarantees at every crash point is exactly the precondition here: the
    # advertised file is a complete snapshot, the temporaries (.new, .bak) are in an arbitrary state --
    # absent, partially written (a crash inside pickle.dump leaves a truncated non-empty file) or
    # complete.  The reader must load a complete snapshot, and must not have damaged the advertised file
    # on the way (every file-system effect it performs is a crash point of its own).
    BACKEND = "emu_mps.mps_backend"

    def m_load(I, fh, *a, **k):
        if not isinstance(fh, FileV):
            raise Unsupported("pickle.load from a non-ghost file")
        I.ctx.prove("loaded-file-is-a-complete-snapshot", fs(I)[fh.path.name] == COMPLETE, "safety")
        I.ctx.ghost["loaded_from"] = fh.path.name
        o = impl_obj(I, "impl")
        o.fields["results"] = Opaque("impl.results")
        return o
    reg.external["pickle.load"] = m_load

    def run_model(I, impl):
        I.ctx.ghost["fs_at_run"] = dict(fs(I))
        return impl.fields["results"]

    def setup_reader(I, fr):
        setup(I, fr)
        fr.locals["loaded_from"] = lambda I2: I2.ctx.ghost.get("loaded_from", "")
        fr.locals["fs_at_run"] = lambda I2, nm: I2.ctx.ghost["fs_at_run"][nm]
    reg.add_contract(Contract(
        f"{BACKEND}:MPSBackend.resume", property=prop, label="MPSBackend.resume[after a crash]",
        params={"autosave_file": lambda I, n: PathV("autosave.dat")}, setup=setup_reader,
        policies={f"{BACKEND}:MPSBackend._run": run_model,
                  f"{IMPL}:MPSBackendImpl.permute_results": lambda I, self, results, permute: results},
        raises={"ValueError": "False"},
        ensures=["loaded_from() == 'autosave.dat'",
                 # the run continues from a directory whose advertised file is still that complete snapshot
                 "fs_at_run('autosave.dat') == 2"],
        ensures_names=["snapshot-loaded-from-the-advertised-file", "advertised-file-still-complete-when-the-run-continues"],
    ), callsite=False)

