"""C25 -- the dark-site padding of emu-mps (emu_mps/utils.py: extended_mps_factors,
extended_mpo_factors) and the clause MPSBackendImpl.fill_results relies on: the padded factor list is
a valid MPS of the state's physical dimension.

Model.  The given factors are an abstract list (`SrcList`): symbolic length M, factor k has the
symbolic shape (sh_0(k), .., sh_{r-1}(k)), its entries are uninterpreted.  The list under
construction is a `GrowList`: per position its origin `src` (k = "the given factor k itself",
-1 = a tensor allocated by the function), its shape and -- for allocated tensors -- its entries
(lambda tensors of symbolic shape, built by the code's own torch.zeros / torch.eye / slice stores).
`true_before(where, j)` = number of True entries of `where` before position j (recursive ghost), so
position j is the k-th True position iff where[j] and true_before(where, j) == k.

Proved for every length N of `where`, every mask and (MPS) every physical dimension d >= 1:
  * len(result) == len(where);
  * a True position j holds the given factor number true_before(where, j) ITSELF;
  * a False position holds a newly allocated factor of physical dimension d = that of the given
    factors, equal to |0> (level index 0) (x) identity on the bond (MPO: identity on all d levels
    (x) identity on the bond);
  * consecutive bond dimensions match and both ends are 1 whenever the given list is a valid chain;
  * AssertionError iff len(factors) != number of True entries (exact), no IndexError.
The MPO variant runs with d fixed to 2 and to 3 (the loop over the levels is then unrolled; these
are the only physical dimensions emu-mps has).
"""
import itertools

import z3

from pyvc import maskidx, ops, tensor as T
from pyvc.ghost import rec_function
from pyvc.interp import RaiseSig
from pyvc.paths import NeedFork
from pyvc.registry import Contract
from pyvc.values import CplxV, ForallV, SymObj, SymSeq, Unsupported, is_z3, to_z3

UTILS = "emu_mps.utils"
_ids = itertools.count(1)
INT = z3.IntSort()


# ---------------------------------------------------------------------------------------------
# ghost: number of True entries before a position
# ---------------------------------------------------------------------------------------------
def true_before(I, where, t):
    f = rec_function(I, f"true_before@{where.name or where.tid}", 0,
                     lambda k, prev: prev + z3.If(to_z3(I.truth(where.fn(k))), 1, 0), sort="int")
    return f(I, t)


def count_mono(I, where, i, j):
    """instance of the lemma `count_monotone` (proved by induction, see lemma_count_monotone):
    0 <= i <= j  ==>  0 <= true_before(i) <= true_before(j) and true_before(i) <= i"""
    a, b = true_before(I, where, i), true_before(I, where, j)
    iz, jz = to_z3(i), to_z3(j)
    I.ctx.assume(z3.Implies(z3.And(iz >= 0, iz <= jz), z3.And(a >= 0, a <= b, a <= iz)))
    return True


def lemma_count_monotone(I, ctx):
    """0 <= i <= j ==> 0 <= c(i) <= c(j), c(i) <= i for c(0) = 0, c(t+1) = c(t) + [w(t)]:
    base case and induction step of the induction on j (the induction principle itself is the only
    meta-step taken on trust)."""
    w = z3.Function("w", INT, z3.BoolSort())
    c = z3.Function("c", INT, INT)
    i, j = ctx.fresh("i", "int"), ctx.fresh("j", "int")
    step = lambda t: c(t + 1) == c(t) + z3.If(w(t), 1, 0)
    ctx.assume(c(0) == 0)
    ctx.prove("base(i = j = 0)", z3.And(c(0) >= 0, c(0) <= c(0), c(0) <= 0), "lemma")
    ctx.assume(z3.And(i >= 0, i <= j))
    # induction hypothesis at (i, j) and at (j, j); unfold one step at j
    ctx.assume(z3.And(c(i) >= 0, c(i) <= c(j), c(i) <= i, c(j) >= 0, c(j) <= j))
    ctx.assume(step(j))
    ctx.prove("step(i <= j -> i <= j+1)", z3.And(c(i) <= c(j + 1), c(j + 1) >= 0, c(j + 1) <= j + 1), "lemma")


LEMMAS = [("count_monotone", lemma_count_monotone)]


# ---------------------------------------------------------------------------------------------
# the given list of factors
# ---------------------------------------------------------------------------------------------
class Fac(SymObj):
    """factor k of the given list (compared by origin)"""

    def __init__(self, src, k, shape):
        super().__init__("Factor", None)
        self.src, self.k = src, k
        self.fields["shape"] = tuple(shape)
        self.fields["ndim"] = len(shape)


class SrcList:
    def __init__(self, I, name, rank, d=None):
        ctx = I.ctx
        self.name, self.rank, self.d = name, rank, d
        self.oid = ("srclist", next(_ids))
        self.M = ctx.fresh(f"len_{name}", "int")
        ctx.assume(self.M >= 0)
        self.sh = [z3.Function(ctx.fresh_name(f"{name}.shape{ax}"), INT, INT) for ax in range(rank)]
        self.E = z3.Function(ctx.fresh_name(f"{name}.re"), *([INT] * (rank + 1)), z3.RealSort())
        self.EI = z3.Function(ctx.fresh_name(f"{name}.im"), *([INT] * (rank + 1)), z3.RealSort())
        self._seen = set()

    @property
    def length(self):
        return self.M

    def truth(self, I):
        return self.M > 0

    def snapshot(self, memo):
        return self                   # never written

    def shape_at(self, I, k, ax):
        if self.d is not None and 1 <= ax <= self.rank - 2:
            return self.d             # physical legs of a fixed dimension
        kz = to_z3(k)
        I.saw_read(self.sh[ax].name(), (kz,))
        v = self.sh[ax](kz)
        key = (ax, str(kz))
        if key not in self._seen:
            self._seen.add(key)
            I.ctx.assume(v >= 1)
        return v

    def getitem(self, I, idx):
        ctx = I.ctx
        if isinstance(idx, T.LamTensor) and idx.ndim == 0:
            idx = idx.fn()
        if isinstance(idx, bool):
            idx = int(idx)
        if not (isinstance(idx, int) or (is_z3(idx) and z3.is_int(idx))):
            raise Unsupported(f"index of kind {type(idx).__name__} into the given factor list")
        iz = to_z3(idx)
        inb = z3.And(iz >= -self.M, iz < self.M)
        if ctx.speculative and not ctx.entails(inb):
            raise NeedFork()          # the bounds check needs a fork: not a pure term
        if True:
            if not ctx.speculative and not ctx.branch(inb):
                raise RaiseSig("IndexError", "list index out of range", ctx.cur_line)
            if isinstance(idx, int) and idx < 0:
                k = z3.simplify(self.M + idx)
            elif ctx.entails(iz >= 0):
                k = idx
            else:
                k = z3.If(iz < 0, iz + self.M, iz)
        return Fac(self, k, [self.shape_at(I, k, ax) for ax in range(self.rank)])

    def entry(self, I, k, idx, imag=False):
        f = self.EI if imag else self.E
        args = tuple(to_z3(x) for x in (k,) + tuple(idx))
        I.saw_read(f.name(), args)
        return f(*args)

    def same_shapes(self, I):
        """a new list with the shapes of this one (entries unconstrained)"""
        import copy
        c = copy.copy(self)
        c.oid = ("srclist", next(_ids))
        c.E = z3.Function(I.ctx.fresh_name(f"{self.name}.re"), *([INT] * (self.rank + 1)), z3.RealSort())
        c.EI = z3.Function(I.ctx.fresh_name(f"{self.name}.im"), *([INT] * (self.rank + 1)), z3.RealSort())
        return c


# ---------------------------------------------------------------------------------------------
# the list under construction
# ---------------------------------------------------------------------------------------------
def _el_src(v):
    if isinstance(v, Fac):
        return v.k
    if isinstance(v, T.LamTensor):
        return -1
    raise Unsupported(f"a {type(v).__name__} in the padded factor list")


def _el_shape(v, ax):
    if isinstance(v, Fac):
        return v.fields["shape"][ax]
    return v.shape[ax]


def _el_entry(I, v, idx, imag):
    if isinstance(v, Fac):
        return v.src.entry(I, v.k, idx, imag)
    c = CplxV.of(v.fn(*idx))
    return c.im if imag else c.re


class GrowList:
    """python list built by appends in a loop of symbolic length: a base of symbolic length n (state at
    the loop head) plus the values appended since"""

    def __init__(self, I, name, rank):
        ctx = I.ctx
        self.name, self.rank = name, rank
        self.oid = ("growlist", next(_ids))
        self.n = ctx.fresh(f"len_{name}", "int")
        ctx.assume(self.n >= 0)
        self.SRC = z3.Function(ctx.fresh_name(f"{name}.src"), INT, INT)
        self.SH = [z3.Function(ctx.fresh_name(f"{name}.shape{ax}"), INT, INT) for ax in range(rank)]
        self.E = z3.Function(ctx.fresh_name(f"{name}.re"), *([INT] * (rank + 1)), z3.RealSort())
        self.EI = z3.Function(ctx.fresh_name(f"{name}.im"), *([INT] * (rank + 1)), z3.RealSort())
        self.over = []                # values appended since the loop head, in order

    @property
    def length(self):
        return ops.add(self.n, len(self.over))

    def truth(self, I):
        return to_z3(self.length) > 0

    def havoc(self, I, name):
        return GrowList(I, name, self.rank)

    def snapshot(self, memo):
        return self

    def call_method(self, I, name, args, kwargs):
        if name != "append" or len(args) != 1 or kwargs:
            raise Unsupported(f"list method .{name}() on the padded factor list")
        if I.ctx.speculative:
            raise NeedFork()
        v = args[0]
        _el_src(v)                    # kind check
        if isinstance(v, T.LamTensor):
            v = v.copy()              # the list holds the tensor as it is now
        self.over.append(v)
        return None

    def getitem(self, I, idx):
        raise Unsupported("the padded factor list is read through its ghost accessors only")

    def prop(self, I, j, base, of_value):
        jz = to_z3(j)
        out = base(jz)
        for off, v in reversed(list(enumerate(self.over))):
            out = ops.ite(jz == to_z3(ops.add(self.n, off)), of_value(v), out)
        return out

    def src(self, I, j):
        def base(jz):
            I.saw_read(self.SRC.name(), (jz,))
            return self.SRC(jz)
        return self.prop(I, j, base, _el_src)

    def shape(self, I, j, ax):
        def base(jz):
            I.saw_read(self.SH[ax].name(), (jz,))
            return self.SH[ax](jz)
        return self.prop(I, j, base, lambda v: _el_shape(v, ax))

    def entry(self, I, j, idx, imag):
        f = self.EI if imag else self.E

        def base(jz):
            args = (jz,) + tuple(to_z3(x) for x in idx)
            I.saw_read(f.name(), args)
            return f(*args)
        return self.prop(I, j, base, lambda v: _el_entry(I, v, idx, imag))


def _as_list(L):
    if isinstance(L, (GrowList, SrcList)):
        return L
    if isinstance(L, list):
        return L
    raise Unsupported(f"ghost accessor of the padded factor list on a {type(L).__name__}")


def _plain(I, L, j, of_value, default):
    """accessor on a concrete python list (the empty list before the loop, short lists)"""
    out = default
    jz = to_z3(j)
    for pos, v in reversed(list(enumerate(L))):
        out = ops.ite(jz == pos, of_value(v), out)
    return out


def r_len(I, L):
    L = _as_list(L)
    return len(L) if isinstance(L, list) else L.length


def r_src(I, L, j):
    L = _as_list(L)
    if isinstance(L, SrcList):
        return j
    if isinstance(L, list):
        return _plain(I, L, j, _el_src, -2)
    return L.src(I, j)


def r_shape(I, L, j, ax):
    L = _as_list(L)
    if isinstance(L, SrcList):
        return L.shape_at(I, j, ax)
    if isinstance(L, list):
        return _plain(I, L, j, lambda v: _el_shape(v, ax), 0)
    return L.shape(I, j, ax)


def _entry(imag):
    def acc(I, L, j, *idx):
        L = _as_list(L)
        if isinstance(L, SrcList):
            return L.entry(I, j, idx, imag)
        if isinstance(L, list):
            return _plain(I, L, j, lambda v: _el_entry(I, v, idx, imag), 0)
        return L.entry(I, j, idx, imag)
    return acc


def pdim(I, src):
    """physical dimension of the given factors (2 for an empty list: nothing to take it from)"""
    if src.d is not None:
        return src.d if src.d == 2 else z3.If(src.M > 0, z3.IntVal(src.d), z3.IntVal(2))
    return z3.If(src.M > 0, to_z3(src.shape_at(I, 0, 1)), z3.IntVal(2))


def next_left(I, src, k):
    """left bond of given factor k, 1 beyond the end"""
    kz = to_z3(k)
    return z3.If(kz < src.M, to_z3(src.shape_at(I, k, 0)), z3.IntVal(1))


def prefix_count_comprehension(I, node, gen, seq, sub):
    """[1 for b in where if b] -> true_before(where, len(where)) ones"""
    import ast
    ok = (isinstance(seq, T.LamTensor) and seq.ndim == 1 and seq.dtype == "bool" and len(gen.ifs) == 1
          and isinstance(gen.ifs[0], ast.Name) and isinstance(gen.target, ast.Name)
          and gen.ifs[0].id == gen.target.id and isinstance(node.elt, ast.Constant) and node.elt.value == 1)
    if not ok:
        raise Unsupported("filtered comprehension over a symbolic-length sequence")
    s = SymSeq(true_before(I, seq, seq.shape[0]), lambda k: 1)
    s.all_ones = True
    return s


def install_ghosts(reg):
    G = reg.ghost_funcs
    G.update(true_before=true_before, count_mono=count_mono, r_len=r_len, r_src=r_src, r_shape=r_shape,
             r_re=_entry(False), r_im=_entry(True), pdim=pdim, next_left=next_left,
             ind=lambda I, b: ops.ite(I.truth(b), 1, 0))


# ---------------------------------------------------------------------------------------------
# contracts
# ---------------------------------------------------------------------------------------------
def where_tensor(I, n):
    m = I.ctx.fresh("n_sites", "int")
    I.ctx.assume(m >= 0)
    return I.reg.sym_tensor(I, "where", (m,), "bool")


def _clauses(kind, res, upto, src):
    """the clauses about positions [0, upto) of `res` (loop invariant with upto = _k, postcondition with
    upto = len(where)); kind = 'mps' | 'mpo'"""
    last = 2 if kind == "mps" else 3
    axes = range(last + 1)
    same_factor = " and ".join(f"r_shape({res}, j, {ax}) == r_shape({src}, true_before(where, j), {ax})" for ax in axes)
    phys = " and ".join(f"r_shape({res}, j, {ax}) == pdim({src})" for ax in range(1, last))
    if kind == "mps":
        entries = (f"forall(lambda a: forall(lambda s: forall(lambda c: implies(not where[j], "
                   f"r_re({res}, j, a, s, c) == ind(s == 0 and a == c) and r_im({res}, j, a, s, c) == 0), "
                   f"0, r_shape({res}, j, 2)), 0, pdim({src})), 0, r_shape({res}, j, 0))")
    else:
        entries = (f"forall(lambda a: forall(lambda s: forall(lambda t: forall(lambda c: implies(not where[j], "
                   f"r_re({res}, j, a, s, t, c) == ind(s == t and a == c) and r_im({res}, j, a, s, t, c) == 0), "
                   f"0, r_shape({res}, j, 3)), 0, pdim({src})), 0, pdim({src})), 0, r_shape({res}, j, 0))")
    return [
        # a True position holds the given factor number true_before(where, j) itself
        (f"forall(lambda j: implies(where[j], r_src({res}, j) == true_before(where, j)), 0, {upto})",
         "true-position-holds-the-given-factor-itself"),
        (f"forall(lambda j: implies(where[j], {same_factor}), 0, {upto})", "true-position-keeps-its-shape"),
        # a False position holds a new factor of the given factors' physical dimension ...
        (f"forall(lambda j: implies(not where[j], r_src({res}, j) == -1 and {phys} and "
         f"r_shape({res}, j, 0) == r_shape({res}, j, {last})), 0, {upto})",
         "false-position-holds-a-new-factor-of-the-given-physical-dimension"),
        # ... that is |0> (x) identity on the bond  (MPO: identity on the levels (x) identity on the bond)
        (f"forall(lambda j: {entries}, 0, {upto})",
         "false-position-is-ground-state-times-identity" if kind == "mps" else "false-position-is-the-identity"),
        # bond dimensions chain
        (f"forall(lambda j: r_shape({res}, j, {last}) == r_shape({res}, j + 1, 0), 0, {upto} - 1)",
         "consecutive-bond-dimensions-match"),
        (f"implies({upto} > 0, r_shape({res}, 0, 0) == 1)", "left-end-has-bond-1"),
    ]


MPS_INIT_CHECKS = [
    "all((factors[i - 1].shape[2] == factors[i].shape[0] for i in range(1, len(factors))))",
    "factors[0].shape[0] == 1 and factors[-1].shape[2] == 1",
    "self.num_sites > 1",
    "all((factors[i].shape[1] == self.dim for i in range(self.num_sites)))",
    "orthogonality_center is None or 0 <= orthogonality_center < self.num_sites",
]
MPO_INIT_CHECKS = [
    "not self.num_sites > 1",
    "factors[0].shape[0] != 1 or factors[-1].shape[-1] != 1",
    "all((factors[i - 1].shape[-1] == factors[i].shape[0] for i in range(1, self.num_sites)))",
]


def _ctor_checks(cref, expected, defs):
    """The validity checks of a constructor, bound by text: the model below transcribes exactly these
    tests (asserts and raising ifs, in source order); if the constructor's checks change the model
    refuses (undecided) instead of proving something about a constructor that no longer exists."""
    import ast
    cls = cref.module.classes[cref.name]
    init = [n for n in cls.body if isinstance(n, ast.FunctionDef) and n.name == "__init__"]
    if not init:
        raise Unsupported(f"{cref.name} has no __init__")
    found, assigns = [], set()
    for n in ast.walk(init[0]):
        if isinstance(n, ast.Assert):
            found.append((n.lineno, ast.unparse(n.test)))
        elif isinstance(n, ast.If) and any(isinstance(b, ast.Raise) for b in n.body):
            found.append((n.lineno, ast.unparse(n.test)))
        elif isinstance(n, ast.Assign):
            assigns.add(ast.unparse(n))
    found = [t for _, t in sorted(found)]
    if found != expected or not set(defs) <= assigns:
        raise Unsupported(f"{cref.name}.__init__: the validity checks differ from the ones the padded-state model "
                          f"transcribes ({found})")


class Made:
    """record of a constructor call (compared by identity)"""

    def __init__(self, kind, args, kwargs):
        self.kind, self.args, self.kwargs = kind, args, kwargs


def mps_ctor(I, cref, args, kwargs):
    """MPS(factors, orthogonality_center=, eigenstates=, ...): every validity assert of MPS.__init__ is an
    obligation at the point of construction"""
    _ctor_checks(cref, MPS_INIT_CHECKS, ["self.num_sites = len(factors)", "self.dim = len(self.eigenstates)"])
    reg = I.reg
    F = args[0]
    n = r_len(I, F)
    eig = kwargs.get("eigenstates", ("r", "g"))
    dim = eig.length if isinstance(eig, SymSeq) else len(eig)
    c = kwargs.get("orthogonality_center")
    P = lambda name, v: reg.prove_clause(I, "padded-state/" + name, v, "pre")
    P("consecutive-bond-dimensions-match",
      ForallV(lambda i: ops.equal(r_shape(I, F, i, 2), r_shape(I, F, ops.add(i, 1), 0)), 0, ops.sub(n, 1), "i"))
    P("outer-bond-dimensions-are-1", ops.b_and(to_z3(n) > 0, ops.equal(r_shape(I, F, 0, 0), 1),
                                               ops.equal(r_shape(I, F, ops.sub(n, 1), 2), 1)))
    P("more-than-one-site", to_z3(n) > 1)
    P("physical-dimension-is-the-number-of-eigenstates",
      ForallV(lambda i: ops.equal(r_shape(I, F, i, 1), dim), 0, n, "i"))
    if c is not None:
        from pyvc.values import OptV
        if isinstance(c, OptV):
            ok = ops.b_or(c.is_none, ops.b_and(to_z3(c.val) >= 0, to_z3(c.val) < to_z3(n)))
        else:
            ok = ops.b_and(to_z3(c) >= 0, to_z3(c) < to_z3(n))
        P("centre-in-range", ok)
    return Made("MPS", tuple(args), dict(kwargs))


def mpo_ctor(I, cref, args, kwargs):
    """MPO(factors): the two ValueError checks and the assert of MPO.__init__ as obligations; that the
    physical dimensions fit the state is not checked by the constructor but by the first contraction,
    so it is an obligation here too"""
    _ctor_checks(cref, MPO_INIT_CHECKS, ["self.num_sites = len(factors)"])
    reg = I.reg
    F = args[0]
    n = r_len(I, F)
    P = lambda name, v: reg.prove_clause(I, "padded-hamiltonian/" + name, v, "pre")
    P("more-than-one-site", to_z3(n) > 1)
    P("outer-bond-dimensions-are-1", ops.b_and(to_z3(n) > 0, ops.equal(r_shape(I, F, 0, 0), 1),
                                               ops.equal(r_shape(I, F, ops.sub(n, 1), 3), 1)))
    P("consecutive-bond-dimensions-match",
      ForallV(lambda i: ops.equal(r_shape(I, F, i, 3), r_shape(I, F, ops.add(i, 1), 0)), 0, ops.sub(n, 1), "i"))
    dim = I.ctx.ghost["padded_dim"]
    P("physical-dimensions-are-those-of-the-state",
      ForallV(lambda i: ops.b_and(ops.equal(r_shape(I, F, i, 1), dim), ops.equal(r_shape(I, F, i, 2), dim)), 0, n, "i"))
    return Made("MPO", tuple(args), dict(kwargs))


class StateModel(SymObj):
    """an MPS as fill_results sees it: factor shapes, eigenstates, centre; `scalar * state` keeps all three
    (MPS.__rmul__ -> scale_factors scales one factor: C11)"""
    binop_first = True

    def __init__(self, I, factors, eigenstates, centre):
        super().__init__("MPS", "emu_mps.mps")
        nrm = I.ctx.fresh("state_norm", "real")
        I.ctx.assume(nrm > 0)
        self.fields.update(factors=factors, eigenstates=eigenstates, orthogonality_center=centre,
                           norm=lambda I2: nrm)

    def binop(self, I, op, other, reflected):
        import ast
        if op is not ast.Mult or isinstance(other, SymObj):
            raise Unsupported("operation on a state other than scalar * state")
        f = self.fields
        return StateModel(I, f["factors"].same_shapes(I), f["eigenstates"], f["orthogonality_center"])


def register(reg, prop="C25"):
    maskidx.install(reg)
    install_ghosts(reg)
    IMPL = "emu_mps.mps_backend_impl"

    def n_of(I, fr):
        fr.locals.setdefault("N", fr.locals["where"].shape[0])

    def add(kind, d=None, callsite=False):
        fn = f"extended_{kind}_factors"
        arg = f"{kind}_factors"
        rank = 3 if kind == "mps" else 4
        last = rank - 1
        label = fn + ("" if d is None else f"[d={d}]") + ("[any d, call sites]" if callsite and kind == "mpo" else "")

        def setup(I, fr):
            I.ctx.ghost["interp"] = I
            I.reg.filtered_comprehension = prefix_count_comprehension
            src = SrcList(I, arg, rank, d)
            fr.locals[arg] = src
            fr.locals["N"] = fr.locals["where"].shape[0]

        bad_len = f"len({arg}) != true_before(where, len(where))"
        inv = _clauses(kind, "result", "_k", arg)
        post = _clauses(kind, "result", "N", arg)
        valid_chain = [
            # the given list is a valid chain of one physical dimension
            f"forall(lambda k: r_shape({arg}, k, {last}) == r_shape({arg}, k + 1, 0), 0, len({arg}) - 1)",
            f"implies(len({arg}) > 0, r_shape({arg}, 0, 0) == 1 and r_shape({arg}, len({arg}) - 1, {last}) == 1)",
        ] + [f"forall(lambda k: r_shape({arg}, k, {ax}) == pdim({arg}), 0, len({arg}))" for ax in range(1, last)]
        if callsite and kind == "mpo":
            # the face call sites use: the clauses of the two verified variants, for the dimensions they cover
            valid_chain = valid_chain + [f"pdim({arg}) == 2 or pdim({arg}) == 3"]
        reg.add_contract(Contract(
            f"{UTILS}:{fn}", property=prop, label=label,
            params={arg: "none", "where": where_tensor}, setup=setup, post_setup=n_of,
            requires=valid_chain,
            raises={"AssertionError": bad_len}, raises_when={"AssertionError": bad_len},
            returns=lambda I, nm, env: GrowList(I, "padded_" + kind, rank),
            loops={0: dict(
                locals={"result": lambda I, n: GrowList(I, "result", rank)},
                invariant=[
                    "count_mono(where, _k, len(where)) and count_mono(where, _k + 1, len(where))",
                    "factor_index == true_before(where, _k)",
                    f"0 <= factor_index and factor_index <= len({arg})",
                    "r_len(result) == _k",
                    f"bond_dimension == next_left({arg}, factor_index)",
                    f"implies(_k > 0, bond_dimension == r_shape(result, _k - 1, {last}))",
                    "implies(_k == 0, bond_dimension == 1)",
                ] + [c for c, _ in inv])},
            ensures=["r_len(result) == len(where)"] + [c for c, _ in post] + [
                f"implies(N > 0, r_shape(result, N - 1, {last}) == 1)",
                # every factor of the padded list has the physical dimension of the given ones
                "forall(lambda j: count_mono(where, j, N) and count_mono(where, j + 1, N) and "
                + " and ".join(f"r_shape(result, j, {ax}) == pdim({arg})" for ax in range(1, last)) + ", 0, N)",
            ],
            ensures_names=["one-factor-per-position"] + [n for _, n in post] + [
                "right-end-has-bond-1", "every-factor-has-the-given-physical-dimension"],
        ), callsite=callsite)
        return f"{UTILS}:{label}"

    targets = [add("mps", callsite=True), add("mpo", 2), add("mpo", 3)]
    add("mpo", callsite=True)          # not a target: verified through its [d=2] and [d=3] variants

    # ---- get_extended_site_index (same clauses as contracts/mps_readers.py, C13) ---------------------------
    NOIDX = "desired_index < 0 or desired_index >= true_before(where, len(where))"
    reg.add_contract(Contract(
        f"{UTILS}:get_extended_site_index", property=prop,
        params={"where": where_tensor, "desired_index": "int"},
        raises={"ValueError": NOIDX}, returns="int",
        loops={0: dict(invariant=["index == true_before(where, _k) - 1",
                                  "implies(desired_index >= 0, index < desired_index)", "index >= -1"])},
        ensures=["0 <= result and result < len(where)", "where[result]",
                 "true_before(where, result) == desired_index"],
        ensures_names=["index-in-range", "a-well-prepared-site", "exactly-desired_index-well-prepared-sites-before-it"],
    ), callsite=False)
    reg.add_contract(Contract(
        f"{UTILS}:get_extended_site_index", property=prop, label="get_extended_site_index[no centre]",
        params={"where": where_tensor, "desired_index": "none"},
        raises={}, ensures=["result is None"], ensures_names=["no-centre-stays-no-centre"]), callsite=False)
    targets += [f"{UTILS}:get_extended_site_index", f"{UTILS}:get_extended_site_index[no centre]"]

    def site_index_model(I, where, desired_index):
        """call-site face of the two contracts above"""
        from pyvc.values import OptV
        ctx = I.ctx
        d = desired_index
        if d is None:
            return None
        if isinstance(d, OptV):
            if ctx.branch(d.is_none):
                return None
            d = d.val
        dz = to_z3(d)
        n = where.shape[0]
        if ctx.branch(z3.Or(dz < 0, dz >= true_before(I, where, n))):
            raise RaiseSig("ValueError", "Index does not exist", ctx.cur_line)
        r = ctx.fresh("extended_index", "int")
        ctx.assume(z3.And(r >= 0, r < to_z3(n), to_z3(I.truth(where.fn(r))), true_before(I, where, r) == dz))
        return r

    # ---- fill_results: the padded state / Hamiltonian are valid --------------------------------------------
    from . import mps_dataflow_sites as S

    def setup_fill(I, fr):
        ctx = I.ctx
        o = S.impl_obj(I, mask=True, drives=False)
        N = o.ghost_N
        dim = ctx.fresh("dim", "int")
        ctx.assume(z3.Or(dim == 2, dim == 3))
        ctx.ghost["padded_dim"] = dim
        eig = SymSeq(dim, lambda k: z3.StringVal("?"), "list")
        sf = SrcList(I, "state_factors", 3)
        hf = SrcList(I, "hamiltonian_factors", 4)
        centre = I.reg.make_value(I, "int?", "orthogonality_center")
        st = StateModel(I, sf, eig, centre)
        ham = SymObj("MPO", "emu_mps.mpo")
        ham.fields["factors"] = hf
        o.fields.update(state=st, hamiltonian=ham, dim=dim, eigenstates=eig, results=SymObj("Results", None))
        seen = []

        def observable(I2, *a, **k):
            seen.append(a)
            return None
        o.fields["config"].fields["_backend_options"]["observables"] = [observable]
        I.reg.class_policies["MPS"] = mps_ctor
        I.reg.class_policies["MPO"] = mpo_ctor
        I.reg.filtered_comprehension = prefix_count_comprehension
        fr.locals.update(self=o, N=N, SF=sf, HF=hf, DIM=dim, CENTRE=centre, SEEN=seen,
                         where=o.fields["well_prepared_qubits_filter"])
        fr.locals["centre_in_range"] = lambda I2: ops.b_or(centre.is_none, z3.And(to_z3(centre.val) >= 0,
                                                                                 to_z3(centre.val) < sf.M))

    def ghost_fill(I, fr):
        seen = fr.locals["SEEN"]
        fr.locals["calls"] = lambda I2: len(seen)
        fr.locals["given"] = lambda I2, k: seen[0][k]
        fr.locals["kind"] = lambda I2, v: getattr(v, "kind", None)
        fr.locals["factors_of"] = lambda I2, v: v.args[0]

        def centre_matches(I2):
            c = seen[0][2].kwargs.get("orthogonality_center")
            red, where = fr.locals["CENTRE"], fr.locals["where"]
            if c is None:                  # no centre given: right iff the reduced state has none
                return red.is_none
            from pyvc.values import OptV
            if isinstance(c, OptV):        # an Optional handed on: None iff the reduced centre is None, else as below
                inner = ops.b_and(I2.truth(where.fn(c.val)), true_before(I2, where, c.val) == to_z3(red.val))
                return ops.b_and(to_z3(c.is_none) == to_z3(red.is_none), ops.b_or(c.is_none, inner))
            return ops.b_and(ops.b_not(red.is_none), I2.truth(where.fn(c)),
                             true_before(I2, where, c) == to_z3(red.val))
        fr.locals["centre_matches"] = centre_matches

    def valid(name, last, n):
        return [
            f"forall(lambda k: r_shape({name}, k, {last}) == r_shape({name}, k + 1, 0), 0, len({name}) - 1)",
            f"r_shape({name}, 0, 0) == 1 and r_shape({name}, len({name}) - 1, {last}) == 1",
        ] + [f"forall(lambda k: r_shape({name}, k, {ax}) == DIM, 0, len({name}))" for ax in range(1, last)] + [
            # one factor per well-prepared site (init_dark_qubits/post#2, MPS.make / make_H of the reduced chain)
            f"len({name}) == true_before(where, N)", f"len({name}) >= 2"]

    reg.add_contract(Contract(
        f"{IMPL}:MPSBackendImpl.fill_results", property=prop, label="MPSBackendImpl.fill_results[padded state]",
        params={"self": "none"}, setup=setup_fill, post_setup=ghost_fill,
        policies={f"{IMPL}:MPSBackendImpl._is_evaluation_time": lambda I, *a, **k: True,
                  f"{UTILS}:get_extended_site_index": site_index_model},
        requires=["self.target_times[len(self.target_times) - 1] > 0"]
        + valid("SF", 2, "N") + valid("HF", 3, "N")
        + ["centre_in_range()"],
        raises={},
        ensures=[
            "calls() == 1 and kind(given(2)) == 'MPS' and kind(given(3)) == 'MPO'",
            # the observable sees one factor per SITE of the register
            "r_len(factors_of(given(2))) == N and r_len(factors_of(given(3))) == N",
            # a dark site holds |0>: physical dimension DIM, amplitude 1 on level 0 on the diagonal of the bond
            "forall(lambda j: implies(not where[j], r_src(factors_of(given(2)), j) == -1 and "
            "r_shape(factors_of(given(2)), j, 1) == DIM), 0, N)",
            # the centre handed to the padded state is the site of the reduced centre
            "centre_matches()",
        ],
        ensures_names=["observable-called-once-with-padded-state-and-hamiltonian", "one-factor-per-register-site",
                       "dark-sites-hold-the-ground-state-of-the-state's-dimension", "centre-is-the-site-of-the-reduced-centre"],
    ), callsite=False)
    targets.append(f"{IMPL}:MPSBackendImpl.fill_results[padded state]")

    # ---- the reduced chain must exist: MPS.make and init_initial_state without a given state --------------
    MPSMOD = "emu_mps.mps"
    TOO_FEW = "num_sites <= 1"

    def eigen_seq(I, n):
        e = I.ctx.fresh("n_eigenstates", "int")
        I.ctx.assume(z3.Or(e == 2, e == 3))
        return SymSeq(e, lambda k: z3.StringVal("?"), "list")

    def setup_make(I, fr):
        made = []

        def cls(I2, factors, **kw):
            made.append((factors, kw))
            return Made("MPS", (factors,), kw)
        fr.locals["cls"] = cls
        fr.locals["MADE"] = made

    def ghost_make(I, fr):
        made = fr.locals["MADE"]
        fr.locals["made_once"] = lambda I2: len(made) == 1
        fr.locals["made_factors"] = lambda I2: made[0][0]
        fr.locals["made_kw"] = lambda I2, k: made[0][1].get(k)

    reg.add_contract(Contract(
        f"{MPSMOD}:MPS.make", property=prop,
        params={"cls": "none", "num_sites": "int", "precision": "real", "max_bond_dim": "int",
                "num_gpus_to_use": "int", "eigenstates": eigen_seq},
        setup=setup_make, post_setup=ghost_make,
        raises={"ValueError": TOO_FEW}, raises_when={"ValueError": TOO_FEW},
        ensures=["made_once() and len(made_factors()) == num_sites and made_kw('orthogonality_center') == 0",
                 # every site starts in |0> = level index 0 of len(eigenstates) levels
                 "forall(lambda k: made_factors()[k].shape[0] == 1 and made_factors()[k].shape[1] == len(eigenstates) "
                 "and made_factors()[k].shape[2] == 1, 0, num_sites)",
                 "forall(lambda k: forall(lambda s: made_factors()[k][0, s, 0] == ind(s == 0), 0, len(eigenstates)), "
                 "0, num_sites)"],
        ensures_names=["one-factor-per-site", "every-factor-has-one-level-per-eigenstate", "every-site-in-level-0"],
    ), callsite=False)
    targets.append(f"{MPSMOD}:MPS.make")

    def make_face(I, num_sites, **kw):
        """call-site face of the contract above (MPS.make is a classmethod: called without `cls`)"""
        ctx = I.ctx
        ctx.ghost.setdefault("made_with", []).append(num_sites)
        if ctx.branch(to_z3(num_sites) <= 1):
            raise RaiseSig("ValueError", "For 1 qubit states, do state vector", ctx.cur_line)
        return Made("MPS.make", (num_sites,), kw)

    from . import config as cfgc

    for mask in (False, True):
        def setup_init(I, fr, mask=mask):
            # quantifier-free on purpose (a counter-model must be a definite one, not a candidate): the number of
            # well-prepared atoms is a plain integer GOOD in [0, N], the filter an arbitrary mask
            ctx = I.ctx
            N = ctx.fresh("N", "int")
            good = ctx.fresh("well_prepared_atoms", "int") if mask else N
            ctx.assume(z3.And(N >= 0, to_z3(good) >= 0, to_z3(good) <= N))
            o = SymObj("MPSBackendImpl", IMPL)
            o.fields.update(
                config=cfgc.mps_config_obj(I, "config"), qubit_count=good, eigenstates=["r", "g"],
                resolved_num_gpus=None, dim=2,
                well_prepared_qubits_filter=I.reg.sym_tensor(I, "site_filter", (N,), "bool") if mask else None)
            fr.locals.update(self=o, initial_state=None, N=N, GOOD=good)

        def ghost_init(I, fr):
            fr.locals["made_with"] = lambda I2: I2.ctx.ghost["made_with"][0]

        reg.add_contract(Contract(
            f"{IMPL}:MPSBackendImpl.init_initial_state", property=prop,
            label="MPSBackendImpl.init_initial_state[no state]" + ("[filter]" if mask else "[no filter]"),
            params={"self": "none", "initial_state": "none"}, setup=setup_init, post_setup=ghost_init,
            policies={f"{MPSMOD}:MPS.make": make_face},
            # MPSBackendImpl.__init__ asserts at least two atoms; init_dark_qubits/post#2: qubit_count is the
            # number GOOD of well-prepared atoms (all N of them without a filter)
            requires=["N >= 2", "self.qubit_count == GOOD"],
            # no mask may make the run impossible: fails on /repo for fewer than two well-prepared atoms
            # (open known finding F25, region GOOD < 2); any other refusal is a violation
            raises={},
            ensures=["made_with() == GOOD", "kind_of(self.state) == 'MPS.make'"],
            ensures_names=["one-site-per-well-prepared-atom", "state-is-the-ground-state-of-the-reduced-chain"],
        ), callsite=False)
        targets.append(f"{IMPL}:MPSBackendImpl.init_initial_state[no state]" + ("[filter]" if mask else "[no filter]"))
    reg.ghost_funcs["kind_of"] = lambda I, v: getattr(v, "kind", None)
    return targets
