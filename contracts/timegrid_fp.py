"""Floating-point side obligations for the time grid (C21 / C14): BOUNDED, by concrete execution.

The proof in contracts/timegrid.py is over the reals (A1).  Where rounding *is* the property --
the last target time must equal the duration exactly (`assert noisy_samples.max_duration ==
target_times[-1]` downstream), no target time may leave [0, D], two target times must not
collapse onto one requested evaluation time -- the function's real source text is taken from the
repository under check (ast, annotations stripped; only `math`/`bisect` are needed), executed in
IEEE double arithmetic on a fixed grid of (duration, dt, requested times) and the clauses are
evaluated on the concrete result.  One failing input is reported as the counter-model and is
replayed by replay/c21.py / replay/c14.py against the real module."""
from __future__ import annotations

import ast
import bisect
import hashlib
import math
import os
import time
from types import SimpleNamespace

MATCH_TOL = 1e-10


class _Times(list):
    def tolist(self):
        return list(self)


class _Seq:
    def __init__(self, duration):
        self.duration = duration

    def get_duration(self, include_fall_time=False):
        return self.duration


def load(repo_root):
    path = os.path.join(repo_root, "emu_base", "pulser_adapter.py")
    src = open(path).read()
    tree = ast.parse(src)
    keep = []
    span = None
    for node in tree.body:
        if isinstance(node, ast.FunctionDef) and node.name in ("_get_target_times", "_unique_observable_times"):
            for sub in ast.walk(node):
                if isinstance(sub, ast.FunctionDef):
                    sub.returns = None
                    for a in sub.args.args + sub.args.kwonlyargs + sub.args.posonlyargs:
                        a.annotation = None
            keep.append(node)
            if node.name == "_get_target_times":
                span = [node.lineno, node.end_lineno]
        elif isinstance(node, ast.Assign) and isinstance(node.value, ast.Constant) and \
                isinstance(node.value.value, (int, float)):
            keep.append(node)
    mod = ast.Module(body=keep, type_ignores=[])
    ns = {"math": math, "bisect": bisect}
    exec(compile(ast.fix_missing_locations(mod), path, "exec"), ns)
    return ns["_get_target_times"], path, span, hashlib.sha256(src.encode()).hexdigest()


def config(requested, default=(1.0,)):
    obs = SimpleNamespace(evaluation_times=list(requested) if requested is not None else None)
    return SimpleNamespace(observables=[obs], with_modulation=False, default_evaluation_times=_Times(default))


def grid(tier):
    """(duration, dt, requested relative times)"""
    dts = [0.1, 0.3, 0.7, 1.1, 1.3, 2.2, 10 / 3, 7.0, 10.0, 12345.0]
    durs = list(range(1, 120)) + [250, 400, 1000, 3091, 4000, 9973, 10000]
    if tier != "quick":
        durs += list(range(120, 3000, 7))
    lin = [i * 0.01 for i in range(101)]              # == numpy.linspace(0, 1, 101)
    thirds = [i / 3 for i in range(4)] + [0.123456789, 2 ** -0.5]
    for D in durs:
        for dt in dts:
            if D / dt > 40000:
                continue
            yield D, dt, lin if (D % 5 == 0) else ([0.25, 0.5] if D % 7 == 3 else thirds)
    # requested times within the matcher's tolerance of each other (one request to the matcher), off the grid
    close = [0.3, 0.1 + 0.2, 0.45, 0.45 + 5e-11, 0.6, 0.6 + 4e-11, 0.6 + 9e-11, 1.0]
    for D in (300, 1000, 4001):
        for dt in (0.7, 7.0, 10.0):
            yield D, dt, close


def clauses(tt, D, req):
    """name -> (holds, detail)"""
    Df = float(D)
    out = {}
    out["fp/first-is-zero"] = (len(tt) > 0 and tt[0] == 0.0, f"first = {tt[0]!r}")
    out["fp/last-equals-duration"] = (tt[-1] == Df, f"last = {tt[-1]!r}, duration = {Df!r}")
    inc = all(a < b for a, b in zip(tt, tt[1:]))
    out["fp/strictly-increasing"] = (inc, "")
    out["fp/within-[0,D]"] = (all(0.0 <= t <= Df for t in tt), f"max = {max(tt)!r}")
    bad_sep, bad_cov = None, None
    for e in req:
        hits = [t for t in tt if abs(t / tt[-1] - e) <= MATCH_TOL]
        if len(hits) > 1 and bad_sep is None:
            bad_sep = (e, hits)
        if not hits and bad_cov is None:
            bad_cov = e
    out["fp/one-target-time-per-requested-time"] = (bad_sep is None,
                                                     "" if bad_sep is None else f"requested {bad_sep[0]!r} matched by {bad_sep[1]!r}")
    out["fp/every-requested-time-matched"] = (bad_cov is None, "" if bad_cov is None else f"requested {bad_cov!r} unmatched")
    return out


WHICH = {"C21": ["fp/first-is-zero", "fp/last-equals-duration", "fp/strictly-increasing", "fp/within-[0,D]",
                 "fp/every-requested-time-matched"],
         "C14": ["fp/one-target-time-per-requested-time"]}


def run(prop, tier, repo_root):
    t0 = time.time()
    label = "_get_target_times[float]"
    func = f"{prop}/{label}"
    rep = {"target": "emu_base.pulser_adapter:_get_target_times", "label": label, "paths": 0, "error": None,
           "crash": None, "obligations": [], "assumptions": [], "stats": {}, "span": None, "file": None,
           "sha256": None, "wall_s": 0, "outcomes": {}, "contract": None}
    try:
        f, path, span, sha = load(repo_root)
        rep.update(file=path, span=span, sha256=sha)
        names = WHICH[prop]
        fails = {}
        n = 0
        for D, dt, req in grid(tier):
            n += 1
            try:
                tt = f(_Seq(D), config(req), dt)
                res = clauses(tt, D, req)
            except Exception as e:          # the function itself broke on this input
                res = {nm: (False, f"{type(e).__name__}: {e}") for nm in names}
            for nm in names:
                ok, detail = res[nm]
                if not ok and nm not in fails:
                    fails[nm] = {"duration": D, "dt": dt, "requested": "linspace(0,1,101)" if len(req) == 101 else list(req),
                                 "detail": detail}
        rep["paths"] = n
        for nm in names:
            bad = fails.get(nm)
            rep["obligations"].append({
                "name": f"{func}/{nm}", "kind": "bounded-float", "status": "failed" if bad else "discharged",
                "backend": "concrete-ieee754", "time_s": 0.0, "model": bad, "lineno": span[0] if span else None,
                "func": func, "path": [], "note": f"{n} concrete inputs", "known": None})
    except Exception as e:
        import traceback
        rep["crash"] = traceback.format_exc()
    rep["wall_s"] = round(time.time() - t0, 2)
    return [rep]
