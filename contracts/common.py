"""Shared declarations: SequenceData / config records, enum constants, pulser models."""
import z3

from pyvc.values import EnumV, Opaque, SymObj, SymSeq, to_z3

ADAPTER = "emu_base.pulser_adapter"


def sym_seq(I, name, elem=None, sort="opaque"):
    """A sequence of symbolic length whose elements are produced by `elem(k)`."""
    n = I.ctx.fresh(name + ".len", "int")
    I.ctx.assume(n >= 0)
    if elem is None:
        if sort == "real":
            f = z3.Function(I.ctx.fresh_name(name), z3.IntSort(), z3.RealSort())
            elem = lambda k: f(to_z3(k))
        elif sort == "bool":
            f = z3.Function(I.ctx.fresh_name(name), z3.IntSort(), z3.BoolSort())
            elem = lambda k: f(to_z3(k))
        else:
            elem = lambda k: Opaque(f"{name}[{k}]")
    return SymSeq(n, elem)


def enum_const(reg, name, cls, member):
    reg.ghost_funcs[name] = EnumV(cls, member)


def register_enums(reg):
    enum_const(reg, "RYDBERG", "HamiltonianType", "Rydberg")
    enum_const(reg, "XY", "HamiltonianType", "XY")
    enum_const(reg, "DMRG", "Solver", "DMRG")
    enum_const(reg, "TDVP", "Solver", "TDVP")


def sequence_data(I, name="data", T=None, N=None):
    """SequenceData with symbolic drives (T steps x N atoms), matrix callable, flags."""
    ctx = I.ctx
    T = T if T is not None else ctx.fresh("T", "int")
    N = N if N is not None else ctx.fresh("N", "int")
    if not isinstance(T, int):
        ctx.assume(T >= 1)
    if not isinstance(N, int):
        ctx.assume(N >= 1)
    reg = I.reg
    obj = SymObj("SequenceData", ADAPTER)
    obj.fields.update(
        omega=reg.sym_tensor(I, "omega", (T, N)),
        delta=reg.sym_tensor(I, "delta", (T, N)),
        phi=reg.sym_tensor(I, "phi", (T, N)),
        interaction_matrix=Opaque("interaction_matrix"),
        qubit_ids=sym_seq(I, "qubit_ids"),
        bad_atoms=sym_seq(I, "bad_atoms", sort="bool"),
        lindblad_ops=sym_seq(I, "lindblad_ops"),
        state_prep_error=ctx.fresh("state_prep_error", "real"),
        target_times=sym_seq(I, "target_times", sort="real"),
        eigenstates=sym_seq(I, "eigenstates"),
        hamiltonian_type=EnumV("HamiltonianType", _enum_member(I, "hamiltonian_type", ["Rydberg", "XY"])),
    )
    ctx.assume(to_z3(obj.fields["qubit_ids"].length) == to_z3(N))
    ctx.assume(to_z3(obj.fields["target_times"].length) == to_z3(T) + 1)
    obj.frozen = True
    return obj


def _enum_member(I, name, members):
    m = I.ctx.fresh(name, "str")
    I.ctx.assume(z3.Or(*[m == z3.StringVal(x) for x in members]))
    return m
