"""Contracts for emu_mps/optimatrix/permutations.py and optimiser.py (C32; used by C03/C02/C25).

A permutation of range(n) is an int tensor p of shape (n,) together with a Skolem inverse q:
    0 <= p[k] < n,  q[p[k]] == k,      0 <= q[k] < n,  p[q[k]] == k        (0 <= k < n)
(a map of a finite set into itself is a bijection iff it has a two-sided inverse).  The facts are
instantiated at the index terms that are actually read.  `p.inverse = q` lets the tensor layer
model the scatter `out[p] = v`.

List / tuple / string elements are values of an uninterpreted sort (Int codes): the helpers only
move them, so nothing else about them matters.

Bandwidth: BW(A) = TMAX(|A[i,j] * (j - i)|) where TMAX (torch.max over a matrix of symbolic size)
is an uninterpreted, *extensional* function of its argument: two matrices that agree element-wise
have the same TMAX -- the Skolemised form  (exists i,j. A[i,j] != B[i,j]) or TMAX(A) == TMAX(B)
is added for every pair of matrices TMAX is applied to on one path."""
import ast
from fractions import Fraction

import z3

from pyvc import ops, symstr, tensor as T
from pyvc.registry import Contract
from pyvc.values import ForallV, SymSeq, Unsupported, is_z3, to_z3

PERM = "emu_mps.optimatrix.permutations"
OPT = "emu_mps.optimatrix.optimiser"
EXT_LIMIT = 14          # pairwise extensionality instances only among this many matrices per path


# ----------------------------------------------------------------------------------------------
# values
# ----------------------------------------------------------------------------------------------
def sym_len(I, name="n", lo=0):
    n = I.ctx.fresh(name, "int")
    I.ctx.assume(n >= lo)
    return n


def perm_tensor(I, name, n):
    """an arbitrary permutation of range(n) (see module docstring): two uninterpreted functions
    with the inverse laws as universally quantified hypotheses, triggered by the reads p(t), q(t)"""
    ctx = I.ctx
    pf = z3.Function(ctx.fresh_name(name), z3.IntSort(), z3.IntSort())
    qf = z3.Function(ctx.fresh_name(name + "_inv"), z3.IntSort(), z3.IntSort())
    nz = to_z3(n)

    def reader(f):
        def fn(k):
            I.saw_read(f.name(), (k,))
            return f(to_z3(k))
        return fn
    p = T.LamTensor((n,), reader(pf), "int", pf.name())
    q = T.LamTensor((n,), reader(qf), "int", qf.name())
    p.inverse, q.inverse = q, p
    p.is_declared_perm = q.is_declared_perm = True
    for f, g in ((pf, qf), (qf, pf)):
        I.add_forall(ForallV((lambda f, g: lambda k: z3.And(f(to_z3(k)) >= 0, f(to_z3(k)) < nz,
                                                            g(f(to_z3(k))) == to_z3(k)))(f, g), 0, n, "k"))
    return p


def elem_seq(I, name, n, kind="list"):
    """a list/tuple of n arbitrary objects (uninterpreted Int codes)"""
    f = z3.Function(I.ctx.fresh_name(name), z3.IntSort(), z3.IntSort())

    def fn(k):
        I.saw_read(f.name(), (k,))
        return f(to_z3(k))
    s = SymSeq(n, fn, kind)
    s.uf = f
    return s


def _like(I, t, shape):
    if len(shape) == 1 and getattr(t, "inverse", None) is not None and T.dim_eq(t.shape[0], shape[0]) is not False \
            and (isinstance(shape[0], int) or z3.eq(to_z3(t.shape[0]), to_z3(shape[0]))):
        # a permutation permuted by a permutation of the same size (contract permute_tensor[1d,permutation])
        return perm_tensor(I, "permuted", shape[0])
    return I.reg.sym_tensor(I, I.ctx.fresh_name("permuted"), shape, t.dtype if t.dtype in ("int", "bool") else "real")


def int_tensor(I, name, shape):
    return I.reg.sym_tensor(I, I.ctx.fresh_name(name), shape, "int")


# ----------------------------------------------------------------------------------------------
# ghost functions
# ----------------------------------------------------------------------------------------------
def g_isperm(I, t, n=None):
    """t (with its inverse witness t.inverse) is a permutation of range(n)"""
    if not isinstance(t, T.LamTensor) or t.ndim != 1:
        raise Unsupported("isperm of a non-vector")
    q = t.inverse
    if q is None:
        raise Unsupported("isperm: the tensor carries no inverse witness")
    n = t.shape[0] if n is None else n

    def body(k):
        v, w = t.fn(k), q.fn(k)
        return ops.b_and(ops.compare(ast.GtE, v, 0), ops.compare(ast.Lt, v, n), ops.equal(q.fn(v), k),
                         ops.compare(ast.GtE, w, 0), ops.compare(ast.Lt, w, n), ops.equal(t.fn(w), k))
    return ForallV(body, 0, n, "k")


def g_permuted(I, m, p):
    """ghost: the matrix m[p[i], p[j]] / the vector m[p[k]]"""
    if m.ndim == 1:
        return T.LamTensor((p.shape[0],), lambda k: m.fn(p.fn(k)), m.dtype)
    return T.LamTensor((p.shape[0], p.shape[0]), lambda i, j: m.fn(p.fn(i), p.fn(j)), m.dtype)


def g_absm(I, m):
    return T.unary(ops.absval, m)


def weighted(m):
    """|m[i,j] * (j - i)| -- the matrix whose maximum is the bandwidth"""
    return T.LamTensor(m.shape, lambda i, j: ops.absval(ops.mul(m.fn(i, j), ops.sub(j, i))), "real")


def tmax(I, w):
    """TMAX(w): uninterpreted and extensional (module docstring); memoised per tensor object"""
    ctx = I.ctx
    store = ctx.ghost.setdefault("tmax", [])
    for (t, c) in store:
        if t is w:
            return c
    c = ctx.fresh("tmax", "real")
    partners = store if ctx.ghost.get("tmax_link_all") else store[:ctx.ghost.get("tmax_ext_limit", EXT_LIMIT)]
    if len(partners) < len(store):
        I.session.note(f"TMAX extensionality: a matrix is linked to the first {EXT_LIMIT} matrices of its path "
                       "(and to all of them when it comes from a postcondition)")
    for (t, ct) in partners:
        _extensional(I, t, ct, w, c)
    store.append((w, c))
    return c


def _extensional(I, a, ca, b, cb):
    ctx = I.ctx
    if a.ndim != b.ndim:
        return
    same = ops.b_and(*[T.dim_eq(x, y) for x, y in zip(a.shape, b.shape)])
    if same is False:
        return
    idx = [ctx.fresh("ext", "int") for _ in a.shape]
    inside = z3.And(*[z3.And(k >= 0, k < to_z3(s)) for k, s in zip(idx, a.shape)])
    for k in idx:
        I.saw_index(k)
    differ = z3.And(inside, to_z3(ops.b_not(ops.equal(a.fn(*idx), b.fn(*idx)))))
    ctx.assume(z3.Implies(to_z3(same), z3.Or(differ, ca == cb)))


def g_bw(I, m):
    """ghost: the weighted bandwidth of m; memoised per tensor object"""
    memo = I.ctx.ghost.setdefault("bw_of", {})
    if m.tid not in memo:
        memo[m.tid] = (m, tmax(I, weighted(m)))
    return memo[m.tid][1]


# ----------------------------------------------------------------------------------------------
# models of external calls / tensor methods used by optimiser.py
# ----------------------------------------------------------------------------------------------
def t_arange(I, *a, dtype=None, device=None):
    from pyvc import intrinsics as X
    a = [X._scalar(x) for x in a]
    if len(a) == 3:
        if not all(isinstance(x, (int, Fraction)) for x in a) or a[2] <= 0:
            raise Unsupported("torch.arange with a symbolic step")
        lo, hi, st = [Fraction(x) for x in a]
        cnt = max(0, -((lo - hi) // st))          # ceil((hi - lo) / step)
        vals = [lo + st * k for k in range(cnt)]
        return T.from_nested(vals, "real")
    r = X.t_arange(I, *a, dtype=dtype, device=device)
    if len(a) == 1 and r.dtype == "int" and r.inverse is None:
        r.inverse = r               # arange(n) is its own two-sided inverse
    return r


def tensor_equal(I, a, b, same_shape=True):
    """torch.equal over a symbolic shape: a Boolean e with (e -> all elements equal) and a Skolem
    witness of a differing element for (not e)"""
    ctx = I.ctx
    if a.ndim != 1:
        raise Unsupported("torch.equal of symbolic-shape tensors of rank != 1")
    n = a.shape[0]
    e = ctx.fresh("equal", "bool")
    w = ctx.fresh("w", "int")
    I.saw_index(w)
    ss = to_z3(same_shape)
    ctx.assume(z3.Implies(e, ss))
    ctx.assume(z3.Implies(z3.And(ss, z3.Not(e)),
                          z3.And(w >= 0, w < to_z3(n), to_z3(ops.b_not(ops.equal(a.fn(w), b.fn(w)))))))
    I.add_forall(ForallV(lambda k: ops.b_implies(e, ops.equal(a.fn(k), b.fn(k))), 0, n, "k"))
    return e


def tensor_view(I, t, shp):
    """arange(n).view(-1, 1) / .view(1, -1): column / row vector of a 1-d tensor"""
    shp = tuple(shp)
    if t.ndim == 1 and shp == (-1, 1):
        return T.LamTensor((t.shape[0], 1), lambda i, j: t.fn(i), t.dtype)
    if t.ndim == 1 and shp == (1, -1):
        return T.LamTensor((1, t.shape[0]), lambda i, j: t.fn(j), t.dtype)
    raise Unsupported(f"tensor view{shp}")


def tensor_max(I, x):
    c = tmax(I, x)
    return T.LamTensor((), lambda: c, "real")


def rcm(I, m, symmetric_mode=False):
    if not isinstance(m, T.LamTensor) or m.ndim != 2:
        raise Unsupported("reverse_cuthill_mckee of a non-matrix")
    I.session.note("scipy.sparse.csgraph.reverse_cuthill_mckee: assumed contract (returns a permutation "
                   "of range(n) for an n x n matrix)")
    return perm_tensor(I, "rcm", m.shape[0])


def randperm(I, n, **kw):
    I.session.note("torch.randperm(n): assumed contract (returns a permutation of range(n))")
    return perm_tensor(I, "randperm", n)


def install_models(reg):
    symstr.install(reg)
    reg.external["torch.arange"] = t_arange
    reg.external["torch.randperm"] = randperm
    reg.external["torch.from_numpy"] = lambda I, x: x
    reg.external["scipy.sparse.csr_matrix"] = lambda I, x, *a, **k: x
    reg.external["scipy.sparse.csgraph.reverse_cuthill_mckee"] = rcm
    reg.external["itertools.chain"] = lambda I, *its: [x for it in its for x in I.iterate(it)]
    reg.tensor_equal = tensor_equal
    reg.tensor_view = tensor_view
    reg.tensor_max = tensor_max
    orig_method = reg.call_method

    def call_method(I, obj, name, args, kwargs):
        if isinstance(obj, T.LamTensor) and name in ("numpy", "copy"):
            return obj.copy() if name == "copy" else obj
        return orig_method(I, obj, name, args, kwargs)
    reg.call_method = call_method
    reg.ghost_funcs.update(isperm=g_isperm, permuted=g_permuted, absm=g_absm, BW=g_bw,
                           inverse_of=lambda I, t: t.inverse)


# ----------------------------------------------------------------------------------------------
# contracts
# ----------------------------------------------------------------------------------------------
def register(reg, prop="C32", optimiser=True):
    install_models(reg)
    none = lambda I, n: None

    # ---- eye_permutation -----------------------------------------------------------------------
    reg.add_contract(Contract(
        f"{PERM}:eye_permutation", property=prop,
        params={"n": "nat"},
        returns=lambda I, nm, env: perm_tensor(I, "eye", env["n"]),
        ensures=["len(result) == n", "forall(lambda k: result[k] == k, 0, n)"],
    ))

    # ---- permute_list / permute_tuple / permute_string -------------------------------------------
    def setup_seq(kind):
        def _setup(I, fr):
            n = sym_len(I)
            p = perm_tensor(I, "perm", n)
            fr.locals["perm"] = p
            if kind == "str":
                fr.locals["input_str"] = symstr.sym_str(I, "s", n)
            else:
                fr.locals["input_" + kind] = elem_seq(I, "x", n, kind)
        return _setup

    reg.add_contract(Contract(
        f"{PERM}:permute_list", property=prop,
        params={"input_list": none, "perm": none}, setup=setup_seq("list"),
        requires=["len(input_list) == len(perm)", "isperm(perm)"],
        returns=lambda I, nm, env: elem_seq(I, "permuted", env["perm"].shape[0], "list"),
        ensures=["len(result) == len(perm)",
                 "forall(lambda k: result[k] == input_list[perm[k]], 0, len(perm))"],
    ))
    reg.add_contract(Contract(
        f"{PERM}:permute_tuple", property=prop,
        params={"input_tuple": none, "perm": none}, setup=setup_seq("tuple"),
        requires=["len(input_tuple) == len(perm)", "isperm(perm)"],
        returns=lambda I, nm, env: elem_seq(I, "permuted", env["perm"].shape[0], "tuple"),
        ensures=["len(result) == len(perm)",
                 "forall(lambda k: result[k] == input_tuple[perm[k]], 0, len(perm))"],
    ))
    reg.add_contract(Contract(
        f"{PERM}:permute_string", property=prop,
        params={"input_str": none, "perm": none}, setup=setup_seq("str"),
        requires=["len(input_str) == len(perm)", "isperm(perm)"],
        returns=lambda I, nm, env: symstr.sym_str(I, "permuted", env["perm"].shape[0]),
        ensures=["len(result) == len(perm)",
                 "forall(lambda k: result[k] == input_str[perm[k]], 0, len(perm))"],
    ))

    # ---- inv_permutation ---------------------------------------------------------------------------
    def setup_inv(I, fr):
        fr.locals["permutation"] = perm_tensor(I, "perm", sym_len(I))

    def returns_inv(I, nm, env):
        p = env["permutation"]
        if p.inverse is not None and getattr(p.inverse, "is_declared_perm", False):
            return p.inverse            # the Skolem inverse itself satisfies every clause below
        return perm_tensor(I, "inv", p.shape[0])

    reg.add_contract(Contract(
        f"{PERM}:inv_permutation", property=prop,
        params={"permutation": none}, setup=setup_inv,
        requires=["isperm(permutation)"],
        returns=returns_inv,
        ensures=["len(result) == len(permutation)",
                 # the defining equation of the inverse ...
                 "forall(lambda i: result[permutation[i]] == i, 0, len(permutation))",
                 # ... and the result is itself a permutation of range(n) (two-sided inverse: `permutation`)
                 "forall(lambda k: 0 <= result[k] and result[k] < len(permutation)"
                 " and permutation[result[k]] == k, 0, len(permutation))"],
    ))

    # ---- permute_tensor ------------------------------------------------------------------------------
    def setup_t1(I, fr):
        n = sym_len(I)
        fr.locals["perm"] = perm_tensor(I, "perm", n)
        fr.locals["tensor"] = reg.sym_tensor(I, "t", (n,))

    def setup_t2(I, fr):
        n, r, c = sym_len(I), sym_len(I, "rows"), sym_len(I, "cols")
        fr.locals["perm"] = perm_tensor(I, "perm", n)
        fr.locals["tensor"] = reg.sym_tensor(I, "t", (r, c))

    def setup_t3(I, fr):
        n = sym_len(I)
        fr.locals["perm"] = perm_tensor(I, "perm", n)
        fr.locals["tensor"] = reg.sym_tensor(I, "t", (n, n, n))

    reg.add_contract(Contract(
        f"{PERM}:permute_tensor", property=prop, label="permute_tensor[1d]",
        params={"tensor": none, "perm": none}, setup=setup_t1,
        requires=["isperm(perm)"], raises={},
        returns=lambda I, nm, env: _like(I, env["tensor"], (env["perm"].shape[0],)),
        ensures=["result.ndim == 1 and len(result) == len(perm)",
                 "forall(lambda k: result[k] == tensor[perm[k]], 0, len(perm))"],
    ), callsite=False)

    # a permuted permutation is a permutation (explicit two-sided inverse perm^-1[tensor^-1[.]]);
    # this justifies `_like` returning a declared permutation when the vector is one
    def setup_t1p(I, fr):
        n = sym_len(I)
        fr.locals["perm"] = perm_tensor(I, "perm", n)
        fr.locals["tensor"] = perm_tensor(I, "acc", n)

    reg.add_contract(Contract(
        f"{PERM}:permute_tensor", property=prop, label="permute_tensor[1d,permutation]",
        params={"tensor": none, "perm": none}, setup=setup_t1p,
        requires=["isperm(perm)", "isperm(tensor)"], raises={},
        post_setup=lambda I, fr: fr.locals.__setitem__(
            "W", g_permuted(I, fr.locals["perm"].inverse, fr.locals["tensor"].inverse)),
        ensures=["forall(lambda k: result[k] == tensor[perm[k]], 0, len(perm))",
                 "forall(lambda k: 0 <= result[k] and result[k] < len(perm) and W[result[k]] == k"
                 " and 0 <= W[k] and W[k] < len(perm) and result[W[k]] == k, 0, len(perm))"],
    ), callsite=False)
    reg.add_contract(Contract(
        f"{PERM}:permute_tensor", property=prop, label="permute_tensor[2d]",
        params={"tensor": none, "perm": none}, setup=setup_t2,
        requires=["isperm(perm)", "tensor.shape[0] == len(perm)"],
        raises={"ValueError": "tensor.shape[0] != tensor.shape[1]"},
        raises_when={"ValueError": "tensor.shape[0] != tensor.shape[1]"},
        returns=lambda I, nm, env: _like(I, env["tensor"], (env["perm"].shape[0], env["perm"].shape[0])),
        ensures=["result.ndim == 2 and result.shape[0] == len(perm) and result.shape[1] == len(perm)",
                 "forall(lambda i: forall(lambda j: result[i, j] == tensor[perm[i], perm[j]], 0, len(perm)),"
                 " 0, len(perm))"],
    ), callsite=False)
    reg.add_contract(Contract(
        f"{PERM}:permute_tensor", property=prop, label="permute_tensor[3d]",
        params={"tensor": none, "perm": none}, setup=setup_t3,
        requires=["isperm(perm)"],
        raises={"ValueError": None}, raises_when={"ValueError": "True"},
        ensures=["False"],
    ), callsite=False)
    # call sites: the two-line body is inlined (exact element function)
    reg.policies[f"{PERM}:permute_tensor"] = "inline"

    if optimiser:
        register_optimiser(reg, prop)


# ----------------------------------------------------------------------------------------------
# lemmas derived from the contracts (the helpers are called through their contracts only)
# ----------------------------------------------------------------------------------------------
def _fn(I, name):
    return I.module_global(I.repo.module(PERM), name)


def _by_contract(I, reg, key, args):
    c = reg.all[key]
    return reg.apply_contract(I, c, _fn(I, c.target.split(":")[1]), args, {})


def _skolem(I, n, label="k"):
    k = I.ctx.fresh(label, "int")
    I.ctx.assume(z3.And(k >= 0, k < to_z3(n)))
    I.saw_index(k)
    return k


def make_lemmas(reg):
    def inverse_undoes(kind):
        """permute(permute(x, p), inv_permutation(p)) == x and permute(permute(x, inv_permutation(p)), p)
        == x, element-wise, for one container kind (helpers used through their contracts)"""
        def lemma(I, ctx):
            n = sym_len(I)
            p = perm_tensor(I, "p", n)
            inv = I.call_function(_fn(I, "inv_permutation"), [p], {})
            orders = {"p-then-inv": (p, inv), "inv-then-p": (inv, p)}
            if kind in ("list", "tuple", "string"):
                fname = {"list": "permute_list", "tuple": "permute_tuple", "string": "permute_string"}[kind]
                x = symstr.sym_str(I, "s", n) if kind == "string" else elem_seq(I, "x", n, kind)
                for tag, (a, b) in orders.items():
                    y = I.call_function(_fn(I, fname), [x, a], {})
                    z = I.call_function(_fn(I, fname), [y, b], {})
                    k = _skolem(I, n)
                    ctx.prove(f"{tag}/length", ops.equal(z.length, n), "lemma")
                    ctx.prove(f"{tag}/element", ops.equal(z.fn(k), x.fn(k)), "lemma")
            elif kind == "vector":
                v = reg.sym_tensor(I, "v", (n,))
                for tag, (a, b) in orders.items():
                    y = _by_contract(I, reg, f"{PERM}:permute_tensor[1d]", [v, a])
                    z = _by_contract(I, reg, f"{PERM}:permute_tensor[1d]", [y, b])
                    k = _skolem(I, n)
                    ctx.prove(f"{tag}/element", ops.equal(z.fn(k), v.fn(k)), "lemma")
            else:
                m = reg.sym_tensor(I, "m", (n, n))
                for tag, (a, b) in orders.items():
                    y = _by_contract(I, reg, f"{PERM}:permute_tensor[2d]", [m, a])
                    z = _by_contract(I, reg, f"{PERM}:permute_tensor[2d]", [y, b])
                    i, j = _skolem(I, n, "i"), _skolem(I, n, "j")
                    ctx.prove(f"{tag}/element", ops.equal(z.fn(i, j), m.fn(i, j)), "lemma")
        return lemma

    def same_elements(I, ctx):
        """list, tuple, string and vector helpers move the same elements: position k of every
        result holds the source element perm[k]; row i / column j of a permuted matrix are source
        row perm[i] / column perm[j]"""
        n = sym_len(I)
        p = perm_tensor(I, "p", n)
        e = z3.Function("elem", z3.IntSort(), z3.IntSort())
        src = lambda k: e(to_z3(k))
        xs = SymSeq(n, src, "list")
        xt = SymSeq(n, src, "tuple")
        s = symstr.SymStr(n, src)
        v = T.LamTensor((n,), src, "int")
        rl = I.call_function(_fn(I, "permute_list"), [xs, p], {})
        rt = I.call_function(_fn(I, "permute_tuple"), [xt, p], {})
        rs = I.call_function(_fn(I, "permute_string"), [s, p], {})
        rv = _by_contract(I, reg, f"{PERM}:permute_tensor[1d]", [v, p])
        k = _skolem(I, n)
        ctx.prove("list==tuple", ops.equal(rl.fn(k), rt.fn(k)), "lemma")
        ctx.prove("list==string", ops.equal(rl.fn(k), rs.fn(k)), "lemma")
        ctx.prove("list==vector", ops.equal(rl.fn(k), rv.fn(k)), "lemma")
        ctx.prove("list==source[perm]", ops.equal(rl.fn(k), src(p.fn(k))), "lemma")
        m = reg.sym_tensor(I, "m", (n, n))
        rm = _by_contract(I, reg, f"{PERM}:permute_tensor[2d]", [m, p])
        i, j = _skolem(I, n, "i"), _skolem(I, n, "j")
        row = T.LamTensor((n,), lambda c: m.fn(p.fn(i), c), "real")
        rrow = _by_contract(I, reg, f"{PERM}:permute_tensor[1d]", [row, p])
        ctx.prove("matrix-row==vector-of-source-row", ops.equal(rm.fn(i, j), rrow.fn(j)), "lemma")

    def composition(I, ctx):
        """permute(permute(M, a), o) == permute(M, permute(a, o)): the accumulation order used by
        minimize_bandwidth_impl; and permute(x, eye) == x"""
        n = sym_len(I)
        a, o = perm_tensor(I, "a", n), perm_tensor(I, "o", n)
        m = reg.sym_tensor(I, "m", (n, n))
        ma = _by_contract(I, reg, f"{PERM}:permute_tensor[2d]", [m, a])
        mao = _by_contract(I, reg, f"{PERM}:permute_tensor[2d]", [ma, o])
        ao = _by_contract(I, reg, f"{PERM}:permute_tensor[1d]", [a, o])
        direct = _by_contract(I, reg, f"{PERM}:permute_tensor[2d]", [m, ao])
        i, j = _skolem(I, n, "i"), _skolem(I, n, "j")
        ctx.prove("compose", ops.equal(mao.fn(i, j), direct.fn(i, j)), "lemma")
        ctx.prove("compose-range", ops.b_and(ops.compare(ast.GtE, ao.fn(i), 0), ops.compare(ast.Lt, ao.fn(i), n)),
                  "lemma")
        eye = I.call_function(_fn(I, "eye_permutation"), [n], {})
        me = _by_contract(I, reg, f"{PERM}:permute_tensor[2d]", [m, eye])
        ctx.prove("identity", ops.equal(me.fn(i, j), m.fn(i, j)), "lemma")

    return [(f"inverse_undoes_permute[{k}]", inverse_undoes(k)) for k in ("list", "tuple", "string", "vector", "matrix")] + [
            ("bandwidth_abs_and_extensionality", lemma_bw_abs), ("same_elements", same_elements),
            ("composition", composition)]


def tier():
    import os
    import sys
    if "thorough" in sys.argv or os.environ.get("VERIF_TIER") == "thorough":
        return "thorough"
    return "quick"


def register_optimiser(reg, prop):
    none = lambda I, n: None
    ghost = lambda I: I.ctx.ghost

    def sq_matrix(I, fr, name, lo=1):
        n = sym_len(I, "n", lo)
        fr.locals[name] = reg.sym_tensor(I, name, (n, n))
        fr.locals["N"] = n
        return n

    # ---- matrix_bandwidth: max |mat[i,j] * (j - i)| -----------------------------------------------
    reg.add_contract(Contract(
        f"{OPT}:matrix_bandwidth", property=prop,
        params={"mat": none}, setup=lambda I, fr: sq_matrix(I, fr, "mat"),
        requires=["mat.ndim == 2", "mat.shape[0] == mat.shape[1]", "mat.shape[0] >= 1"],
        raises={}, returns="real",
        ensures=["result == BW(mat)"],
    ))

    # ---- minimize_bandwidth_above_threshold: whatever SciPy's RCM returns for the truncated matrix -
    def setup_thr(I, fr):
        sq_matrix(I, fr, "mat")
        fr.locals["threshold"] = I.ctx.fresh("threshold", "real")

    reg.add_contract(Contract(
        f"{OPT}:minimize_bandwidth_above_threshold", property=prop,
        params={"mat": none, "threshold": none}, setup=setup_thr,
        requires=["mat.ndim == 2", "mat.shape[0] == mat.shape[1]"],
        raises={}, returns=lambda I, nm, env: perm_tensor(I, "rcm", env["mat"].shape[0]),
        ensures=["len(result) == mat.shape[0]", "isperm(result)"],
    ))

    # ---- minimize_bandwidth_global: the best of the 90 threshold candidates ------------------------
    # Inside the sweep the two callees are used through python models that ARE their contracts
    # (same precondition, checked once per call as an obligation; same postcondition by
    # construction): 180 modular calls without 180 consistency checks of the path condition.
    def square(I, m, who):
        ok = isinstance(m, T.LamTensor) and m.ndim == 2
        I.ctx.prove(f"call:{who}/pre(square matrix)", ops.b_and(ok, T.dim_eq(m.shape[0], m.shape[1])) if ok else False, "pre")

    def above_threshold_model(I, mat, threshold):
        square(I, mat, "minimize_bandwidth_above_threshold")
        return perm_tensor(I, "rcm", mat.shape[0])

    def bandwidth_model(I, mat):
        square(I, mat, "matrix_bandwidth")
        return g_bw(I, mat)

    sweep_policies = {f"{OPT}:minimize_bandwidth_above_threshold": above_threshold_model,
                      f"{OPT}:matrix_bandwidth": bandwidth_model}

    def setup_global(I, fr):
        sq_matrix(I, fr, "mat")
        I.ctx.ghost["tmax_ext_limit"] = 0        # no extensionality among the 90 candidates' matrices

    def post_global(I, fr):
        if "result" in fr.locals:
            # the postcondition's matrix is linked (extensionality) to the first two matrices the
            # code took a maximum of: |mat| (amplitude) and the first candidate's weighted matrix
            I.ctx.ghost["tmax_ext_limit"] = 2
        fr.locals.update(
            n_candidates=lambda I2: len(I2.ctx.ghost["min_with_key"][-1]["items"]),
            chosen=lambda I2: I2.ctx.ghost["min_with_key"][-1]["index"],
            chosen_key=lambda I2: I2.ctx.ghost["min_with_key"][-1]["key"],
            candidate_key=lambda I2, c: I2.ctx.ghost["min_with_key"][-1]["keys"][c],
            candidate=lambda I2, c: I2.ctx.ghost["min_with_key"][-1]["items"][c])
    reg.add_contract(Contract(
        f"{OPT}:minimize_bandwidth_global", property=prop,
        params={"mat": none}, setup=setup_global, policies=sweep_policies,
        requires=["mat.ndim == 2", "mat.shape[0] == mat.shape[1]", "mat.shape[0] >= 1"],
        raises={}, returns=lambda I, nm, env: perm_tensor(I, "opt", env["mat"].shape[0]),
        ensures=["len(result) == mat.shape[0]", "isperm(result)"],
    ))
    # verification-only face: the choice is one of the 90 candidates, with the smallest bandwidth
    reg.add_contract(Contract(
        f"{OPT}:minimize_bandwidth_global", property=prop, label="minimize_bandwidth_global[best-of-90]",
        params={"mat": none}, setup=setup_global, post_setup=post_global, policies=sweep_policies,
        requires=["mat.ndim == 2", "mat.shape[0] == mat.shape[1]", "mat.shape[0] >= 1"],
        raises={},
        ensures=["n_candidates() == 90",
                 "0 <= chosen() and chosen() < 90"]
                + [f"chosen_key() <= candidate_key({c})" for c in (0, 1, 44, 88, 89)]
                + [f"implies(chosen() == {c}, forall(lambda k: result[k] == candidate({c})[k], 0, N))"
                   for c in (0, 44, 89)]
                # the key is the bandwidth of the matrix permuted by the candidate (first candidate; the
                # other 89 go through the same lambda)
                + ["candidate_key(0) == BW(permuted(mat, candidate(0)))"],
    ), callsite=False)

    # ---- minimize_bandwidth_impl: accumulate improving permutations ---------------------------------
    def setup_impl(I, fr):
        n = sq_matrix(I, fr, "matrix")
        fr.locals["initial_perm"] = perm_tensor(I, "initial", n)
        ghost_impl(I, fr)

    def ghost_impl(I, fr):
        m, p = fr.locals["matrix"], fr.locals["initial_perm"]
        fr.locals.setdefault("N", m.shape[0])
        fr.locals["M0"] = m
        key = ("PM0", m.tid, p.tid)
        memo = I.ctx.ghost.setdefault("impl_ghost", {})
        if key not in memo:
            memo[key] = g_permuted(I, m, p)
        fr.locals["PM0"] = memo[key]                 # the matrix in its initial order
        I.ctx.ghost["impl_n"] = m.shape[0]

    reg.add_contract(Contract(
        f"{OPT}:minimize_bandwidth_impl", property=prop,
        params={"matrix": none, "initial_perm": none}, setup=setup_impl, post_setup=ghost_impl,
        requires=["matrix.ndim == 2", "matrix.shape[0] == matrix.shape[1]", "matrix.shape[0] >= 1",
                  "len(initial_perm) == matrix.shape[0]", "isperm(initial_perm)"],
        raises={"NotImplementedError": None},
        loops={0: dict(
            locals={"acc_permutation": lambda I, nm: perm_tensor(I, "acc", I.ctx.ghost["impl_n"])},
            invariant=[
                "isperm(acc_permutation)",
                # the working matrix is the input matrix in the accumulated order
                "forall(lambda i: forall(lambda j: matrix[i, j] == M0[acc_permutation[i], acc_permutation[j]],"
                " 0, N), 0, N)",
                "bandwidth == BW(matrix)",
                # only strict improvements are accepted
                "bandwidth <= BW(PM0)",
            ])},
        returns=lambda I, nm, env: (perm_tensor(I, "best", env["matrix"].shape[0]), I.ctx.fresh("bandwidth", "real")),
        ensures=["len(result[0]) == N", "isperm(result[0])",
                 "result[1] == BW(permuted(matrix, result[0]))",
                 "result[1] <= BW(PM0)"],
    ))

    # ---- minimize_bandwidth ------------------------------------------------------------------------------
    def is_symmetric_model(I, m, tol=None):
        g = I.ctx.ghost
        if "symmetric" not in g:
            g["symmetric"] = I.ctx.fresh("symmetric", "bool")
        I.session.note("is_symmetric(matrix) modelled as an arbitrary Boolean (torch.allclose not interpreted)")
        return g["symmetric"]
    reg.policies[f"{OPT}:is_symmetric"] = is_symmetric_model
    reg.ghost_funcs["symmetric"] = lambda I: is_symmetric_model(I, None)

    def setup_mb(samples):
        def _setup(I, fr):
            sq_matrix(I, fr, "input_matrix")
            fr.locals["samples"] = samples
        return _setup

    def post_mb(I, fr):
        if "result" in fr.locals:
            I.ctx.ghost["tmax_link_all"] = True      # the postcondition's matrices: full extensionality

    # (samples = 100, the default, was tried: 101 modular calls of minimize_bandwidth_impl with their
    # consistency checks did not finish within 30 minutes on the loaded machine -- not claimed)
    # samples = 10 did not finish in 15 minutes either (the cost grows faster than linearly with the
    # number of candidates): both tiers use samples in {0, 3}
    sample_counts = (0, 3)
    for smp in sample_counts:
        reg.add_contract(Contract(
            f"{OPT}:minimize_bandwidth", property=prop, label=f"minimize_bandwidth[samples={smp}]",
            params={"input_matrix": none, "samples": none}, setup=setup_mb(smp),
            post_setup=post_mb if smp <= 10 else None,
            requires=["input_matrix.ndim == 2", "input_matrix.shape[0] == input_matrix.shape[1]",
                      "input_matrix.shape[0] >= 1"],
            # the only admissible failure: the input is not symmetric; NotImplementedError = the
            # optimiser gives up after 100 rounds (no result is returned then)
            raises={"AssertionError": "not symmetric()", "NotImplementedError": None},
            raises_when={"AssertionError": "not symmetric()"},
            ensures=["len(result) == N", "isperm(result)"] + ([
                # no worse than the original order (the sign of the couplings is irrelevant)
                "BW(permuted(absm(input_matrix), result)) <= BW(absm(input_matrix))",
                "BW(permuted(absm(input_matrix), result)) <= BW(input_matrix)"] if smp <= 10 else []),
            # samples = 100 (thorough tier, the default): the bandwidth clauses are carried by the code's
            # own final `assert best_bandwidth <= matrix_bandwidth(input_matrix)`, which must not be
            # able to fail (raises: AssertionError only for a non-symmetric input); relating the chosen
            # candidate's bandwidth to BW(permuted(|M|, result)) needs extensionality against all 202
            # candidate matrices and is done for samples in {0, 3} only
        ), callsite=False)
    # what MPSBackendImpl.__init__ sees
    reg.add_contract(Contract(
        f"{OPT}:minimize_bandwidth", property=prop,
        params={"input_matrix": none, "samples": "int"},
        requires=["input_matrix.ndim == 2", "input_matrix.shape[0] == input_matrix.shape[1]",
                  "input_matrix.shape[0] >= 1"],
        raises={"AssertionError": None, "NotImplementedError": None},
        returns=lambda I, nm, env: perm_tensor(I, "qubit_permutation", env["input_matrix"].shape[0]),
        ensures=["len(result) == input_matrix.shape[0]", "isperm(result)"],
    ))


def lemma_bw_abs(I, ctx):
    """BW(|M|) == BW(M): the bandwidth takes absolute values itself, so comparing the optimised
    bandwidth (computed on |M|) with matrix_bandwidth(M) of the signed input is right"""
    n = sym_len(I, "n", 1)
    m = I.reg.sym_tensor(I, "m", (n, n))
    ctx.prove("BW(abs(M)) == BW(M)", g_bw(I, g_absm(I, m)) == g_bw(I, m), "lemma")
    p = perm_tensor(I, "p", n)
    a = g_permuted(I, m, p)
    b = T.LamTensor((n, n), lambda i, j: m.fn(p.fn(i), p.fn(j)), "real")
    ctx.prove("BW is extensional (two constructions of one matrix)", g_bw(I, a) == g_bw(I, b), "lemma")
    eye = T.arange(n)
    ctx.prove("BW(permute(M, identity)) == BW(M)", g_bw(I, g_permuted(I, m, eye)) == g_bw(I, m), "lemma")
