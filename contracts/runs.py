"""Contracts for MPSBackend.run / SVBackend.run: one simulation per yielded trajectory, all of
them aggregated (C34); DMRG refuses the noise model actually used (C33)."""
import z3

from pyvc.registry import Contract
from pyvc.values import Opaque, SymObj, SymSeq, to_z3

from . import common, config as cfgc

ADAPTER = "emu_base.pulser_adapter"


def register(reg, prop="C34"):
    cfgc.register(reg, prop)

    def pulser_data_model(I, cref, args, kwargs):
        """PulserData(...) as seen by run(): the noise model actually used (config's or the device's)
        and a get_sequences() that yields NTOT items (its own contract, C23/C21: NTOT = sum of reps)."""
        ctx = I.ctx
        pd = SymObj("PulserData", ADAPTER)
        pd.fields["noise_model"] = cfgc.noise_model_obj(I, "used_noise_model")
        ntot = ctx.fresh("NTOT", "int")
        ctx.assume(ntot >= 0)
        ctx.ghost["NTOT"] = ntot
        ctx.ghost["pulser_data"] = pd
        pd.fields["get_sequences"] = lambda I2: SymSeq(ntot, lambda k: Opaque(f"sequence_data[{k}]"))
        return pd
    reg.class_policies[f"{ADAPTER}:PulserData"] = pulser_data_model

    def aggregate(I, results, *a, **k):
        from pyvc.intrinsics import b_len
        I.ctx.ghost["aggregated_len"] = b_len(I, results)
        I.ctx.ghost["aggregated_arg"] = results
        return Opaque("aggregated_results")
    reg.external["pulser.backend.Results.aggregate"] = aggregate
    reg.ghost_funcs["NTOT"] = lambda I: I.ctx.ghost["NTOT"]
    reg.ghost_funcs["aggregated_len"] = lambda I: I.ctx.ghost["aggregated_len"]
    reg.ghost_funcs["used_noise_types"] = lambda I: I.ctx.ghost["pulser_data"].fields["noise_model"].fields["noise_types"]

    def empty_results(I, name):
        n = I.ctx.fresh("len_results", "int")
        I.ctx.assume(n >= 0)
        return SymSeq(n, lambda k: Opaque(f"results[{k}]"))

    def backend(cls, module, cfg):
        def mk(I, n):
            o = SymObj(cls, module)
            o.fields["_config"] = cfg(I, "config")
            o.fields["_sequence"] = Opaque("sequence")
            return o
        return mk

    loops = {0: dict(invariant=["len(results) == _k"], locals={"results": empty_results})}
    reg.add_contract(Contract(
        "emu_mps.mps_backend:MPSBackend.run", property=prop,
        params={"self": backend("MPSBackend", "emu_mps.mps_backend", cfgc.mps_config_obj)},
        loops=loops,
        raises={"NotImplementedError": "self._config.solver == DMRG"},
        ensures=[
            # exactly one simulation per trajectory Pulser requests, and all of them are aggregated
            "aggregated_len() == NTOT()",
            # (C33) DMRG ran only if the noise model actually used has no noise
            "implies(self._config.solver == DMRG, len(used_noise_types()) == 0)",
        ],
    ))

    def sv_config(I, n):
        o = SymObj("SVConfig", "emu_sv.sv_config")
        o.fields["_backend_options"] = {"dt": I.ctx.fresh("dt", "real"), "observables": cfgc.observables_seq(I)}
        return o
    reg.add_class("SVConfig", module="emu_sv.sv_config", getattr_dict="_backend_options", fields={})
    reg.add_contract(Contract(
        "emu_sv.sv_backend:SVBackend.run", property=prop,
        params={"self": backend("SVBackend", "emu_sv.sv_backend", sv_config)},
        loops=loops,
        raises={"NotImplementedError": None},     # emu-sv refuses XY / leakage sequences (C04)
        ensures=["aggregated_len() == NTOT()"],
    ))
