"""Contract for emu_base.pulser_adapter._extract_omega_delta_phi (C22).

Bounds and domain: the number of (filtered) qubits is fixed to Q = 2 (each column is handled by
the same loop body; the loop over qubits is unrolled) -- the numbers of steps T and of Pulser
samples D are symbolic (unbounded).  PCHIP1D is used through its contracts (C20)."""
import z3

from pyvc import ops, tensor as T
from pyvc.registry import Contract
from pyvc.values import CplxV, SymObj, SymSeq, to_z3

from . import common, pchip

ADAPTER = "emu_base.pulser_adapter"
Q = 2
QIDS = tuple(f"q{k}" for k in range(Q))
NAMES = ("amp", "det", "phase")


def register(reg, prop="C22"):
    pchip.register(reg, prop)

    def setup(basis):
        def _setup(I, fr):
            ctx = I.ctx
            D = ctx.fresh("D", "int")               # number of Pulser samples per signal
            Tn = ctx.fresh("T", "int")              # number of solver steps
            ctx.assume(z3.And(D >= 0, Tn >= 1))
            sig = {q: {nm: reg.sym_tensor(I, f"{nm}_{q}", (D,)) for nm in NAMES} for q in QIDS}
            samples = SymObj("SequenceSamples", None)
            samples.fields["max_duration"] = D
            samples.fields["to_nested_dict"] = lambda I2, **kw: {"Local": {basis: {q: dict(sig[q]) for q in QIDS}}}
            times = common.sym_seq(I, "target_times", sort="real")
            ctx.assume(to_z3(times.length) == Tn + 1)
            fr.locals.update(noisy_samples=samples, qubit_ids=QIDS, target_times=times)
            fr.locals["SIG"] = sig
            fr.locals["D"] = D
            fr.locals["NT"] = Tn

            def call_of(I2, name, q):
                y = sig[QIDS[q]][name]
                objs = [o for (o, x, yy) in I2.ctx.ghost.get("pchip_objs", []) if yy is y]
                calls = [(xq, r) for (o, xq, r) in I2.ctx.ghost.get("pchip_calls", [])
                         if any(o is ob for ob in objs)]
                if len(objs) != 1 or len(calls) != 1:
                    from pyvc.values import Unsupported
                    raise Unsupported(f"expected exactly one PCHIP1D built on {name}[{QIDS[q]}] and one call of it, "
                                      f"found {len(objs)} / {len(calls)}")
                return objs[0], calls[0]
            # ghost: the interpolant of signal `name` of qubit q, as evaluated by the code
            fr.locals["interp"] = lambda I2, name, q, k: call_of(I2, name, q)[1][1].fn(k)
            fr.locals["interp_at"] = lambda I2, name, q, k: call_of(I2, name, q)[1][0].fn(k)
            fr.locals["grid_of"] = lambda I2, name, q, i: [x for (o, x, yy) in I2.ctx.ghost["pchip_objs"]
                                                          if yy is sig[QIDS[q]][name]][0].fn(i)
            fr.locals["re"] = lambda I2, v: CplxV.of(v.fn() if isinstance(v, T.LamTensor) else v).re
            fr.locals["im"] = lambda I2, v: CplxV.of(v.fn() if isinstance(v, T.LamTensor) else v).im
        return _setup

    none = lambda I, n: None
    base_requires = [
        # target times: start at 0, non-decreasing (C21 provides strictly increasing)
        "target_times[0] == 0",
        "forall(lambda k: target_times[k] <= target_times[k + 1], 0, NT)",
    ]

    def clauses(q):
        return [
            # every signal is interpolated on Pulser's sample grid 0, 1, ..., D-1 ...
            f"forall(lambda i: grid_of('amp', {q}, i) == i and grid_of('det', {q}, i) == i"
            f" and grid_of('phase', {q}, i) == i, 0, D)",
            # ... and evaluated at the step midpoints
            f"forall(lambda k: interp_at('amp', {q}, k) == (target_times[k] + target_times[k + 1]) / 2"
            f" and interp_at('det', {q}, k) == (target_times[k] + target_times[k + 1]) / 2"
            f" and interp_at('phase', {q}, k) == (target_times[k] + target_times[k + 1]) / 2, 0, NT)",
            # detuning and phase of atom q at step k are those interpolants
            f"forall(lambda k: re(result[1][k, {q}]) == interp('det', {q}, k) and im(result[1][k, {q}]) == 0, 0, NT)",
            f"forall(lambda k: re(result[2][k, {q}]) == interp('phase', {q}, k) and im(result[2][k, {q}]) == 0, 0, NT)",
            # amplitude: the interpolant, except that a negative value may be replaced by 0 (the
            # property wants the amplitude never negative; where that clamp applies is left open)
            f"forall(lambda k: im(result[0][k, {q}]) == 0 and (re(result[0][k, {q}]) == interp('amp', {q}, k)"
            f" or (re(result[0][k, {q}]) == 0 and interp('amp', {q}, k) < 0)), 0, NT)",
        ]

    for basis in ("ground-rydberg", "XY"):
        reg.add_contract(Contract(
            f"{ADAPTER}:_extract_omega_delta_phi", property=prop,
            label=f"_extract_omega_delta_phi[{basis}]",
            params={"noisy_samples": none, "qubit_ids": none, "target_times": none}, setup=setup(basis),
            requires=list(base_requires),
            raises={"AssertionError": "noisy_samples.max_duration != target_times[NT]",
                    "ValueError": "D < 2"},
            ensures=["result[0].shape == (NT, 2) and result[1].shape == (NT, 2) and result[2].shape == (NT, 2)"]
                    + clauses(0) + clauses(1),
        ), callsite=False)

    # amplitude never negative -- even for steps after the last Pulser sample
    reg.add_contract(Contract(
        f"{ADAPTER}:_extract_omega_delta_phi", property=prop,
        label="_extract_omega_delta_phi[amplitude>=0]",
        params={"noisy_samples": none, "qubit_ids": none, "target_times": none}, setup=setup("ground-rydberg"),
        requires=list(base_requires) + [
            # (target times start at 0 and increase: none is negative -- C21)
            "forall(lambda k: target_times[k] >= 0, 0, NT + 1)",
            "forall(lambda i: SIG['q0']['amp'][i] >= 0 and SIG['q1']['amp'][i] >= 0, 0, D)"],
        raises={"AssertionError": "noisy_samples.max_duration != target_times[NT]", "ValueError": "D < 2"},
        ensures=["forall(lambda k: re(result[0][k, 0]) >= 0 and re(result[0][k, 1]) >= 0, 0, NT)"],
    ), callsite=False)
