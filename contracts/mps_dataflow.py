"""Data flow of the qubit permutation and of the bad-atom filter through emu-mps
(emu_mps/mps_backend_impl.py, emu_mps/mps_backend.py) -- C03, C02, C25.

Ghost convention (properties.jsonl, C02 anchors):  MPS site k holds register atom perm[k],
perm = impl.qubit_permutation.  With a bad-atom filter F (one Boolean per *site*), the reduced
chain has one site per True entry: reduced site a is full site sel[a] (sel = increasing
enumeration of the True positions of F), i.e. register atom perm[sel[a]].

Register-order data (never written by the backend): pulser_data.omega/delta/phi[t, atom],
pulser_data.interaction_matrix(t)[atom, atom], pulser_data.qubit_ids[atom], pulser_data.bad_atoms[atom].

Element values (drives, matrix entries, characters, ids) are only moved, so they are uninterpreted;
complex drives are modelled as reals (A1/A3: nothing is computed with them here).
"""
import z3

from pyvc import maskidx, ops, symstr, tensor as T
from pyvc.registry import Contract
from pyvc.values import EnumV, ForallV, Opaque, SymObj, SymSeq, Unsupported, to_z3

from . import common, config as cfgc, permutations as P

IMPL = "emu_mps.mps_backend_impl"
BACKEND = "emu_mps.mps_backend"
ADAPTER = "emu_base.pulser_adapter"
MPSMOD = "emu_mps.mps"
HAM = "emu_mps.hamiltonian"
DRIVES = ("omega", "delta", "phi")


# ----------------------------------------------------------------------------------------------
# symbolic objects
# ----------------------------------------------------------------------------------------------
def use_interp(I):
    I.ctx.ghost["interp"] = I          # the mask model needs the interpreter


def sequence_data(I, N=None, Tn=None):
    """SequenceData: T steps x N atoms, everything in register order"""
    ctx = I.ctx
    use_interp(I)
    if N is None:
        N = ctx.fresh("N", "int")
        ctx.assume(N >= 0)
    if Tn is None:
        Tn = ctx.fresh("T", "int")
        ctx.assume(Tn >= 1)
    reg = I.reg
    d = SymObj("SequenceData", ADAPTER)
    mats = {}

    def interaction_matrix(I2, t):
        key = str(z3.simplify(to_z3(t)))
        if key not in mats:
            mats[key] = reg.sym_tensor(I2, I2.ctx.fresh_name("J"), (N, N))
        return mats[key]
    bad = z3.Function(ctx.fresh_name("bad_atoms"), z3.IntSort(), z3.BoolSort())

    def bad_fn(k):
        I.saw_read(bad.name(), (k,))
        return bad(to_z3(k))
    times = common.sym_seq(I, "target_times", sort="real")
    ctx.assume(to_z3(times.length) == to_z3(Tn) + 1)
    d.fields.update(
        omega=reg.sym_tensor(I, "omega", (Tn, N)), delta=reg.sym_tensor(I, "delta", (Tn, N)),
        phi=reg.sym_tensor(I, "phi", (Tn, N)),
        interaction_matrix=interaction_matrix,
        qubit_ids=P.elem_seq(I, "qubit_ids", N, "tuple"),
        bad_atoms=SymSeq(N, bad_fn, "tuple"),
        lindblad_ops=common.sym_seq(I, "lindblad_ops"),
        state_prep_error=ctx.fresh("state_prep_error", "real"),
        target_times=times, eigenstates=["r", "g"],
        hamiltonian_type=EnumV("HamiltonianType", common._enum_member(I, "hamiltonian_type", ["Rydberg", "XY"])),
    )
    d.frozen = True
    d.ghost_N, d.ghost_T = N, Tn
    return d


class ResultsModel:
    """what the permutation code uses of pulser.backend.Results"""
    TAGS = ("bitstrings", "occupation", "correlation_matrix")
    # pulser stores the results of Observable(tag_suffix=s) under f"{base_tag}_{s}" (needed as soon as
    # two observables of one kind are requested); MPSConfig.check_permutable_observables looks at the
    # BASE tag, so all of these can occur with the qubit-order optimisation on.  Representative
    # suffixed tags of the three per-atom kinds, and of kinds that are NOT per atom (must stay untouched)
    SUFFIXED = ("bitstrings_z", "occupation_x", "correlation_matrix_y")
    NOT_PER_ATOM = ("energy", "energy_x", "energy_variance_corr")
    ALL_TAGS = TAGS + SUFFIXED + NOT_PER_ATOM

    @staticmethod
    def kind_of(tag):
        """the per-atom kind of a result tag (base tag, or base tag + '_' + suffix), else None"""
        for base in ResultsModel.TAGS:
            if tag == base or tag.startswith(base + "_"):
                return base
        return None


def results_obj(I, N, atom_order=None, tags=ResultsModel.TAGS, name="results"):
    """Results with per-time data for the given tags; every per-atom container has N entries.
    bitstrings[t] = Counter with one generic entry {string: count} (an arbitrary entry of an
    arbitrary counter: the code treats the entries of a counter independently).  A tag that is
    not of a per-atom kind holds one real number per time."""
    ctx = I.ctx
    r = SymObj("Results", None)
    r.fields["atom_order"] = atom_order if atom_order is not None else P.elem_seq(I, name + ".atom_order", N, "tuple")
    store = {}
    n_times = ctx.fresh(name + ".times", "int")
    ctx.assume(n_times >= 0)

    def bit_data():
        ch = z3.Function(ctx.fresh_name("bit"), z3.IntSort(), z3.IntSort(), z3.IntSort())
        cnt = z3.Function(ctx.fresh_name("count"), z3.IntSort(), z3.IntSort())
        memo = {}

        def counter(t):
            key = str(z3.simplify(to_z3(t)))
            if key not in memo:
                def char(k, t=t):
                    I.saw_read(ch.name(), (t, k))
                    return ch(to_z3(t), to_z3(k))
                memo[key] = {symstr.SymStr(N, char): cnt(to_z3(t))}
            return memo[key]
        return SymSeq(n_times, counter)

    def occ_data():
        occ = I.reg.sym_tensor(I, ctx.fresh_name("occ"), (n_times, N))
        return SymSeq(n_times, lambda t: T.LamTensor((N,), lambda k, t=t: occ.fn(t, k), "real"))

    def corr_data():
        cor = I.reg.sym_tensor(I, ctx.fresh_name("corr"), (n_times, N, N))
        return SymSeq(n_times, lambda t: T.LamTensor((N, N), lambda i, j, t=t: cor.fn(t, i, j), "real"))

    def scalar_data():
        val = z3.Function(ctx.fresh_name("scalar"), z3.IntSort(), z3.RealSort())
        return SymSeq(n_times, lambda t: val(to_z3(t)))
    make = {"bitstrings": bit_data, "occupation": occ_data, "correlation_matrix": corr_data, None: scalar_data}
    for tag in tags:
        store[tag] = make[ResultsModel.kind_of(tag)]()
    r.fields["_results"] = store
    r.fields["get_result_tags"] = lambda I2: list(tags)
    r.fields["_find_uuid"] = lambda I2, tag: tag           # the tag doubles as the uuid
    r.ghost_times = n_times
    return r


def results_ctor(I, atom_order=None, total_duration=None, **kw):
    """pulser.backend.Results(atom_order=..., total_duration=...)"""
    r = SymObj("Results", None)
    r.fields.update(atom_order=atom_order, total_duration=total_duration, _results={})
    r.fields["get_result_tags"] = lambda I2: []
    r.fields["_find_uuid"] = lambda I2, tag: tag
    return r


def g_bitkey(I, d):
    if not isinstance(d, dict) or len(d) != 1:
        raise Unsupported("bitkey: not a one-entry counter")
    return next(iter(d.keys()))


def g_bitcount(I, d):
    if not isinstance(d, dict) or len(d) != 1:
        raise Unsupported("bitcount: not a one-entry counter")
    return next(iter(d.values()))


def install(reg, prop):
    P.register(reg, prop, optimiser=True)
    maskidx.install(reg)
    common.register_enums(reg)
    reg.add_class("MPSConfig", module=cfgc.CFG, getattr_dict="_backend_options", fields={})
    reg.add_class("Observable", module=None, fields={})
    reg.add_class("NoiseModel", module=None, fields={})
    reg.add_class("Results", module=None, fields={})
    reg.add_class("MPSBackendImpl", module=IMPL, fields={})
    reg.add_class("SequenceData", module=ADAPTER, fields={})
    reg.external["pulser.backend.Results"] = results_ctor
    reg.external["collections.Counter"] = lambda I, d=None: dict(d or {})
    reg.class_policies["Statistics"] = lambda I, cref, args, kwargs: Opaque("statistics")
    reg.ghost_funcs.update(bitkey=g_bitkey, bitcount=g_bitcount)
    reg.ghost_funcs["J"] = lambda I, data, t: data.fields["interaction_matrix"](I, t)
    # permutation helpers are used inline by the data-flow contracts (their own contracts are
    # verified under C32; inlining keeps comprehensions over symbolic-length sequences pure)
    for f in ("permute_list", "permute_tuple", "permute_string", "permute_tensor", "inv_permutation",
              "eye_permutation"):
        reg.policies[f"{P.PERM}:{f}"] = "inline"


# ----------------------------------------------------------------------------------------------
def register(reg, prop):
    install(reg, prop)
    none = lambda I, n: None

    # ==== MPSBackendImpl.__init__ ================================================================
    def setup_init(I, fr, N=None, Tn=None):
        data = sequence_data(I, N, Tn)
        fr.locals["pulser_data"] = data
        fr.locals["mps_config"] = cfgc.mps_config_obj(I, "mps_config")
        fr.locals["self"] = SymObj("MPSBackendImpl", IMPL)
        fr.locals["N"], fr.locals["NT"] = data.ghost_N, data.ghost_T

    init_common = dict(
        params={"self": none, "mps_config": none, "pulser_data": none}, setup=setup_init,
        policies={f"{IMPL}:MPSBackendImpl._get_autosave_filepath": "opaque"},
        # fewer than 2 atoms / a non-symmetric matrix / a non-converging optimiser: no backend object
        raises={"AssertionError": None, "NotImplementedError": "mps_config.optimize_qubit_ordering"},
    )
    drive_clause = ("forall(lambda t: forall(lambda k: "
                    + " and ".join(f"self.{d}[t, k] == pulser_data.{d}[t, self.qubit_permutation[k]]" for d in DRIVES)
                    + ", 0, N), 0, NT)")
    reg.add_contract(Contract(
        f"{IMPL}:MPSBackendImpl.__init__", property=prop, label="MPSBackendImpl.__init__[order]",
        ensures=[
            "N >= 2 and self.qubit_count == N",
            "len(self.qubit_permutation) == N",
            "isperm(self.qubit_permutation)",
            # results list the atoms in site order until permute_results: site k is atom perm[k]
            "len(self.results.atom_order) == N",
            "forall(lambda k: self.results.atom_order[k] == pulser_data.qubit_ids[self.qubit_permutation[k]], 0, N)",
            # without optimisation the site order is the register order
            "implies(not mps_config.optimize_qubit_ordering,"
            " forall(lambda k: self.qubit_permutation[k] == k, 0, N))",
            "self.pulser_data is pulser_data and self.config is mps_config",
        ], **init_common), callsite=False)
    reg.add_contract(Contract(
        f"{IMPL}:MPSBackendImpl.__init__", property=prop, label="MPSBackendImpl.__init__[drives]",
        ensures=[
            "self.omega.shape == (NT, N) and self.delta.shape == (NT, N) and self.phi.shape == (NT, N)",
            # the drive of site k is the drive of register atom perm[k] (one clause for the three
            # drives: one defect gives one failed obligation)
            drive_clause],
        **init_common), callsite=False)
    # the same clause on a fixed size: a counter-model is then a concrete assignment (with
    # symbolic N the solver cannot turn the candidate into a model of the bijection axioms)
    reg.add_contract(Contract(
        f"{IMPL}:MPSBackendImpl.__init__", property=prop, label="MPSBackendImpl.__init__[drives,N=4]",
        ensures=[drive_clause],
        **dict(init_common, setup=lambda I, fr: setup_init(I, fr, 4, 2))), callsite=False)
