"""Contracts for the counting / encoding clauses of sampling (C15).

Under contract: emu_base/utils.py `readout_with_error`, `apply_measurement_errors`; emu_sv/utils.py
`index_to_bitstring`; `StateVector.sample`, `DensityMatrix.sample`, `MPS.sample`.

Model
  * a bitstring of symbolic length is a `SymStr` (pyvc/symstr.py) whose characters are z3 String terms;
  * a `Counter[str]` is a ghost multiset `Bag`: `total` (sum of the counts), `keylen`, `keys_ok`
    ("every key has length keylen"), the key inserted last (for per-bit clauses in loop invariants);
    `c[key] += 1` reads the key's count (some integer >= 0) and writes it back plus one;
  * `random.random()` is a fresh real r with 0 <= r < 1 per call; `torch.multinomial` returns category
    indices 0 <= i < number of categories (nothing else is known about them); all linear algebra in
    MPS.sample is opaque;
  * `format(i, f"0{n}b")` (trusted Python semantics): the binary digits of i >= 0, most significant
    first, left-padded with '0' to a width of at least n -- length n iff i < 2**n; digit j is '1' iff
    bit (length-1-j) of i is set (`bit` uninterpreted, `pow2` defined by recursion).

Not decided: that the empirical distribution is the Born distribution, or that flips occur with the stated
probabilities (statements about torch.multinomial / random.random and statistics).
"""
import ast

import z3

from pyvc import ops, symstr, tensor as T
from pyvc.ghost import rec_function
from pyvc.paths import NeedFork
from pyvc.registry import Contract
from pyvc.values import Opaque, SymObj, SymSeq, Unsupported, is_z3, to_z3

UTILS = "emu_base.utils"
SVUTILS = "emu_sv.utils"
SV = "emu_sv.state_vector"
DM = "emu_sv.density_matrix_state"
MPSMOD = "emu_mps.mps"

BIT = z3.Function("bit", z3.IntSort(), z3.IntSort(), z3.BoolSort())        # bit(i, p): bit p of i


def S(v):
    return to_z3(v)


def slen(s):
    return s.length if isinstance(s, SymSeq) else len(s)


# =====================================================================================================
# the ghost multiset
# =====================================================================================================
class Bag(SymObj):
    def __init__(self, I, keylen, total=0, keys_ok=True, entries=None):
        super().__init__("Counter", None)
        self.fields.update(total=total, keylen=keylen, keys_ok=keys_ok,
                           update=self.m_update, items=self.m_items)
        self.entries = entries          # (m, key(k), count(k)) for an input bag
        self.last_key = None
        self._read = None

    # c[key]  (Counter: 0 for a missing key)
    def getitem(self, I, key):
        if I.ctx.speculative:
            raise NeedFork()
        cur = I.ctx.fresh("count_of_key", "int")
        I.ctx.assume(cur >= 0)
        self._read = (key, cur)
        return cur

    def setitem(self, I, key, value):
        if I.ctx.speculative:
            raise NeedFork()
        if self._read is None or self._read[0] is not key:
            # plain store c[key] = v: the key's previous count (some integer >= 0) is replaced
            self.getitem(I, key)
        self.insert(I, key, ops.sub(value, self._read[1]))
        self._read = None

    def insert(self, I, key, delta):
        f = self.fields
        f["total"] = ops.add(f["total"], delta)
        f["keys_ok"] = ops.b_and(f["keys_ok"], ops.equal(slen(key), f["keylen"]))
        self.last_key = key
        I.ctx.log_write(self.oid, "total")
        I.ctx.log_write(self.oid, "keys_ok")

    def m_update(self, I, items):
        if I.ctx.speculative:
            raise NeedFork()
        if not isinstance(items, (list, tuple)):
            raise Unsupported("Counter.update with something else than a list of keys")
        for k in items:
            self.insert(I, k, 1)
        return None

    def m_items(self, I):
        if self.entries is None:
            raise Unsupported("iteration over a Counter whose entries are not modelled")
        return BagItems(self)


class BagItems:
    def __init__(self, bag):
        self.bag = bag

    def iteration_domain(self, I):
        m, key, cnt = self.bag.entries
        return m, (lambda k: (key(k), cnt(k)))


def input_bag(I, name):
    """an arbitrary Counter: m >= 0 entries, keys of a common length n, counts >= 0"""
    ctx = I.ctx
    m = ctx.fresh("entries", "int")
    n = ctx.fresh("keylen", "int")
    ctx.assume(z3.And(m >= 0, n >= 0))
    ch = z3.Function(ctx.fresh_name("keychar"), z3.IntSort(), z3.IntSort(), z3.StringSort())
    cf = z3.Function(ctx.fresh_name("count"), z3.IntSort(), z3.IntSort())
    keys = {}

    def key(k):
        kk = str(z3.simplify(S(k)))
        if kk not in keys:
            keys[kk] = symstr.SymStr(n, (lambda k: lambda j: ch(S(k), S(j)))(k))
        return keys[kk]

    def cnt(k):
        c = cf(S(k))
        ctx.assume(c >= 0)
        return c
    bag = Bag(I, n, entries=(m, key, cnt))
    bag.cnt = cnt
    ctx.ghost["c15_keylen"] = n          # the Counter() the function creates is read against this length
    bag.fields["total"] = g_psum(I, bag, m)
    return bag


def g_psum(I, bag, t):
    """ghost: sum of the first t counts of an input bag"""
    f = rec_function(I, f"psum@{bag.oid}", 0, lambda k, prev: prev + S(bag.cnt(k)), sort="int")
    return f(I, t)


def result_bag(I, name, env):
    src = env["bitstrings"]
    b = Bag(I, src.fields["keylen"], total=I.ctx.fresh("total", "int"), keys_ok=I.ctx.fresh("keys_ok", "bool"))
    # ghost: this bag went through the readout-error model with these two rates
    b.readout = (env.get("p_false_pos"), env.get("p_false_neg"))
    return b


def g_readout_applied(I, bag, p_false_pos, p_false_neg):
    """the returned counts went through apply_measurement_errors with exactly the caller's two rates"""
    r = getattr(bag, "readout", None)
    if r is None:
        return False
    return ops.b_and(ops.equal(r[0], p_false_pos), ops.equal(r[1], p_false_neg))


# =====================================================================================================
# readout
# =====================================================================================================
def flip_spec(I, c, r, p_false_pos, p_false_neg):
    """'1' if c == '0' and r < p_false_pos;  '0' if c == '1' and r < p_false_neg;  else c"""
    c = S(c)
    fp = z3.And(c == z3.StringVal("0"), S(r) < S(p_false_pos))
    fn = z3.And(c == z3.StringVal("1"), S(r) < S(p_false_neg))
    return z3.If(fp, z3.StringVal("1"), z3.If(fn, z3.StringVal("0"), c))


def draw_for(I, c):
    """the one uniform draw used for the bit `c` (a term per bit position)"""
    memo = I.ctx.ghost.setdefault("c15_draws", {})
    key = str(c)
    if key not in memo:
        r = I.ctx.fresh("r", "real")
        I.ctx.assume(z3.And(r >= 0, r < 1))
        memo[key] = r
    return memo[key]


def readout_model(I, c, *, p_false_pos, p_false_neg):
    """readout_with_error as a function of its draw -- exactly its verified contract"""
    return flip_spec(I, c, draw_for(I, c), p_false_pos, p_false_neg)


readout_model.pure = True


def g_is_readout_of(I, key, src, p_false_pos, p_false_neg):
    """key has the length of src and, at an arbitrary position j, key[j] is the readout of src[j] with
    false-positive rate p_false_pos for '0' and false-negative rate p_false_neg for '1'"""
    if key is None:
        return True
    j = I.ctx.fresh("j", "int")
    I.ctx.assume(z3.And(j >= 0, j < S(slen(src))))
    c = src.fn(j)
    return ops.b_and(ops.equal(slen(key), slen(src)),
                     S(key.fn(j)) == flip_spec(I, c, draw_for(I, c), p_false_pos, p_false_neg))


# =====================================================================================================
# index_to_bitstring / format
# =====================================================================================================
def pow2(I, t):
    f = rec_function(I, "pow2", 1, lambda k, prev: 2 * prev, sort="int")
    return f(I, t)


def bits_string(I, value, length):
    return symstr.SymStr(length, lambda j: z3.If(BIT(S(value), S(length) - 1 - S(j)),
                                                 z3.StringVal("1"), z3.StringVal("0")))


def format_model(I, value, spec=""):
    vals = getattr(spec, "values", None)
    if str(spec) != "0{}b" or not vals or vals[0] is None:
        raise Unsupported(f"format() with spec {spec!r}")
    if I.ctx.speculative:
        raise NeedFork()
    w = vals[0]
    L = I.ctx.fresh("width", "int")
    v = S(value)
    # at least one digit is printed (format(0, "00b") == "0"), hence the `w >= 1` in the equality case
    I.ctx.assume(z3.And(L >= S(w), L >= 1,
                        z3.Implies(z3.And(v >= 0, v < S(pow2(I, w)), S(w) >= 1), L == S(w)),
                        z3.Implies(v >= S(pow2(I, w)), L > S(w))))
    I.session.note("format(i, f'0{n}b') modelled: binary digits of i, most significant first, zero-padded to "
                   "width >= n; width == n iff i < 2**n")
    return bits_string(I, value, L)


def index_to_bitstring_model(I, nqubits, index):
    """index_to_bitstring as a function -- its verified contract; the precondition is collected"""
    I.ctx.ghost.setdefault("c15_pending_pre", []).append(
        z3.And(S(nqubits) >= 1, S(index) >= 0, S(index) < S(pow2(I, nqubits))))
    return bits_string(I, index, nqubits)


index_to_bitstring_model.pure = True


# =====================================================================================================
# registration
# =====================================================================================================
def install(reg):
    symstr.install(reg)
    reg.add_class("Counter", module=None, fields={"total": "int", "keylen": "int", "keys_ok": "bool"})
    ext = reg.external
    G = reg.ghost_funcs

    def rnd(I):
        if I.ctx.speculative:
            raise NeedFork()
        r = I.ctx.fresh("r", "real")
        I.ctx.assume(z3.And(r >= 0, r < 1))
        I.ctx.ghost.setdefault("c15_rnd", []).append(r)
        return r
    ext["random.random"] = rnd
    G["rnd"] = lambda I, k: I.ctx.ghost["c15_rnd"][k]
    G["n_draws"] = lambda I: len(I.ctx.ghost.get("c15_rnd", []))
    G["flip_spec"] = flip_spec
    G["psum"] = g_psum
    G["is_readout_of"] = g_is_readout_of
    G["last_key"] = lambda I, bag: bag.last_key
    G["pow2"] = pow2
    G["bit"] = lambda I, x, p: BIT(S(x), S(p))
    ext["builtins.format"] = format_model

    def sym_power(I, a, b):
        if a == 2:
            return pow2(I, b)
        raise Unsupported("power with a symbolic exponent")
    reg.sym_power = sym_power

    def counter(I, items=None):
        if I.ctx.speculative:
            raise NeedFork()
        ctx = I.ctx
        keylen = ctx.ghost.get("c15_keylen")
        if keylen is None:
            keylen = ctx.fresh("keylen", "int")
        if items is None:
            return Bag(I, keylen)
        if not isinstance(items, SymSeq):
            raise Unsupported("Counter(...) of something else than a list of symbolic length")
        # Counter(list): one count per list element; an arbitrary element stands for all
        k = ctx.fresh("shot", "int")
        ctx.assume(z3.And(k >= 0, k < S(items.length)))
        s = items.fn(k)
        pend = ctx.ghost.pop("c15_pending_pre", [])
        if pend:
            ctx.prove("index_to_bitstring-precondition", z3.And(*pend), "pre")
        bag = Bag(I, keylen, total=items.length, keys_ok=ops.equal(slen(s), keylen))
        bag.sample_key = (k, s)
        return bag
    ext["collections.Counter"] = counter

    def multinomial(I, probs, num_samples=1, replacement=False):
        """category indices: 0 <= i < number of categories; nothing else"""
        if I.ctx.speculative:
            raise NeedFork()
        ctx = I.ctx
        f = z3.Function(ctx.fresh_name("multinomial"), z3.IntSort(), z3.IntSort(), z3.IntSort())
        site = ctx.ghost.get("c15_site")
        if isinstance(probs, T.LamTensor) and probs.ndim == 1:
            ncat = probs.shape[0]

            def fn(i):
                v = f(z3.IntVal(0), S(i))
                ctx.assume(z3.And(v >= 0, v < S(ncat)))
                return v
            t = T.LamTensor((num_samples,), fn, "int")
        else:
            rows = ctx.fresh("rows", "int")
            drawn = ctx.ghost.get("c15_drawn")

            def fn(i, s):
                v = drawn(S(site), S(i)) if (drawn is not None and site is not None) else f(S(i), S(s))
                ctx.assume(v >= 0)
                return v
            t = T.LamTensor((rows, num_samples), fn, "int")
        ctx.ghost["c15_last_multinomial"] = t
        I.session.note("torch.multinomial: category indices in range, otherwise unconstrained")
        return t
    ext["torch.multinomial"] = multinomial

    def empty(I, *shape, dtype=None, device=None):
        return reg.sym_tensor(I, I.ctx.fresh_name("empty"), tuple(shape), "int")
    ext["torch.empty"] = empty

    def view(I, t, shp):
        if tuple(shp) == (-1,) and t.ndim == 2 and isinstance(t.shape[1], int) and t.shape[1] == 1:
            return T.LamTensor((t.shape[0],), lambda i: t.fn(i, 0), t.dtype)
        raise Unsupported("tensor view/reshape")
    reg.tensor_view = view


def register(reg, prop="C15"):
    install(reg)
    G = reg.ghost_funcs
    targets = []

    # ---- readout_with_error ----------------------------------------------------------------------------
    reg.add_contract(Contract(
        f"{UTILS}:readout_with_error", property=prop,
        params={"c": "str", "p_false_pos": "real", "p_false_neg": "real"},
        requires=[], raises={},
        returns="str",
        ensures=["n_draws() == 1",
                 "result == flip_spec(c, rnd(0), p_false_pos, p_false_neg)"],
        ensures_names=["one-uniform-draw-per-bit", "flipped-iff-0-and-r-below-false-pos-or-1-and-r-below-false-neg"],
        abs_requires=[], abs_ensures=["result == '0' or result == '1' or result == c"],
    ))
    targets.append(f"{UTILS}:readout_with_error")

    # ---- apply_measurement_errors ----------------------------------------------------------------------
    reg.add_contract(Contract(
        f"{UTILS}:apply_measurement_errors", property=prop,
        params={"bitstrings": input_bag, "p_false_pos": "real", "p_false_neg": "real"},
        requires=["bitstrings.keys_ok"], raises={},
        returns=result_bag,
        # per bit the code must behave as readout_with_error's contract with these two rates
        policies={f"{UTILS}:readout_with_error": readout_model},
        loops={
            0: dict(index="_i", count="_m",
                    invariant=["result.total == psum(bitstrings, _i)", "result.keys_ok"],
                    modifies=["result.total", "result.keys_ok"]),
            1: dict(invariant=["result.total == psum(bitstrings, _i) + _k", "result.keys_ok",
                               "implies(_k >= 1, is_readout_of(last_key(result), bitstring, p_false_pos, p_false_neg))"],
                    modifies=["result.total", "result.keys_ok"]),
        },
        ensures=["result.total == bitstrings.total", "result.keys_ok", "result.keylen == bitstrings.keylen"],
        ensures_names=["total-count-preserved", "every-output-key-has-the-input-key-length", "key-length-unchanged"],
    ))
    targets.append(f"{UTILS}:apply_measurement_errors")

    # ---- index_to_bitstring ------------------------------------------------------------------------------
    reg.add_contract(Contract(
        f"{SVUTILS}:index_to_bitstring", property=prop,
        params={"nqubits": "int", "index": "int"},
        # nqubits = 0 is outside the property (>= 1 atom): format(0, "00b") is "0", one character, not zero
        requires=["nqubits >= 1", "index >= 0"],
        raises={"AssertionError": "not (index < pow2(nqubits))"},
        raises_when={"AssertionError": "not (index < pow2(nqubits))"},
        ensures=["len(result) == nqubits",
                 "forall(lambda j: (result[j] == '1') == bit(index, nqubits - 1 - j), 0, nqubits)",
                 "forall(lambda j: result[j] == '1' or result[j] == '0', 0, nqubits)"],
        ensures_names=["one-character-per-qubit", "character-j-is-1-iff-bit-n-1-j-of-the-index",
                       "characters-are-0-or-1"],
    ), callsite=False)
    targets.append(f"{SVUTILS}:index_to_bitstring")

    # ---- emu-sv: StateVector.sample / DensityMatrix.sample ----------------------------------------------
    def g_sv_encoding(I, result):
        """an arbitrary key of the result: length n and character j is '1' iff bit n-1-j of the sampled
        basis-state index (qubit 0 = most significant bit, i.e. the register's atom order)"""
        if not hasattr(result, "sample_key"):
            return True             # keys went through apply_measurement_errors: its contract covers them
        k, s = result.sample_key
        n = result.fields["keylen"]
        outcomes = I.ctx.ghost["c15_last_multinomial"]
        j = I.ctx.fresh("j", "int")
        I.ctx.assume(z3.And(j >= 0, j < S(n)))
        return ops.b_and(ops.equal(slen(s), n),
                         (S(s.fn(j)) == z3.StringVal("1")) == BIT(S(outcomes.fn(k)), S(n) - 1 - j))
    G["sv_encoding"] = g_sv_encoding
    G["readout_applied"] = g_readout_applied

    def sv_state(cls, module, matrix):
        def make(I, name):
            o = SymObj(cls, module)
            n = I.ctx.fresh("n_qudits", "int")
            I.ctx.assume(n >= 1)           # at least one atom
            o.fields["n_qudits"] = n
            size = pow2(I, n)
            if matrix:
                data = Opaque("rho")
                diag = reg.sym_tensor(I, I.ctx.fresh_name("diag"), (size,))
                data.attrs["diagonal"] = lambda I2: diag
                data.attrs["__ncat__"] = size
            else:
                data = reg.sym_tensor(I, I.ctx.fresh_name("psi"), (size,))
            o.fields["data"] = data
            I.ctx.ghost["c15_keylen"] = n
            return o
        return make

    for cls, module, matrix in (("StateVector", SV, False), ("DensityMatrix", DM, True)):
        reg.add_class(cls, module=module, fields={})
        reg.add_contract(Contract(
            f"{module}:{cls}.sample", property=prop,
            params={"self": sv_state(cls, module, matrix), "num_shots": "int", "one_state": "none",
                    "p_false_pos": "real", "p_false_neg": "real"},
            # A4 (constructor assert): the data has 2**n entries and n_qudits = log2 of that.
            # num_shots = 0 is outside the property (1..20000): torch.multinomial refuses it (RuntimeError)
            requires=["num_shots >= 1"],
            raises={},
            policies={f"{SVUTILS}:index_to_bitstring": index_to_bitstring_model},
            ensures=["result.total == num_shots", "result.keys_ok and result.keylen == self.n_qudits",
                     "sv_encoding(result)"],
            ensures_names=["total-count-is-num-shots", "every-key-has-one-character-per-qubit",
                           "character-j-is-1-iff-bit-n-1-j-of-the-outcome"],
        ))
        targets.append(f"{module}:{cls}.sample")

    # ---- emu-mps: MPS.sample -------------------------------------------------------------------------------
    DRAWN = z3.Function("drawn", z3.IntSort(), z3.IntSort(), z3.IntSort())      # drawn(site, shot in batch)

    def mps_state(I, name):
        from .common import sym_seq
        o = SymObj("MPS", MPSMOD)
        n = I.ctx.fresh("num_sites", "int")
        I.ctx.assume(n >= 1)
        o.fields["num_sites"] = n
        o.fields["dim"] = I.ctx.fresh("dim", "int")
        o.fields["factors"] = sym_seq(I, "factors")
        I.ctx.assume(S(o.fields["factors"].length) == n)
        I.ctx.ghost["c15_keylen"] = n
        I.ctx.ghost["c15_drawn"] = DRAWN
        return o

    def g_mark_site(I, q):
        I.ctx.ghost["c15_site"] = q
        return True
    G["mark_site"] = g_mark_site
    G["drawn"] = lambda I, q, b: DRAWN(S(q), S(b))

    def g_encodes_row(I, key, batch_outcomes, row, n):
        """key has length n and at an arbitrary site j: key[j] == '1' iff the outcome at site j is 1"""
        if key is None:
            return True
        j = I.ctx.fresh("j", "int")
        I.ctx.assume(z3.And(j >= 0, j < S(n)))
        I.saw_index(j)
        one = S(key.fn(j)) == z3.StringVal("1")
        return ops.b_and(ops.equal(slen(key), n),
                         one == (S(batch_outcomes.fn(S(row), j)) == 1),
                         # ... which is the outcome drawn at site j for this shot (loop 1's invariant)
                         one == (DRAWN(j, S(row)) == 1),
                         ops.b_or(one, S(key.fn(j)) == z3.StringVal("0")))
    G["encodes_row"] = g_encodes_row

    reg.add_class("MPS", module=MPSMOD, fields={})
    for one_state in (None, "r", "g"):
        label = "MPS.sample" + ("" if one_state is None else f"[one_state={one_state}]")
        reg.add_contract(Contract(
            f"{MPSMOD}:MPS.sample", property=prop, label=label,
            params={"self": mps_state, "num_shots": "int",
                    "one_state": (lambda v: lambda I, n: v)(one_state),
                    "p_false_pos": "real", "p_false_neg": "real"},
            requires=["num_shots >= 0", "self.dim == 2 or self.dim == 3"],      # qubits, or atoms with a leakage level
            raises={"NotImplementedError": "p_false_pos > 0 and self.dim > 2",
                    "AssertionError": "one_state not in [None, 'r', '1']"},
            raises_when={"NotImplementedError": "p_false_pos > 0 and self.dim > 2",
                         "AssertionError": "one_state not in [None, 'r', '1']"},
            loops={
                0: dict(invariant=["bitstrings.total == shots_done", "0 <= shots_done", "shots_done <= num_shots",
                                   "bitstrings.keys_ok"],
                        variant="num_shots - shots_done",
                        modifies=["bitstrings.total", "bitstrings.keys_ok"]),
                # column q of batch_outcomes holds the outcomes drawn at site q
                1: dict(index="_q", count="_nq",
                        invariant=["mark_site(_q)",
                                   "forall(lambda b: forall(lambda q: batch_outcomes[b, q] == drawn(q, b), 0, _q),"
                                   " 0, batch_size)"],
                        modifies=["batch_outcomes.*"]),
                2: dict(index="_r", count="_nr",
                        invariant=["bitstrings.total == shots_done - batch_size + _r", "bitstrings.keys_ok",
                                   "implies(_r >= 1, encodes_row(last_key(bitstrings), batch_outcomes, _r - 1,"
                                   " self.num_sites))"],
                        modifies=["bitstrings.total", "bitstrings.keys_ok"]),
            },
            ensures=["result.total == num_shots", "result.keys_ok and result.keylen == self.num_sites",
                     # readout errors are applied (with the caller's rates) whenever one of the rates is non-zero,
                     # for qubits and for 3-level atoms alike, and never otherwise
                     "readout_applied(result, p_false_pos, p_false_neg) == (p_false_pos > 0 or p_false_neg > 0)"],
            ensures_names=["total-count-is-num-shots", "every-key-has-one-character-per-site",
                           "readout-errors-applied-iff-a-rate-is-non-zero"],
        ), callsite=False)
        targets.append(f"{MPSMOD}:{label}")
    return targets
