"""C10: canonical form and truncation bookkeeping of an MPS factor list.

Abstract data structure with a ghost view (numerical kernels are uninterpreted, A4).

`FactorList` stands for `self.factors` / `factors`: a python list of N >= 1 three-legged tensors
(left bond, physical, right bond), N symbolic.  Its ghost view is four functional arrays

  chiL(i), chiR(i)   bond dimensions of site i (Int >= 1)
  iso(i)             0 nothing known / 1 left-orthonormal / 2 right-orthonormal
  disc(j)            weight discarded so far at the bond left of site j, in ABSOLUTE units of the
                     state the list represents now

`factors[i]` gives an abstract tensor `AT` (shape, orthonormality tag, provenance); QR, split_matrix
and tensordot are used through assumed contracts (A4, listed in props/C10.py `trusted`):

  torch.linalg.qr(m) -> (q, r), m = q r, q has orthonormal columns, shapes (R, min(R, C)), (min, C)
  split_matrix(m)    -> (l, r) through its verified contract (contracts/mps_utils.py)
  torch.tensordot    contracts the named bond; the result carries no orthonormality tag

`factors[i] = value` updates the ghost arrays from the value's shape, tag and provenance:

  * gauge move: site i := Q-part of a QR of (a matrix view of) site i, then the R-part is absorbed
    into the neighbour across the bond that was factorised -> represented state unchanged;
  * truncation: site i := one half of split_matrix(view of site i), other half absorbed into the
    neighbour -> the state loses exactly the weight `prefix(eig, n - k)` that split_matrix dropped,
    PROVIDED site i was the orthogonality centre (obligation `truncation-at-centre`), booked on
    that bond;
  * scaling ONE factor by alpha scales the state by alpha: every disc(j) is multiplied by
    |alpha|^2 (absolute units of the *current* state), orthonormality kept only if |alpha| = 1;
  * anything else: the state is no longer known to be the old one -> `intact` becomes False.
"""
import ast
import itertools
from fractions import Fraction

import z3

from pyvc import ops, tensor as T
from pyvc.interp import RaiseSig
from pyvc.paths import NeedFork
from pyvc.registry import Contract
from pyvc.values import CplxV, ForallV, Opaque, SymObj, Unsupported, is_num, is_z3, to_z3

from . import mps_utils

MPSMOD = "emu_mps.mps"
UTILS = mps_utils.UTILS
_ids = itertools.count(1)


# ---------------------------------------------------------------------------------------------
# functional ghost arrays
# ---------------------------------------------------------------------------------------------
class GArr:
    """site index -> value; immutable (updates build a new array)"""

    def __init__(self, fn, sort, fact=None, owner=None):
        self.fn, self.sort, self.fact, self.owner = fn, sort, fact, owner

    def at(self, j):
        return self.fn(j)

    def upd(self, i, v):
        old = self.fn
        return GArr(lambda j: ops.ite(ops.equal(j, i), v, old(j)), self.sort, self.fact, self.owner)

    def map(self, g):
        old = self.fn
        return GArr(lambda j: g(old(j)), self.sort, self.fact, self.owner)

    def havoc(self, I, name):
        if self.owner is not None:
            self.owner._havocked()
        return fresh_garr(I, name, self.sort, self.fact, self.owner)

    def snapshot(self, memo):
        return self


def fresh_garr(I, name, sort, fact=None, owner=None):
    ctx = I.ctx
    rng = z3.IntSort() if sort == "int" else z3.RealSort()
    f = z3.Function(ctx.fresh_name(name), z3.IntSort(), rng)
    seen = set()

    def fn(j):
        jz = to_z3(j)
        I.saw_read(f.name(), (jz,))
        v = f(jz)
        if fact is not None:
            key = str(jz)
            if key not in seen:
                seen.add(key)
                I.ctx.assume(fact(v))
        return v
    return GArr(fn, sort, fact, owner)


def _dimprod(I, x, y):
    """size of a grouped index (x, y): an uninterpreted product (congruence is all that is used),
    >= 1 for non-empty legs"""
    ctx = I.ctx
    P = ctx.ghost.get("dimprod")
    if P is None:
        P = z3.Function("dimprod", z3.IntSort(), z3.IntSort(), z3.IntSort())
        ctx.ghost["dimprod"] = P
    xz, yz = to_z3(x), to_z3(y)
    p = P(xz, yz)
    key = ("dimprod", str(xz), str(yz))
    memo = ctx.ghost.setdefault("dimprod_seen", set())
    if key not in memo:
        memo.add(key)
        ctx.assume(z3.Implies(z3.And(xz >= 1, yz >= 1), p >= 1))
    return p


def _entails_eq(I, a, b):
    e = ops.equal(a, b)
    if isinstance(e, bool):
        return e
    return I.ctx.entails(e)


# ---------------------------------------------------------------------------------------------
# abstract scalars (tensor norms) and abstract tensors
# ---------------------------------------------------------------------------------------------
class AbsScalar(SymObj):
    """0-d tensor with a real value >= 0 (a norm)"""
    binop_first = True

    def __init__(self, val, of=None):
        super().__init__("AbsScalar", None)
        self.val, self.of = val, of
        f = self.fields
        for nm in ("to", "cpu", "clone", "detach", "contiguous", "double"):
            f[nm] = lambda I, *a, **k: self
        f["item"] = lambda I: self.val
        f["clamp_min"] = self._clamp_min
        f["device"] = Opaque("device")

    def _clamp_min(self, I, lo=None, **k):
        lo = k.get("min", lo)
        v = I.ctx.fresh("clamped", "real")
        if is_num(lo):
            I.ctx.assume(v == to_z3(ops.maximum(self.val, lo)))
        else:
            I.ctx.assume(v >= self.val)         # clamp_min never decreases the value
        return AbsScalar(v, None)

    def binop(self, I, op, other, reflected):
        if isinstance(other, AT):
            return other.binop(I, op, self, not reflected)
        o = other.val if isinstance(other, AbsScalar) else other
        return I.binop(op, o, self.val) if reflected else I.binop(op, self.val, o)


def _scale_of(I, s, inverse=False):
    """(|alpha|^2, |alpha| == 1) of the scalar alpha = s (or 1/s)"""
    ctx = I.ctx
    if isinstance(s, T.LamTensor) and s.ndim == 0:
        s = s.fn()
    if isinstance(s, AbsScalar):
        s = s.val
    if isinstance(s, bool):
        s = int(s)
    if isinstance(s, CplxV):
        a2 = ops.add(ops.mul(s.re, s.re), ops.mul(s.im, s.im))
        unit = ops.equal(a2, 1)
    elif is_num(s):
        a2 = ops.mul(s, s)
        unit = ops.b_or(ops.equal(s, 1), ops.equal(s, -1))
    else:
        I.session.note("scaling of an MPS factor by an unmodelled scalar: |alpha|^2 is an arbitrary non-negative real")
        a2 = ctx.fresh("alpha2", "real")
        ctx.assume(a2 >= 0)
        return a2, ctx.fresh("alpha_unit", "bool")
    if not inverse:
        return a2, unit
    if isinstance(a2, (int, Fraction)):
        if a2 == 0:
            raise Unsupported("division of an MPS factor by the constant zero")
        return Fraction(1) / Fraction(a2), unit
    w = ctx.fresh("inv_alpha2", "real")
    # torch semantics: no exception on a zero denominator; then nothing is known about the result
    ctx.assume(z3.And(w >= 0, z3.Implies(to_z3(a2) != 0, w * to_z3(a2) == 1)))
    return w, unit


def _ortho_if(c, tag):
    """tag if c else 0"""
    if isinstance(c, bool):
        return tag if c else 0
    return z3.If(c, to_z3(tag), z3.IntVal(0))


def _keep(ortho, tag):
    """the orthonormality tag survives a regrouping only if it is `tag`"""
    return _ortho_if(ops.equal(ortho, tag), tag)


class AT(SymObj):
    """abstract tensor value (immutable): shape, orthonormality tag, provenance.

    ortho of a 3-leg tensor (a, s, b):  1 = left-orthonormal  (sum_{a,s} conj(A)[a,s,b] A[a,s,b'] = delta)
                                        2 = right-orthonormal (sum_{s,b} ...                      = delta)
    ortho of a matrix:                  1 = orthonormal columns, 2 = orthonormal rows
    groups: {axis: (x, y)} -- that axis of a matrix is the grouped pair of legs (x, y)."""
    binop_first = True

    def __init__(self, I, shape, ortho=0, groups=None, origin=None, _partner=None):
        super().__init__("AbsTensor", None)
        self.ortho = ortho
        self.groups = dict(groups or {})
        self.origin = origin if origin is not None else ("fresh", next(_ids))
        f = self.fields
        f["shape"] = tuple(shape)
        f["ndim"] = len(shape)
        f["device"] = Opaque("device")
        f["dtype"] = Opaque("dtype")
        for nm in ("contiguous", "to", "cpu", "clone", "detach"):
            f[nm] = lambda I2, *a, **k: self
        f["view"] = self._view_b
        f["reshape"] = self._view_b
        f["flatten"] = self._flatten
        f["norm"] = lambda I2, *a, **k: self._norm(I2)
        f["size"] = lambda I2, *a: (self.fields["shape"][a[0]] if a else self.fields["shape"])
        f["dim"] = lambda I2: len(shape)
        f["conj"] = self._conj
        if len(shape) == 2:
            if _partner is None:
                sw = {0: 0, 1: 2, 2: 1}
                o = self.ortho
                ot = sw[o] if isinstance(o, int) else z3.If(o == 1, z3.IntVal(2), z3.If(o == 2, z3.IntVal(1), z3.IntVal(0)))
                _partner = AT(I, (shape[1], shape[0]), ot, {1 - a: g for a, g in self.groups.items()},
                              ("mT", self.origin), _partner=self)
                _partner.base = self
            f["mT"] = f["T"] = _partner

    # -- split_matrix at a call site: the result pair, with ghost handles ------------------------
    def split_result(self, I, env):
        ctx = I.ctx
        shape = self.fields["shape"]
        if len(shape) != 2:
            raise Unsupported("split_matrix of a non-matrix")
        rows, cols = shape
        ocr = env["orth_center_right"]
        n = ops.ite(ocr, rows, cols)
        d = I.reg.sym_tensor(I, ctx.fresh_name("eig"), (n,))
        ctx.ghost["eigh_d"] = d
        k = ctx.fresh("kept", "int")
        sid = next(_ids)
        left = AT(I, (rows, k), _ortho_if(ocr, 1), {0: self.groups[0]} if 0 in self.groups else {},
                  ("split_l", sid))
        right = AT(I, (k, cols), _ortho_if(ops.b_not(ocr), 2), {1: self.groups[1]} if 1 in self.groups else {},
                   ("split_r", sid))
        ctx.ghost.setdefault("splits", {})[sid] = dict(
            source=self.origin, ocr=ocr, delta=mps_utils.prefix(I, d, ops.sub(n, k)),
            preserve_norm=env.get("preserve_norm", False))
        return (left, right)

    # -- views ----------------------------------------------------------------------------------
    def _view(self, I, *shape):
        if len(shape) == 1 and isinstance(shape[0], (tuple, list)):
            shape = tuple(shape[0])
        mine = self.fields["shape"]
        neg = [k for k, s in enumerate(shape) if isinstance(s, int) and s == -1]
        if len(mine) == 3 and len(shape) == 2 and len(neg) == 1:
            x, y, z = mine
            if neg[0] == 1 and _entails_eq(I, shape[0], x):
                return AT(I, (x, _dimprod(I, y, z)), _keep(self.ortho, 2), {1: (y, z)},
                          ("view", self.origin, "x|yz"))
            if neg[0] == 0 and _entails_eq(I, shape[1], z):
                return AT(I, (_dimprod(I, x, y), z), _keep(self.ortho, 1), {0: (x, y)},
                          ("view", self.origin, "xy|z"))
        pair = getattr(self, "pair", None)
        if pair is not None and len(shape) == 2 and not neg:
            # two-site tensor (x, d*d, z) -> matrix (x*d, d*z)
            x, d, z = pair
            if _entails_eq(I, shape[0], ops.mul(x, d)) and _entails_eq(I, shape[1], ops.mul(d, z)):
                return AT(I, (_dimprod(I, x, d), _dimprod(I, d, z)), 0, {0: (x, d), 1: (d, z)},
                          ("view2", self.origin))
        if len(mine) == 2 and len(shape) == 3 and len(neg) == 1:
            R, C = mine
            if neg[0] == 0 and 1 in self.groups:
                y, z = self.groups[1]
                if _entails_eq(I, shape[1], y) and _entails_eq(I, shape[2], z):
                    return AT(I, (R, y, z), _keep(self.ortho, 2), None, ("unview", self.origin, "x|yz"))
            if neg[0] == 2 and 0 in self.groups:
                x, y = self.groups[0]
                if _entails_eq(I, shape[0], x) and _entails_eq(I, shape[1], y):
                    return AT(I, (x, y, C), _keep(self.ortho, 1), None, ("unview", self.origin, "xy|z"))
        raise Unsupported(f"view{tuple(str(s) for s in shape)} of an abstract tensor of shape "
                          f"{tuple(str(s) for s in mine)}: not a regrouping the model can follow")

    # -- ghost links used by the reader contracts (contracts/mps_readers.py) -------------------------
    def _view_b(self, I, *shape):
        r = self._view(I, *shape)
        r.base = self                # the tensor this one is a view of
        return r

    def _flatten(self, I, start_dim=0, end_dim=-1):
        shape = self.fields["shape"]
        if len(shape) == 3 and start_dim == 0 and end_dim == 1:
            return self._view_b(I, -1, shape[2])
        raise Unsupported("flatten of an abstract tensor other than flatten(end_dim=1) of a factor")

    def _conj(self, I):
        r = AT(I, self.fields["shape"], self.ortho, self.groups, ("conj", self.origin))
        r.conj_of = self
        for nm in ("flist", "vc", "vlo", "vhi", "vok"):
            if hasattr(self, nm):
                setattr(r, nm, getattr(self, nm))
        return r

    def havoc(self, I, name):
        """an arbitrary tensor of the same rank (loop-carried local): fresh non-empty dimensions (the
        physical one kept), nothing known about orthonormality; the virtual-centre tags of the reader
        contracts become arbitrary symbols that the loop invariant pins down"""
        ctx = I.ctx
        shape = self.fields["shape"]
        new = []
        for k, s in enumerate(shape):
            if len(shape) == 3 and k == 1:
                new.append(s)
            else:
                v = ctx.fresh(f"{name}.shape{k}", "int")
                ctx.assume(v >= 1)
                new.append(v)
        t = AT(I, tuple(new), 0, None, None)
        if hasattr(self, "flist"):
            t.flist = self.flist
        t.vc, t.vlo, t.vhi = (ctx.fresh(f"{name}.{nm}", "int") for nm in ("vc", "vlo", "vhi"))
        t.vok = ctx.fresh(f"{name}.vok", "bool")
        return t

    def _norm(self, I):
        v = I.ctx.fresh("norm", "real")
        I.ctx.assume(v >= 0)
        return AbsScalar(v, self.origin)

    # -- arithmetic -----------------------------------------------------------------------------
    def binop(self, I, op, other, reflected):
        shape = self.fields["shape"]
        if op is ast.Mult or (op is ast.Div and not reflected):
            if isinstance(other, (AT, SymObj)) and not isinstance(other, AbsScalar):
                raise Unsupported("product of two abstract tensors")
            a2, unit = _scale_of(I, other, inverse=(op is ast.Div))
            # orthonormality survives only a phase (|alpha| = 1)
            return AT(I, shape, _ortho_if(unit, self.ortho), self.groups, ("scaled", self.origin, a2, unit))
        if op is ast.MatMult and reflected and len(shape) == 3:
            # (d' x d) @ (a, d, b): an operator on the physical leg, batched over the left bond
            if isinstance(other, T.LamTensor) and other.ndim == 2:
                if not _entails_eq(I, other.shape[1], shape[1]):
                    raise Unsupported("operator @ factor: physical dimensions not provably equal")
                return AT(I, (shape[0], other.shape[0], shape[2]), 0, None, ("local_op", self.origin))
            if isinstance(other, Opaque):
                I.session.note("operator @ factor with an opaque operator: assumed to act on the physical leg "
                               "and to keep its dimension")
                return AT(I, shape, 0, None, ("local_op", self.origin))
        raise Unsupported(f"operator {op.__name__} on an abstract tensor")


def _ortho_and(unit, tag):
    return _ortho_if(unit, tag)


# ---------------------------------------------------------------------------------------------
# the factor list
# ---------------------------------------------------------------------------------------------
class FactorList(SymObj):
    def __init__(self, I, name="factors", zero_disc=False, N=None, d=None, arrays=None):
        super().__init__("FactorList", None)
        ctx = I.ctx
        if N is None:
            N = ctx.fresh("N", "int")
            ctx.assume(N >= 1)
        if d is None:
            d = ctx.fresh("dim", "int")
            ctx.assume(d >= 1)
        pos = lambda v: v >= 1
        self.fields.update(N=N, d=d)
        if arrays is not None:
            # a new python list whose ghost view is given (functional arrays are re-owned)
            for nm, arr in arrays.items():
                self.fields[nm] = GArr(arr.fn, arr.sort, arr.fact, self)
        else:
            self.fields.update(
                chiL=fresh_garr(I, "chiL", "int", pos, self),
                chiR=fresh_garr(I, "chiR", "int", pos, self),
                iso=fresh_garr(I, "iso", "int", lambda v: z3.And(v >= 0, v <= 2), self),
                disc=(GArr(lambda j: Fraction(0), "real", None, self) if zero_disc
                      else fresh_garr(I, "disc", "real", None, self)))
        self.pending = None
        self.intact = True
        self.ver = 0
        self.writes = []          # (version, site index or None = any site)

    @property
    def length(self):
        return self.fields["N"]

    def _havocked(self):
        if self.pending is not None:
            raise Unsupported("factor list havocked (loop head / call) in the middle of a gauge move")
        if not self.writes or self.writes[-1] != (self.ver, None):
            self.ver += 1
            self.writes.append((self.ver, None))

    # -- element access -------------------------------------------------------------------------
    def _index(self, I, idx, what):
        ctx = I.ctx
        N = self.fields["N"]
        if isinstance(idx, T.LamTensor) and idx.ndim == 0:
            idx = idx.fn()
        if isinstance(idx, bool):
            idx = int(idx)
        if not (isinstance(idx, int) or (is_z3(idx) and z3.is_int(idx))):
            raise Unsupported(f"{what} of a factor list with an index of kind {type(idx).__name__}")
        iz = to_z3(idx)
        if isinstance(idx, int) and idx == 0:
            return 0                      # N >= 1
        inb = z3.And(iz >= -N, iz < N)
        if not ctx.branch(inb):
            raise RaiseSig("IndexError", "list index out of range", ctx.cur_line)
        if isinstance(idx, int) and idx < 0:
            return z3.simplify(N + idx)
        if ctx.entails(iz >= 0):
            return idx
        return z3.If(iz < 0, iz + N, iz)

    def _pair_slice(self, I, sl):
        """factors[l : l + 2] -> l (anything else is outside the model)"""
        ctx = I.ctx
        if sl.step not in (None, 1) or sl.start is None or sl.stop is None:
            raise Unsupported("slice of a factor list other than [l : l + 2]")
        lo, hi = to_z3(sl.start), to_z3(sl.stop)
        N = self.fields["N"]
        if not ctx.entails(hi - lo == 2):
            raise Unsupported("slice of a factor list whose length is not provably 2")
        if not ctx.branch(z3.And(lo >= 0, hi <= N)):
            raise Unsupported("two-site slice reaching beyond the factor list")
        return sl.start

    def getitem(self, I, idx):
        if isinstance(idx, T.SliceV):
            lo = self._pair_slice(I, idx)
            return [self.getitem(I, lo), self.getitem(I, ops.add(lo, 1))]
        k = self._index(I, idx, "read")
        f = self.fields
        t = AT(I, (f["chiL"].at(k), f["d"], f["chiR"].at(k)), f["iso"].at(k), None,
               ("site", self.oid, k, self.ver))
        t.flist = self
        return t

    def _current(self, I, origin, site):
        """origin is the value of `site` as the list holds it now"""
        if not (isinstance(origin, tuple) and origin[0] == "site" and origin[1] == self.oid):
            return False
        _, _, j, ver = origin
        if not _entails_eq(I, j, site):
            return False
        for wv, ws in self.writes:
            if wv > ver and (ws is None or not I.ctx.entails(to_z3(ws) != to_z3(j))):
                return False
        return True

    def setitem(self, I, idx, value):
        ctx = I.ctx
        if ctx.speculative:
            raise NeedFork()
        if isinstance(idx, T.SliceV):
            return self._store_pair(I, self._pair_slice(I, idx), value)
        i = self._index(I, idx, "store")
        if not isinstance(value, AT) or len(value.fields["shape"]) != 3:
            raise Unsupported("store of a value that is not an abstract 3-leg tensor into a factor list")
        f = self.fields
        a, s, b = value.fields["shape"]
        if not _entails_eq(I, s, f["d"]):
            raise Unsupported("stored factor: physical dimension not provably the list's")
        ctx.prove("stored-factor-nonempty", z3.And(to_z3(a) >= 1, to_z3(b) >= 1), "safety")
        self._account(I, i, value)
        f["chiL"] = f["chiL"].upd(i, a)
        f["chiR"] = f["chiR"].upd(i, b)
        f["iso"] = f["iso"].upd(i, value.ortho)
        for nm in ("chiL", "chiR", "iso"):
            ctx.log_write(self.oid, nm)
        self.ver += 1
        self.writes.append((self.ver, i))

    def _store_pair(self, I, l, value):
        """factors[l : l + 2] = (a, b): the result of a two-site update (evolve_pair) -- a declared
        change of the state (evolution of the two sites) followed by a truncation of their bond"""
        ctx = I.ctx
        if not (isinstance(value, (tuple, list)) and len(value) == 2 and all(isinstance(v, AT) for v in value)):
            raise Unsupported("two-site store of something that is not a pair of abstract factors")
        if self.pending is not None:
            raise Unsupported("two-site store in the middle of a gauge move")
        A, B = value
        r = ops.add(l, 1)
        f = self.fields
        (a0, s0, b0), (a1, s1, b1) = A.fields["shape"], B.fields["shape"]
        if not (_entails_eq(I, s0, f["d"]) and _entails_eq(I, s1, f["d"])):
            raise Unsupported("stored factors: physical dimension not provably the list's")
        ctx.prove("stored-factor-nonempty", z3.And(*[to_z3(v) >= 1 for v in (a0, b0, a1, b1)]), "safety")
        pairs = ctx.ghost.get("pairs", {})
        oa, ob = A.origin, B.origin
        p = pairs.get(oa[1]) if oa[0] == "pair_l" and ob[0] == "pair_r" and oa[1] == ob[1] else None
        if p is not None and self._current(I, p["src"][0], l) and self._current(I, p["src"][1], r):
            iso, N = f["iso"], f["N"]
            I.reg.prove_clause(I, "truncation-at-centre/left-part",
                               ForallV(lambda j: ops.equal(iso.at(j), 1), 0, l, "j"), "safety")
            I.reg.prove_clause(I, "truncation-at-centre/right-part",
                               ForallV(lambda j: ops.equal(iso.at(j), 2), ops.add(r, 1), N, "j"), "safety")
            delta = p["delta"]
            pn = p["preserve_norm"]
            if not (isinstance(pn, bool) and not pn):
                # preserve_norm rescales the kept part: the weight lost is then not the dropped weight
                u = ctx.fresh("rescaled_loss", "real")
                ctx.assume(u >= 0)
                delta = u if (isinstance(pn, bool) and pn) else z3.If(pn, u, to_z3(delta))
            disc = f["disc"]
            f["disc"] = disc.upd(r, ops.add(disc.at(r), delta))
            ctx.log_write(self.oid, "disc")
        else:
            I.session.note("two-site store that the model cannot follow: state identity lost")
            self.intact = False
        f["chiL"] = f["chiL"].upd(l, a0).upd(r, a1)
        f["chiR"] = f["chiR"].upd(l, b0).upd(r, b1)
        f["iso"] = f["iso"].upd(l, A.ortho).upd(r, B.ortho)
        for nm in ("chiL", "chiR", "iso"):
            ctx.log_write(self.oid, nm)
        for s in (l, r):
            self.ver += 1
            self.writes.append((self.ver, s))

    # -- what the store does to the represented state ---------------------------------------------
    def _account(self, I, i, value):
        ctx = I.ctx
        o = value.origin
        qrs = ctx.ghost.get("qrs", {})
        splits = ctx.ghost.get("splits", {})
        kind = o[0]
        if kind == "site" and self._current(I, o, i) and self.pending is None:
            return                                            # storing back what is there
        if kind == "scaled" and self._current(I, o[1], i) and self.pending is None:
            a2 = o[2]
            self.fields["disc"] = self.fields["disc"].map(lambda v: ops.mul(a2, v))
            ctx.log_write(self.oid, "disc")
            return
        if kind == "local_op" and self._current(I, o[1], i) and self.pending is None:
            return          # an operator applied on purpose: a declared change of the state
        if kind == "unview" and self.pending is None:
            inner, grouping = o[1], o[2]
            # left-to-right gauge move: site i := Q of QR(view xy|z of site i)
            if inner[0] == "qr_q" and grouping == "xy|z":
                src = qrs[inner[1]]["source"]
                if src[0] == "view" and src[2] == "xy|z" and self._current(I, src[1], i):
                    self.pending = dict(expect=("qr_r", inner[1]), side="L", site=ops.add(i, 1),
                                        transposed=False, delta=None, centre=i)
                    return
            # right-to-left gauge move: site i := Q^T of QR((view x|yz of site i)^T)
            if inner[0] == "mT" and inner[1][0] == "qr_q" and grouping == "x|yz":
                src = qrs[inner[1][1]]["source"]
                if src[0] == "mT" and src[1][0] == "view" and src[1][2] == "x|yz" \
                        and self._current(I, src[1][1], i):
                    self.pending = dict(expect=("qr_r", inner[1][1]), side="R", site=ops.sub(i, 1),
                                        transposed=True, delta=None, centre=i)
                    return
            # truncation towards the left: site i := r of split_matrix(view x|yz of site i)
            if inner[0] == "split_r" and grouping == "x|yz":
                sp = splits[inner[1]]
                src = sp["source"]
                if src[0] == "view" and src[2] == "x|yz" and self._current(I, src[1], i):
                    self._no_rescale(sp)
                    self.pending = dict(expect=("split_l", inner[1]), side="R", site=ops.sub(i, 1),
                                        transposed=False, delta=sp["delta"], bond=i, centre=i)
                    return
            # truncation towards the right: site i := l of split_matrix(view xy|z of site i)
            if inner[0] == "split_l" and grouping == "xy|z":
                sp = splits[inner[1]]
                src = sp["source"]
                if src[0] == "view" and src[2] == "xy|z" and self._current(I, src[1], i):
                    self._no_rescale(sp)
                    self.pending = dict(expect=("split_r", inner[1]), side="L", site=ops.add(i, 1),
                                        transposed=False, delta=sp["delta"], bond=ops.add(i, 1), centre=i)
                    return
        if kind in ("absorbL", "absorbR") and self.pending is not None:
            p = self.pending
            base, what, transposed = o[1], o[2], o[3]
            if kind == "absorb" + p["side"] and what == p["expect"] and transposed == p["transposed"] \
                    and _entails_eq(I, i, p["site"]) and self._current(I, base, i):
                self.pending = None
                if p["delta"] is not None:
                    c = p["centre"]
                    N = self.fields["N"]
                    iso = self.fields["iso"]
                    # the weight dropped by split_matrix is the weight the STATE loses only if the
                    # factor that was split is the orthogonality centre
                    I.reg.prove_clause(I, "truncation-at-centre/left-part",
                                       ForallV(lambda j: ops.equal(iso.at(j), 1), 0, c, "j"), "safety")
                    I.reg.prove_clause(I, "truncation-at-centre/right-part",
                                       ForallV(lambda j: ops.equal(iso.at(j), 2), ops.add(c, 1), N, "j"), "safety")
                    disc = self.fields["disc"]
                    self.fields["disc"] = disc.upd(p["bond"], ops.add(disc.at(p["bond"]), p["delta"]))
                    ctx.log_write(self.oid, "disc")
                return
        # anything else: the list no longer provably represents the old state
        I.session.note("store into a factor list that the gauge/truncation model cannot follow: state identity lost")
        self.intact = False
        self.pending = None

    @staticmethod
    def _no_rescale(sp):
        pn = sp.get("preserve_norm", False)
        if not (isinstance(pn, bool) and not pn):
            raise Unsupported("truncation through split_matrix(preserve_norm=True): rescaling not modelled")


# ---------------------------------------------------------------------------------------------
# assumed contracts of the kernels (A4)
# ---------------------------------------------------------------------------------------------
def m_qr(I, m, mode="reduced", **k):
    if not isinstance(m, AT) or len(m.fields["shape"]) != 2:
        raise Unsupported("torch.linalg.qr of a value that is not an abstract matrix")
    R, C = m.fields["shape"]
    kk = ops.minimum(R, C)
    qid = next(_ids)
    q = AT(I, (R, kk), 1, {0: m.groups[0]} if 0 in m.groups else {}, ("qr_q", qid))
    r = AT(I, (kk, C), 0, {1: m.groups[1]} if 1 in m.groups else {}, ("qr_r", qid))
    I.ctx.ghost.setdefault("qrs", {})[qid] = dict(source=m.origin, src_at=m)
    I.session.note("torch.linalg.qr: assumed contract (m = q r, q has orthonormal columns, reduced shapes)")
    return (q, r)


def _dims(dims):
    if isinstance(dims, int):
        return dims
    a, b = dims
    a = list(a) if isinstance(a, (list, tuple)) else [a]
    b = list(b) if isinstance(b, (list, tuple)) else [b]
    if len(a) == 1 and len(b) == 1 and isinstance(a[0], int) and isinstance(b[0], int):
        return (a[0], b[0])
    raise Unsupported("tensordot over several axes of an abstract tensor")


def m_tensordot(I, a, b, dims=2):
    if not (isinstance(a, AT) and isinstance(b, AT)):
        raise Unsupported("torch.tensordot with a non-abstract operand in the C10 model")
    ctx = I.ctx
    sa, sb = a.fields["shape"], b.fields["shape"]
    d = _dims(dims)
    if d == 1:
        d = (len(sa) - 1, 0)
    if not isinstance(d, tuple):
        raise Unsupported("tensordot dims")
    ax, bx = d
    ax = ax + len(sa) if ax < 0 else ax
    bx = bx + len(sb) if bx < 0 else bx
    if not ctx.branch(to_z3(ops.equal(sa[ax], sb[bx]))):
        raise RaiseSig("RuntimeError", "tensordot: contracted dimensions differ", ctx.cur_line)
    I.session.note("torch.tensordot: assumed contract (contracts the named legs; result shape; no orthonormality)")
    if len(sa) == 3 and len(sb) == 2 and ax == 2:
        # absorb a matrix into the right bond of a factor
        return AT(I, (sa[0], sa[1], sb[1 - bx]), 0, None, ("absorbR", a.origin, b.origin, bx == 1))
    if len(sa) == 2 and len(sb) == 3 and bx == 0:
        # absorb a matrix into the left bond of a factor
        return AT(I, (sa[1 - ax], sb[1], sb[2]), 0, None, ("absorbL", b.origin, a.origin, ax == 0))
    raise Unsupported("tensordot pattern outside the C10 model")


def m_finfo(I, *a, **k):
    o = SymObj("finfo", None)
    for nm in ("tiny", "eps"):
        v = I.ctx.fresh(nm, "real")
        I.ctx.assume(v > 0)
        o.fields[nm] = v
    return o


# ---------------------------------------------------------------------------------------------
# ghost functions of the clause language
# ---------------------------------------------------------------------------------------------
def _centre_val(m):
    c = m.fields["orthogonality_center"]
    return c


def g_has_centre(I, m):
    return _centre_val(m) is not None


def g_centre(I, m):
    c = _centre_val(m)
    if c is None:
        raise Unsupported("centre() of an MPS without a declared centre")
    return c


def g_lo_c(I, m):
    c = _centre_val(m)
    return 0 if c is None else c


def g_hi_c(I, m):
    c = _centre_val(m)
    return ops.sub(m.fields["num_sites"], 1) if c is None else c


def _arr(name):
    return lambda I, F, j: F.fields[name].at(j)


def g_intact(I, F):
    return bool(getattr(F, "intact", True)) and getattr(F, "pending", None) is None


def mps_obj(I, centre_known: bool, zero_disc=True, like=None):
    """an MPS object after __init__; `like`: another such object whose number of sites, physical
    dimension and eigenstates it shares (the second operand of +)"""
    ctx = I.ctx
    if like is None:
        F = FactorList(I, zero_disc=zero_disc)
        eig = ("r", "g")          # (the basis labels play no role in C10; + asserts they agree)
    else:
        F = FactorList(I, zero_disc=zero_disc, N=like.fields["num_sites"], d=like.fields["dim"])
        eig = like.fields["eigenstates"]
    o = SymObj("MPS", MPSMOD)
    N = F.fields["N"]
    c = None
    if centre_known:
        c = ctx.fresh("centre", "int")
        ctx.assume(z3.And(c >= 0, c < N))
    o.fields.update(factors=F, num_sites=N, dim=F.fields["d"], orthogonality_center=c,
                    precision=ctx.fresh("precision", "real"), max_bond_dim=ctx.fresh("max_bond_dim", "int"),
                    eigenstates=eig)
    return o


# ---------------------------------------------------------------------------------------------
# models of the list-building helpers of emu_mps/algebra.py and of the MPS constructor
# (symbolic-length comprehensions over tensors are outside the verified subset: assumed, read)
# ---------------------------------------------------------------------------------------------
def m_scale_factors(I, factors, scalar, *, which):
    """[scalar * f if i == which else f for i, f in enumerate(factors)]: a NEW list; exactly the
    factor at position `which` (if there is one) is multiplied by the scalar"""
    if not isinstance(factors, FactorList):
        raise Unsupported("scale_factors of a list outside the C10 model")
    ctx = I.ctx
    I.session.note("emu_mps.algebra.scale_factors: modelled (new list, factor `which` scaled; read, not verified)")
    f = factors.fields
    N = f["N"]
    wz = to_z3(which)
    if not ctx.branch(z3.And(wz >= 0, wz < N)):
        return FactorList(I, N=N, d=f["d"], arrays={k: f[k] for k in ("chiL", "chiR", "iso", "disc")})
    a2, unit = _scale_of(I, scalar)
    iso = f["iso"]
    return FactorList(I, N=N, d=f["d"], arrays=dict(
        chiL=f["chiL"], chiR=f["chiR"],
        iso=iso.upd(which, _ortho_if(unit, iso.at(which))),
        disc=f["disc"].map(lambda v: ops.mul(a2, v))))


def m_add_factors(I, left, right):
    """direct sum of two factor lists (emu_mps/algebra.py add_factors): first site concatenated
    along the right bond, last along the left bond, the others block-diagonal.  The result is a new
    state: no orthonormality, nothing discarded yet."""
    if not (isinstance(left, FactorList) and isinstance(right, FactorList)):
        raise Unsupported("add_factors of lists outside the C10 model")
    ctx = I.ctx
    I.session.note("emu_mps.algebra.add_factors: modelled (direct-sum bond dimensions; read, not verified)")
    a, b = left.fields, right.fields
    N = a["N"]
    if not ctx.branch(to_z3(ops.equal(N, b["N"]))):
        raise RaiseSig("ValueError", "different number of sites", ctx.cur_line)
    Nz = to_z3(N)
    aL, aR, bL, bR = a["chiL"], a["chiR"], b["chiL"], b["chiR"]
    chiL = GArr(lambda j: ops.ite(ops.equal(j, 0), aL.at(j), ops.add(aL.at(j), bL.at(j))), "int")
    chiR = GArr(lambda j: ops.ite(ops.b_and(ops.equal(j, Nz - 1), ops.b_not(ops.equal(j, 0))), aR.at(j),
                                  ops.add(aR.at(j), bR.at(j))), "int")
    return FactorList(I, N=N, d=a["d"], arrays=dict(
        chiL=chiL, chiR=chiR, iso=GArr(lambda j: 0, "int"), disc=GArr(lambda j: Fraction(0), "real")))


def m_mps_ctor(I, cref, args, kwargs):
    """MPS(factors, orthogonality_center=, precision=, max_bond_dim=, ...): the fields C10 talks about.
    The constructor's shape asserts (consecutive bonds match, outer bonds 1, more than one site,
    physical dimension) are assumed to pass; the range assert on the centre is modelled."""
    ctx = I.ctx
    F = args[0]
    if not isinstance(F, FactorList):
        raise Unsupported("MPS(...) from a list outside the C10 model")
    I.session.note("MPS.__init__: modelled (fields set from the arguments; shape asserts assumed to pass)")
    c = kwargs.get("orthogonality_center")
    N = F.fields["N"]
    if c is not None and not ctx.branch(z3.And(to_z3(c) >= 0, to_z3(c) < to_z3(N))):
        raise RaiseSig("AssertionError", "Invalid orthogonality center provided", ctx.cur_line)
    o = SymObj("MPS", MPSMOD)
    o.fields.update(factors=F, num_sites=N, dim=F.fields["d"], orthogonality_center=c,
                    precision=kwargs.get("precision", Fraction(1, 100000)),
                    max_bond_dim=kwargs.get("max_bond_dim", 1024),
                    eigenstates=kwargs.get("eigenstates", ("r", "g")))
    return o


# ---------------------------------------------------------------------------------------------
# two-site / one-site evolution kernels (emu_mps/solver_utils.py): shapes only (A4)
# ---------------------------------------------------------------------------------------------
def m_make_op(I, *, time_step, state_factors, baths, ham_factors, dim=2):
    """make_op: (two-site tensor of shape (left bond, dim^2, right bond), device, operator)"""
    if not (isinstance(state_factors, (list, tuple)) and len(state_factors) == 2
            and all(isinstance(s, AT) for s in state_factors)):
        raise Unsupported("make_op on factors outside the C10 model")
    ctx = I.ctx
    a, b = state_factors
    (x, d0, y0), (y1, d1, z) = a.fields["shape"], b.fields["shape"]
    if not ctx.branch(to_z3(ops.equal(y0, y1))):
        raise RaiseSig("RuntimeError", "tensordot: contracted dimensions differ", ctx.cur_line)
    if not (_entails_eq(I, d0, dim) and _entails_eq(I, d1, dim)):
        raise Unsupported("make_op: physical dimensions not provably `dim`")
    I.session.note("make_op: modelled (two-site tensor of shape (left bond, dim^2, right bond); read, not verified)")
    t = AT(I, (x, ops.mul(dim, dim), z), 0, None, ("pair", a.origin, b.origin))
    t.pair = (x, dim, z)
    return (t, Opaque("right_device"), Opaque("op"))


def m_krylov_exp(I, op, v, **k):
    """krylov_exp(op, v): a tensor of the shape of v (its accuracy is C07's business)"""
    if not isinstance(v, AT):
        raise Unsupported("krylov_exp on a value outside the C10 model")
    I.session.note("krylov_exp: assumed to return a tensor of the shape of its argument (A4; accuracy: C07)")
    t = AT(I, v.fields["shape"], 0, None, ("evolved", v.origin))
    if hasattr(v, "pair"):
        t.pair = v.pair
    return t


def m_evolve_single(I, *, state_factor, baths, ham_factor, dt, is_hermitian, config):
    if not isinstance(state_factor, AT):
        raise Unsupported("evolve_single on a value outside the C10 model")
    I.session.note("evolve_single: modelled (returns krylov_exp(op, state_factor): same shape; read)")
    return AT(I, state_factor.fields["shape"], 0, None, ("local_op", state_factor.origin))


def pair_result(I, name, env):
    """evolve_pair at a call site: the two new factors with their ghost handles"""
    ctx = I.ctx
    sf = env["state_factors"]
    if not (isinstance(sf, (list, tuple)) and len(sf) == 2 and all(isinstance(s, AT) for s in sf)):
        return Opaque(name)
    a, b = sf
    x, d, _ = a.fields["shape"]
    _, _, z = b.fields["shape"]
    ocr = env["orth_center_right"]
    n = ops.ite(ocr, _dimprod(I, x, d), _dimprod(I, d, z))
    ev = I.reg.sym_tensor(I, ctx.fresh_name("eig"), (n,))
    ctx.ghost["eigh_d"] = ev
    k = ctx.fresh("kept", "int")
    eid = next(_ids)
    left = AT(I, (x, d, k), _ortho_if(ocr, 1), None, ("pair_l", eid))
    right = AT(I, (k, d, z), _ortho_if(ops.b_not(ocr), 2), None, ("pair_r", eid))
    ctx.ghost.setdefault("pairs", {})[eid] = dict(
        src=(a.origin, b.origin), delta=mps_utils.prefix(I, ev, ops.sub(n, k)),
        preserve_norm=ops.b_not(env["is_hermitian"]))
    return (left, right)


def cfg_obj(I, name="config"):
    c = SymObj("MPSConfig", None)
    ctx = I.ctx
    c.fields.update(precision=ctx.fresh("precision", "real"), max_bond_dim=ctx.fresh("max_bond_dim", "int"),
                    extra_krylov_tolerance=ctx.fresh("extra_krylov_tolerance", "real"),
                    max_krylov_dim=ctx.fresh("max_krylov_dim", "int"))
    return c


CANON_IN = [
    # Canon(self): left of the declared centre left-orthonormal, right of it right-orthonormal
    # (no declared centre: nothing is known, both ranges are empty)
    "forall(lambda j: iso(self.factors, j) == 1, 0, lo_c(self))",
    "forall(lambda j: iso(self.factors, j) == 2, hi_c(self) + 1, self.num_sites)",
]
BONDS = "forall(lambda j: chiL(self.factors, j) == chiR(self.factors, j - 1), 1, self.num_sites)"
OUTER = ("chiL(self.factors, 0) == chiL(old(self.factors), 0) and "
         "chiR(self.factors, self.num_sites - 1) == chiR(old(self.factors), self.num_sites - 1)")
FACTOR_FRAME = ["self.factors.chiL", "self.factors.chiR", "self.factors.iso"]


def register(reg, prop="C10"):
    mps_utils.register(reg, prop)
    reg.external["torch.linalg.qr"] = m_qr
    reg.external["torch.tensordot"] = m_tensordot
    reg.external["torch.finfo"] = m_finfo
    reg.ghost_funcs.update(chiL=_arr("chiL"), chiR=_arr("chiR"), iso=_arr("iso"), disc=_arr("disc"),
                           nsites=lambda I, F: F.fields["N"], intact=g_intact,
                           has_centre=g_has_centre, centre=g_centre, lo_c=g_lo_c, hi_c=g_hi_c,
                           norm_of=lambda I, s: s.of if isinstance(s, AbsScalar) else None)
    reg.add_class("MPS", module=MPSMOD, fields={"orthogonality_center": "int"})

    # ==== truncate_impl ==========================================================================
    TI_BONDS = "forall(lambda j: chiL(factors, j) == chiR(factors, j - 1), 1, nsites(factors))"
    TI_OUTER = ("chiL(factors, 0) == chiL(old(factors), 0) and "
                "chiR(factors, nsites(factors) - 1) == chiR(old(factors), nsites(factors) - 1)")
    BUDGET = ("disc(factors, j) - disc(old(factors), j) <= precision * precision "
              "or chiL(factors, j) == max_bond_dim")
    reg.add_contract(Contract(
        f"{UTILS}:truncate_impl", property=prop,
        params={"factors": lambda I, n: FactorList(I), "precision": "real", "max_bond_dim": "int"},
        requires=[
            "precision > 0", "max_bond_dim >= 1",
            # "Requires the matrix product to be orthogonalized on the last element"
            "forall(lambda j: iso(factors, j) == 1, 0, nsites(factors) - 1)",
            TI_BONDS, "intact(factors)",
        ],
        raises={},
        modifies=["factors.chiL", "factors.chiR", "factors.iso", "factors.disc"],
        loops={0: dict(
            invariant=[
                # sites right of the current one: capped, right-orthonormal, budget respected
                "forall(lambda j: chiL(factors, j) <= max_bond_dim, nsites(factors) - _k, nsites(factors))",
                "forall(lambda j: iso(factors, j) == 2, nsites(factors) - _k, nsites(factors))",
                f"forall(lambda j: {BUDGET}, nsites(factors) - _k, nsites(factors))",
                # sites left of the current one are untouched: still left-orthonormal, nothing discarded
                "forall(lambda j: iso(factors, j) == 1, 0, nsites(factors) - 1 - _k)",
                "forall(lambda j: disc(factors, j) == disc(old(factors), j), 1, nsites(factors) - _k)",
                TI_BONDS, TI_OUTER, "intact(factors)",
            ],
            modifies=["factors.chiL", "factors.chiR", "factors.iso", "factors.disc"])},
        ensures=[
            # no bond exceeds the cap
            "forall(lambda j: chiL(factors, j) <= max_bond_dim, 1, nsites(factors))",
            # everything right of site 0 is right-orthonormal: the centre is site 0
            "forall(lambda j: iso(factors, j) == 2, 1, nsites(factors))",
            # unless the cap binds, the weight discarded at each bond is at most precision^2 (absolute)
            f"forall(lambda j: {BUDGET}, 1, nsites(factors))",
            TI_BONDS, TI_OUTER,
            # nothing else happened to the represented state
            "intact(factors)",
        ],
    ))

    # ==== MPS.orthogonalize ========================================================================
    def add_variants(name, make):
        for known in (True, False):
            c = make(known)
            reg.add_contract(c, callsite=known)
            if known:
                # the call-site face serves both representations of the centre (int / None)
                pass

    def orthogonalize(known):
        return Contract(
            f"{MPSMOD}:MPS.orthogonalize", property=prop,
            label="MPS.orthogonalize" + ("" if known else "[centre None]"),
            params={"self": lambda I, n: mps_obj(I, known), "desired_orthogonality_center": "int"},
            requires=CANON_IN + [BONDS, "intact(self.factors)"],
            raises={"AssertionError": "not (0 <= desired_orthogonality_center and "
                                      "desired_orthogonality_center < self.num_sites)"},
            raises_when={"AssertionError": "not (0 <= desired_orthogonality_center and "
                                           "desired_orthogonality_center < self.num_sites)"},
            modifies=FACTOR_FRAME + ["self.orthogonality_center"],
            returns="int",
            loops={
                0: dict(invariant=[
                    "forall(lambda j: iso(self.factors, j) == 1, 0, lr_swipe_start + _k)",
                    "forall(lambda j: iso(self.factors, j) == 2, max(lr_swipe_start + _k, hi_c(self)) + 1, "
                    "self.num_sites)",
                    BONDS,
                    "forall(lambda j: chiL(self.factors, j) <= chiL(old(self.factors), j), 1, self.num_sites)",
                    OUTER, "intact(self.factors)"],
                    modifies=FACTOR_FRAME),
                1: dict(invariant=[
                    "forall(lambda j: iso(self.factors, j) == 1, 0, desired_orthogonality_center)",
                    "forall(lambda j: iso(self.factors, j) == 2, "
                    "max(rl_swipe_start - _k, desired_orthogonality_center) + 1, self.num_sites)",
                    BONDS,
                    "forall(lambda j: chiL(self.factors, j) <= chiL(old(self.factors), j), 1, self.num_sites)",
                    OUTER, "intact(self.factors)"],
                    modifies=FACTOR_FRAME),
            },
            ensures=[
                "result == desired_orthogonality_center",
                "has_centre(self) and centre(self) == desired_orthogonality_center",
                # Canon(self) with the new centre
                "forall(lambda j: iso(self.factors, j) == 1, 0, desired_orthogonality_center)",
                "forall(lambda j: iso(self.factors, j) == 2, desired_orthogonality_center + 1, self.num_sites)",
                BONDS,
                # QR never increases a bond
                "forall(lambda j: chiL(self.factors, j) <= chiL(old(self.factors), j), 1, self.num_sites)",
                OUTER,
                # the represented state is unchanged: gauge moves only, nothing discarded, no rescaling
                "forall(lambda j: disc(self.factors, j) == disc(old(self.factors), j), 1, self.num_sites)",
                "intact(self.factors)",
            ])
    add_variants("orthogonalize", orthogonalize)

    # ==== MPS.truncate ===============================================================================
    M_BUDGET = ("disc(self.factors, j) - disc(old(self.factors), j) <= self.precision * self.precision "
                "or chiL(self.factors, j) == self.max_bond_dim")

    def truncate(known):
        return Contract(
            f"{MPSMOD}:MPS.truncate", property=prop,
            label="MPS.truncate" + ("" if known else "[centre None]"),
            params={"self": lambda I, n: mps_obj(I, known)},
            requires=["self.precision > 0", "self.max_bond_dim >= 1"] + CANON_IN + [BONDS, "intact(self.factors)"],
            raises={},
            modifies=FACTOR_FRAME + ["self.factors.disc", "self.orthogonality_center"],
            ensures=[
                "has_centre(self) and centre(self) == 0",
                # no bond exceeds the maximum bond dimension
                "forall(lambda j: chiL(self.factors, j) <= self.max_bond_dim, 1, self.num_sites)",
                # tensors right of the declared centre (site 0) are right-orthonormal
                "forall(lambda j: iso(self.factors, j) == 2, 1, self.num_sites)",
                # unless the cap binds, the weight discarded at each bond is at most precision^2 --
                # in absolute units of the state as it is on return
                f"forall(lambda j: {M_BUDGET}, 1, self.num_sites)",
                BONDS, OUTER,
                "intact(self.factors)",
            ])
    add_variants("truncate", truncate)

    # ==== MPS.norm =====================================================================================
    def norm(known):
        return Contract(
            f"{MPSMOD}:MPS.norm", property=prop,
            label="MPS.norm" + ("" if known else "[centre None]"),
            params={"self": lambda I, n: mps_obj(I, known)},
            requires=CANON_IN + [BONDS, "intact(self.factors)"],
            raises={},
            modifies=FACTOR_FRAME + ["self.orthogonality_center"],
            returns=lambda I, name, env: AbsScalar(I.ctx.fresh("norm", "real"), None),
            ensures=[
                # the value returned is the norm of the tensor at the declared centre of a state in
                # canonical form (trusted link: Canon(self) => |psi| = |factors[centre]|)
                "has_centre(self)",
                "norm_is_of_site(result, self.factors, centre(self))",
                "forall(lambda j: iso(self.factors, j) == 1, 0, centre(self))",
                "forall(lambda j: iso(self.factors, j) == 2, centre(self) + 1, self.num_sites)",
                "forall(lambda j: disc(self.factors, j) == disc(old(self.factors), j), 1, self.num_sites)",
                "intact(self.factors)",
            ])
    reg.ghost_funcs["norm_is_of_site"] = g_norm_is_of_site
    for known in (True, False):
        reg.add_contract(norm(known), callsite=False)

    # ==== MPS.apply ====================================================================================
    def apply(known):
        def op(I, n):
            return Opaque("single_qubit_operator")
        return Contract(
            f"{MPSMOD}:MPS.apply", property=prop,
            label="MPS.apply" + ("" if known else "[centre None]"),
            params={"self": lambda I, n: mps_obj(I, known), "qubit_index": "int", "single_qubit_operator": op},
            requires=CANON_IN + [BONDS, "intact(self.factors)"],
            raises={"AssertionError": "not (0 <= qubit_index and qubit_index < self.num_sites)"},
            modifies=FACTOR_FRAME + ["self.orthogonality_center"],
            ensures=[
                # "leaving the MPS orthogonalized on that qubit"
                "has_centre(self) and centre(self) == qubit_index",
                "forall(lambda j: iso(self.factors, j) == 1, 0, qubit_index)",
                "forall(lambda j: iso(self.factors, j) == 2, qubit_index + 1, self.num_sites)",
                BONDS,
                "forall(lambda j: chiL(self.factors, j) <= chiL(old(self.factors), j), 1, self.num_sites)",
                "forall(lambda j: disc(self.factors, j) == disc(old(self.factors), j), 1, self.num_sites)",
                "intact(self.factors)",
            ])
    for known in (True, False):
        reg.add_contract(apply(known), callsite=False)

    # ==== MPS.__rmul__ / __imul__ =======================================================================
    reg.policies["emu_mps.algebra:scale_factors"] = m_scale_factors
    reg.policies["emu_mps.algebra:add_factors"] = m_add_factors
    reg.class_policies["MPS"] = m_mps_ctor
    R_CANON = ["forall(lambda j: iso(result.factors, j) == 1, 0, lo_c(result))",
               "forall(lambda j: iso(result.factors, j) == 2, hi_c(result) + 1, result.num_sites)"]

    def rmul(known, name):
        return Contract(
            f"{MPSMOD}:MPS.{name}", property=prop,
            label=f"MPS.{name}" + ("" if known else "[centre None]"),
            params={"self": lambda I, n: mps_obj(I, known, zero_disc=False), "scalar": "real"},
            requires=CANON_IN + [BONDS, "intact(self.factors)"],
            raises={},
            policies={f"{MPSMOD}:MPS.__rmul__": "inline"},
            ensures=[
                # the declared centre is kept, and it stays valid: only the centre tensor is scaled
                "has_centre(result) == has_centre(self)",
                "implies(has_centre(self), centre(result) == centre(self))",
            ] + R_CANON + [
                "result.num_sites == self.num_sites and result.precision == self.precision "
                "and result.max_bond_dim == self.max_bond_dim",
                "forall(lambda j: chiL(result.factors, j) == chiL(self.factors, j) and "
                "chiR(result.factors, j) == chiR(self.factors, j), 0, self.num_sites)",
                # the state is scaled by the scalar: weights already discarded scale with |scalar|^2
                "forall(lambda j: disc(result.factors, j) == scalar * scalar * disc(self.factors, j), 1, self.num_sites)",
                # self is left alone
                "forall(lambda j: iso(self.factors, j) == iso(old(self.factors), j), 0, self.num_sites)",
            ])
    for nm in ("__rmul__", "__imul__"):
        for known in (True, False):
            reg.add_contract(rmul(known, nm), callsite=False)

    # ==== MPS.__add__ ===================================================================================
    def add(known):
        def setup(I, fr):
            fr.locals["other"] = mps_obj(I, True, like=fr.locals["self"])
        return Contract(
            f"{MPSMOD}:MPS.__add__", property=prop,
            label="MPS.__add__" + ("" if known else "[centre None]"),
            params={"self": lambda I, n: mps_obj(I, known), "other": "opaque"}, setup=setup,
            requires=["self.precision > 0", "self.max_bond_dim >= 1", BONDS, BONDS.replace("self.", "other."),
                      "intact(self.factors)", "intact(other.factors)"],
            raises={},
            ensures=[
                # "The resulting MPS is orthogonalized on the first site and truncated up to
                # self.config.precision": the sum is a new state, truncated with SELF's settings
                "has_centre(result) and centre(result) == 0",
                "forall(lambda j: chiL(result.factors, j) <= self.max_bond_dim, 1, self.num_sites)",
                "forall(lambda j: iso(result.factors, j) == 2, 1, self.num_sites)",
                "forall(lambda j: disc(result.factors, j) <= self.precision * self.precision "
                "or chiL(result.factors, j) == self.max_bond_dim, 1, self.num_sites)",
                "forall(lambda j: chiL(result.factors, j) == chiR(result.factors, j - 1), 1, self.num_sites)",
                "intact(result.factors)",
                "result.num_sites == self.num_sites",
            ])
    for known in (True, False):
        reg.add_contract(add(known), callsite=False)

    # ==== evolve_pair (solver_utils) ======================================================================
    SOLV = "emu_mps.solver_utils"
    IMPL = "emu_mps.mps_backend_impl"
    reg.policies[f"{SOLV}:make_op"] = m_make_op
    reg.policies["emu_base.math.krylov_exp:krylov_exp"] = m_krylov_exp
    reg.policies[f"{SOLV}:evolve_single"] = m_evolve_single
    reg.ghost_funcs["ortho"] = lambda I, t: t.ortho

    def pair_factors(I, n):
        ctx = I.ctx
        x, y, z, d = (ctx.fresh(nm, "int") for nm in ("x", "y", "z", "d"))
        ctx.assume(z3.And(x >= 1, y >= 1, z >= 1, d >= 1))
        return [AT(I, (x, d, y)), AT(I, (y, d, z))]

    def pair_setup(I, fr):
        fr.locals["dim"] = fr.locals["state_factors"][0].fields["shape"][1]

    reg.add_contract(Contract(
        f"{SOLV}:evolve_pair", property=prop,
        params={"state_factors": pair_factors, "baths": "opaque", "ham_factors": "opaque", "dt": "real",
                "orth_center_right": "bool", "is_hermitian": "bool", "config": lambda I, n: cfg_obj(I),
                "dim": "int"},
        setup=pair_setup,
        requires=["config.precision > 0", "config.max_bond_dim >= 1",
                  "state_factors[0].shape[2] == state_factors[1].shape[0]",
                  "state_factors[0].shape[1] == dim and state_factors[1].shape[1] == dim",
                  "state_factors[0].shape[0] >= 1 and state_factors[1].shape[2] >= 1 and dim >= 1"],
        raises={},
        returns=pair_result,
        ensures=[
            # the outer bonds and the physical legs are kept, one common new bond
            "result[0].shape[0] == state_factors[0].shape[0] and result[0].shape[1] == dim",
            "result[1].shape[2] == state_factors[1].shape[2] and result[1].shape[1] == dim",
            "result[0].shape[2] == result[1].shape[0]",
            # split with max_rank = config.max_bond_dim: the new bond respects the cap
            "1 <= result[0].shape[2] and result[0].shape[2] <= config.max_bond_dim",
            # orth_center_right is passed through: the factor AWAY from the new centre is orthonormal
            "implies(orth_center_right, ortho(result[0]) == 1)",
            "implies(not orth_center_right, ortho(result[1]) == 2)",
            # split with max_error = config.precision: unless the cap binds, the dropped weight is <= precision^2
            "prefix(eig_d(), len(eig_d()) - result[0].shape[2]) <= config.precision * config.precision "
            "or result[0].shape[2] == config.max_bond_dim",
        ]))

    # ==== MPSBackendImpl._evolve: centre bookkeeping ========================================================
    def impl_obj(I, n):
        o = SymObj("MPSBackendImpl", IMPL)
        st = mps_obj(I, True)
        o.fields.update(state=st, hamiltonian=Opaque("hamiltonian"), config=cfg_obj(I),
                        has_lindblad_noise=I.ctx.fresh("has_lindblad_noise", "bool"), dim=st.fields["dim"])
        return o
    reg.add_class("MPSBackendImpl", module=IMPL, fields={})
    S_CANON = [c.replace("self.", "self.state.").replace("(self)", "(self.state)") for c in CANON_IN]
    S_BONDS = BONDS.replace("self.", "self.state.")
    S_OUT = ["forall(lambda j: iso(self.state.factors, j) == 1, 0, centre(self.state))",
             "forall(lambda j: iso(self.state.factors, j) == 2, centre(self.state) + 1, self.state.num_sites)"]

    def two_indices(I, n):
        return (I.ctx.fresh("l", "int"), I.ctx.fresh("r", "int"))
    PAIR_ASSERT = ("not (indices[1] == indices[0] + 1) or "
                   "not (centre(self.state) == indices[0] or centre(self.state) == indices[1])")
    reg.add_contract(Contract(
        f"{IMPL}:MPSBackendImpl._evolve", property=prop, label="MPSBackendImpl._evolve[pair]",
        params={"self": impl_obj, "indices": two_indices, "dt": "real", "orth_center_right": "bool"},
        requires=["self.config.precision > 0", "self.config.max_bond_dim >= 1",
                  "0 <= indices[0] and indices[1] < self.state.num_sites"] + S_CANON + [
                  S_BONDS, "intact(self.state.factors)"],
        raises={"AssertionError": PAIR_ASSERT},
        ensures=[
            # the declared centre follows orth_center_right ...
            "centre(self.state) == (indices[1] if orth_center_right else indices[0])",
            # ... and the factors are in canonical form with respect to it
        ] + S_OUT + [
            "chiL(self.state.factors, indices[1]) <= self.config.max_bond_dim",
            S_BONDS,
            "disc(self.state.factors, indices[1]) - disc(old(self.state.factors), indices[1]) <= "
            "self.config.precision * self.config.precision or "
            "chiL(self.state.factors, indices[1]) == self.config.max_bond_dim or self.has_lindblad_noise",
            "intact(self.state.factors)",
        ]), callsite=False)
    reg.add_contract(Contract(
        f"{IMPL}:MPSBackendImpl._evolve", property=prop, label="MPSBackendImpl._evolve[single]",
        params={"self": impl_obj, "indices": lambda I, n: (I.ctx.fresh("index", "int"),), "dt": "real",
                "orth_center_right": "none"},
        requires=S_CANON + [S_BONDS, "intact(self.state.factors)"],
        raises={"AssertionError": "not (centre(self.state) == indices[0])"},
        ensures=["centre(self.state) == indices[0]"] + S_OUT + [
            S_BONDS,
            "forall(lambda j: chiL(self.state.factors, j) == chiL(old(self.state.factors), j), 0, self.state.num_sites)",
            "forall(lambda j: disc(self.state.factors, j) == disc(old(self.state.factors), j), 1, self.state.num_sites)",
            "intact(self.state.factors)",
        ]), callsite=False)

    targets = [f"{UTILS}:truncate_impl"]
    for nm in ("orthogonalize", "truncate", "norm", "apply", "__rmul__", "__imul__", "__add__"):
        targets += [f"{MPSMOD}:MPS.{nm}", f"{MPSMOD}:MPS.{nm}[centre None]"]
    targets += [f"{SOLV}:evolve_pair", f"{IMPL}:MPSBackendImpl._evolve[pair]", f"{IMPL}:MPSBackendImpl._evolve[single]"]
    return targets


def g_norm_is_of_site(I, s, F, c):
    """the scalar is the norm of the value the list holds at site c now"""
    if not isinstance(s, AbsScalar) or s.of is None:
        return False
    if I.ctx.ghost.get("pattern_probe"):
        return True
    return F._current(I, s.of, c) if isinstance(F, FactorList) else False
