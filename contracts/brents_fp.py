"""Floating-point side obligations for Brent's root finder (C19): BOUNDED, by concrete execution.

The proof in contracts/brents.py is over the reals (A1): there `fa * y < 0` and `(fa < 0 < y) or
(y < 0 < fa)` are the same statement.  In IEEE doubles they are not -- a product of two ordinates
underflows to zero below about 1e-154 and overflows above about 1e154 -- and a rewrite that is an
identity over the reals can lose the sign change.  So the module's real source text is taken from
the repository under check and executed in double arithmetic (it is pure Python: no torch) on a
fixed family of functions whose ordinates span the exponent range, and the property's clauses are
evaluated on the concrete run:

  no-exception            find_root_brents returns
  terminates              within MAX_QUERIES function evaluations
  queries-inside-bracket  every abscissa it asks for lies in [start, end]
  result-at-sign-change   f has a zero or changes sign within `tolerance` of the returned point
                          (dense sampling of [r - tol, r + tol], zeros of the float function count)

both through find_root_brents and by feeding ordinates one at a time as the noisy solver does.
One failing input per clause is the counter-model; replay/c19.py replays it on the real module."""
from __future__ import annotations

import hashlib
import math
import os
import time

MAX_QUERIES = 400
LO, HI, ROOT = -10.0, 40.0, 3.7


class TooMany(Exception):
    pass


def load(repo_root):
    path = os.path.join(repo_root, "emu_base", "math", "brents_root_finding.py")
    src = open(path).read()
    ns = {"__name__": "brents_under_check"}
    exec(compile(src, path, "exec"), ns)
    return ns, path, hashlib.sha256(src.encode()).hexdigest()


def shapes():
    r = ROOT
    return [
        ("linear", lambda x: x - r),
        ("cubic", lambda x: (x - r) ** 3),
        ("step", lambda x: -1.0 if x < r else 1.0 + 0.1 * (x - r)),
        ("atan", lambda x: math.atan(5 * (x - r))),
        ("exp", lambda x: math.exp(0.2 * (x - r)) - 1),
        # very flat on one side of the sign change, O(1) on the other
        ("flat-right", lambda x: (x - r) if x < r else ((x - r) / 40) ** 41),
        ("flat-left", lambda x: -((r - x) / 20) ** 41 if x < r else (x - r)),
        # a jump from O(1) to a tiny positive plateau that rises slowly
        ("jump-to-tiny", lambda x: -1.0 if x < r else 1e-170 * (1 + (x - r))),
        ("jump-from-tiny", lambda x: -1e-170 * (1 + (r - x)) if x < r else 1.0),
        ("wiggle", lambda x: 0.3 * (x - r) + 2.0 * math.sin(1.3 * (x - r))),
    ]


def cases(tier):
    scales = [1.0, 1e-100, 1e-160, 1e-200, 1e-300, 1e100, 1e200, 1e300]
    tols = [(1e-6, 1e-6), (1e-3, 1.0), (1.0, 1.0)]
    if tier == "thorough":
        scales += [1e-120, 1e-155, 1e-170, 1e-250, 1e150, 1e250, 3.7e-162, 2.2e-308]
        tols += [(1e-9, 1e-9), (0.25, 1e-3)]
    for sname, fn in shapes():
        for sc in scales:
            for tol, eps in tols:
                for sign in (1.0, -1.0):
                    yield dict(shape=sname, scale=sc, tolerance=tol, epsilon=eps, sign=sign), \
                        (lambda x, fn=fn, sc=sc, sign=sign: sign * sc * fn(x))


def sign_change_near(f, r, tol):
    a, b = max(LO, r - tol), min(HI, r + tol)
    n = 2000
    prev = f(a)
    if prev == 0:
        return True
    for k in range(1, n + 1):
        v = f(a + (b - a) * k / n)
        if v == 0 or (v < 0) != (prev < 0):
            return True
        prev = v
    return False


def run_one(ns, f, tol, eps, one_at_a_time):
    """-> dict clause -> (ok, detail)"""
    queries = []

    def g(x):
        queries.append(x)
        if len(queries) > MAX_QUERIES:
            raise TooMany()
        return f(x)
    res = {}
    try:
        if one_at_a_time:
            rf = ns["BrentsRootFinder"](start=LO, end=HI, f_start=f(LO), f_end=f(HI), epsilon=eps)
            while not rf.is_converged(tol):
                x = rf.get_next_abscissa()
                rf.provide_ordinate(x, g(x))
            r = rf.current_guess
        else:
            r = ns["find_root_brents"](g, start=LO, end=HI, tolerance=tol, epsilon=eps)
    except TooMany:
        res["terminates"] = (False, f"more than {MAX_QUERIES} evaluations")
        return res
    except Exception as e:                  # noqa: BLE001
        res["no-exception"] = (False, f"{type(e).__name__}: {e}")
        return res
    res["no-exception"] = (True, "")
    res["terminates"] = (True, "")
    outside = [x for x in queries if not (LO <= x <= HI)]
    res["queries-inside-bracket"] = (not outside, f"queried {outside[:3]}")
    ok = isinstance(r, float) and LO <= r <= HI and sign_change_near(f, r, tol)
    res["result-at-sign-change"] = (ok, f"returned {r!r} after {len(queries)} evaluations; the sign change is at {ROOT}")
    return res


CLAUSES = ["no-exception", "terminates", "queries-inside-bracket", "result-at-sign-change"]


def run(prop, tier, repo_root):
    t0 = time.time()
    label = "find_root_brents[float]"
    func = f"{prop}/{label}"
    rep = {"target": "emu_base.math.brents_root_finding:find_root_brents", "label": label, "paths": 0, "error": None,
           "crash": None, "obligations": [], "assumptions": [], "stats": {}, "span": None, "file": None,
           "sha256": None, "wall_s": 0, "outcomes": {}, "contract": None}
    try:
        ns, path, sha = load(repo_root)
        rep.update(file=path, sha256=sha, span=[1, len(open(path).read().splitlines())])
        fails = {}
        n = 0
        for mode in (False, True):
            for case, f in cases(tier):
                if not (f(LO) < 0 < f(HI) or f(HI) < 0 < f(LO)):
                    continue            # not a bracket in doubles (an end value underflowed to zero)
                n += 1
                res = run_one(ns, f, case["tolerance"], case["epsilon"], mode)
                for cl, (ok, detail) in res.items():
                    key = f"{cl}[{'one-at-a-time' if mode else 'find_root_brents'}]"
                    if not ok and key not in fails:
                        fails[key] = dict(case, start=LO, end=HI, one_at_a_time=mode, detail=detail)
        rep["paths"] = n
        for mode in ("find_root_brents", "one-at-a-time"):
            for cl in CLAUSES:
                key = f"{cl}[{mode}]"
                bad = fails.get(key)
                rep["obligations"].append({
                    "name": f"{func}/fp/{key}", "kind": "bounded-float", "status": "failed" if bad else "discharged",
                    "backend": "concrete-ieee754", "time_s": 0.0, "model": bad, "lineno": 1,
                    "func": func, "path": [], "note": f"{n} concrete runs (ordinate scales 1e-300 .. 1e300)", "known": None})
    except Exception:
        import traceback
        rep["crash"] = traceback.format_exc()
    rep["wall_s"] = round(time.time() - t0, 2)
    return [rep]
