"""Contracts for emu_mps/utils.py: truncation arithmetic (C10)."""
import z3

from pyvc import ops, tensor as T
from pyvc.ghost import rec_function
from pyvc.registry import Contract
from pyvc.values import Opaque, to_z3

UTILS = "emu_mps.utils"


def prefix(I, d, t):
    """ghost: sum of d[0..t) -- the weight discarded by dropping the first t (smallest)
    eigen-directions.  One uninterpreted function per tensor, unfolded on use."""
    f = rec_function(I, f"prefix@{d.tid}", 0, lambda k, prev: prev + to_z3(d.fn(k)))
    return f(I, t)


def register(reg, prop="C10"):
    reg.ghost_funcs["prefix"] = prefix
    reg.ghost_funcs["eig_d"] = lambda I: I.ctx.ghost["eigh_d"]

    # ---- _determine_cutoff_index -------------------------------------------------------
    def d_tensor(I, name):
        n = I.ctx.fresh("n", "int")
        I.ctx.assume(n >= 0)
        return reg.sym_tensor(I, "d", (n,))

    reg.add_contract(Contract(
        f"{UTILS}:_determine_cutoff_index", property=prop,
        params={"d": d_tensor, "max_error": "real"},
        requires=[],
        raises={"AssertionError": "not (max_error > 0)"},
        raises_when={"AssertionError": "not (max_error > 0)"},
        returns="int",
        loops={0: dict(invariant=["acc == prefix(d, _k)", "acc <= max_error * max_error"])},
        ensures=[
            "0 <= result",
            "result < max(len(d), 1)",
            # the weight discarded by cutting `result` directions is within the error budget
            "prefix(d, result) <= max_error * max_error",
            # (maximality of the cut is deliberately NOT required: the property only bounds the
            #  discarded weight, so a more conservative cut is not a violation)
        ],
    ))

    # ---- split_matrix -------------------------------------------------------------------
    def m_tensor(I, name):
        r = I.ctx.fresh("rows", "int")
        c = I.ctx.fresh("cols", "int")
        I.ctx.assume(z3.And(r >= 1, c >= 1))
        return reg.sym_tensor(I, "m", (r, c))

    def eigh(I, h):
        """A4: eigh(h) -> (d ascending real, q unitary), h = q diag(d) q^H; only the shapes and
        the ghost handle on d are used here."""
        n = h.shape[0]
        d = reg.sym_tensor(I, "eig", (n,))
        q = reg.sym_tensor(I, "Q", (n, n))
        I.ctx.ghost["eigh_d"] = d
        I.ctx.ghost["eigh_q"] = q
        I.session.note("torch.linalg.eigh: assumed contract (ascending real eigenvalues d, unitary q, shapes)")
        return (d, q)
    reg.external["torch.linalg.eigh"] = eigh

    def split_returns(I, name, env):
        """result at a call site: abstract matrices with ghost handles when the argument is an
        abstract tensor of the C10 factor-list model (contracts/mps_canon.py), else opaque"""
        m = env.get("m")
        if hasattr(m, "split_result"):
            return m.split_result(I, env)
        return Opaque(name)

    reg.add_contract(Contract(
        f"{UTILS}:split_matrix", property=prop,
        params={"m": m_tensor, "max_error": "real", "max_rank": "int", "orth_center_right": "bool",
                "preserve_norm": "bool"},
        # (the matrix is non-empty: the verification domain of m_tensor, now owed by every caller)
        requires=["max_error > 0", "max_rank >= 1", "m.shape[0] >= 1 and m.shape[1] >= 1"],
        raises={},
        returns=split_returns,
        ensures=[
            # shapes: left (rows x k), right (k x cols), common bond k
            "result[0].shape[0] == m.shape[0] and result[1].shape[1] == m.shape[1]",
            "result[0].shape[1] == result[1].shape[0]",
            # the new bond never exceeds the cap and keeps at least one direction
            "1 <= result[0].shape[1]",
            "result[0].shape[1] <= max_rank",
            "result[0].shape[1] <= len(eig_d())",
            # unless the cap binds, the discarded weight is within max_error^2
            "prefix(eig_d(), len(eig_d()) - result[0].shape[1]) <= max_error * max_error"
            " or result[0].shape[1] == max_rank",
            # the spectrum that is cut is that of the Gram matrix on the side of the future centre
            "len(eig_d()) == (m.shape[0] if orth_center_right else m.shape[1])",
        ],
    ))

    # ---- split_matrix: which factor is the isometry -----------------------------------------------
    # Verification-only variant: the factor on the side AWAY from the future centre is, entry by
    # entry, the (adjoint of the) trailing columns of eigh's unitary q.  Orthonormality of those
    # columns is A4 (q unitary); this clause pins down that the code really returns them, untouched
    # by the preserve_norm rescaling.  The call-site face (split_returns / AT.split_result) tags
    # result[1] right-orthonormal when orth_center_right is False and result[0] left-orthonormal
    # when it is True on the strength of this clause.
    reg.ghost_funcs["eig_q"] = lambda I: I.ctx.ghost["eigh_q"]
    reg.add_contract(Contract(
        f"{UTILS}:split_matrix", property=prop, label="split_matrix[isometry]",
        params={"m": m_tensor, "max_error": "real", "max_rank": "int", "orth_center_right": "bool",
                "preserve_norm": "bool"},
        requires=["max_error > 0", "max_rank >= 1", "m.shape[0] >= 1 and m.shape[1] >= 1"],
        raises={},
        returns="opaque",
        ensures=[
            "forall(lambda i: forall(lambda j: implies(not orth_center_right, result[1][i, j] == "
            "eig_q()[j, i + len(eig_d()) - result[0].shape[1]]), 0, m.shape[1]), 0, result[0].shape[1])",
            "forall(lambda i: forall(lambda j: implies(orth_center_right, result[0][i, j] == "
            "eig_q()[i, j + len(eig_d()) - result[0].shape[1]]), 0, result[0].shape[1]), 0, m.shape[0])",
        ],
    ), callsite=False)
