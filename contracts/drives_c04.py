"""C04: _extract_omega_delta_phi refuses samples that span more than one interaction basis
(e.g. ground-rydberg + digital/Raman): no drive data, hence no results, are produced."""
import z3

from pyvc.registry import Contract
from pyvc.values import SymObj, to_z3

from . import common, pchip
from .drives import ADAPTER, QIDS, NAMES


def register(reg, prop="C04"):
    pchip.register(reg, prop)

    def setup(bases):
        def _setup(I, fr):
            ctx = I.ctx
            D = ctx.fresh("D", "int")
            Tn = ctx.fresh("T", "int")
            ctx.assume(z3.And(D >= 0, Tn >= 1))
            sig = {b: {q: {nm: reg.sym_tensor(I, f"{nm}_{q}_{b.replace('-', '_')}", (D,)) for nm in NAMES}
                       for q in QIDS} for b in bases}
            samples = SymObj("SequenceSamples", None)
            samples.fields["max_duration"] = D
            samples.fields["to_nested_dict"] = lambda I2, **kw: {"Local": {b: {q: dict(sig[b][q]) for q in QIDS}
                                                                           for b in bases}}
            times = common.sym_seq(I, "target_times", sort="real")
            ctx.assume(to_z3(times.length) == Tn + 1)
            fr.locals.update(noisy_samples=samples, qubit_ids=QIDS, target_times=times)
        return _setup
    none = lambda I, n: None
    for bases in (("ground-rydberg", "digital"), ("ground-rydberg", "XY"), ("digital",), ()):
        reg.add_contract(Contract(
            f"{ADAPTER}:_extract_omega_delta_phi", property=prop,
            label="_extract_omega_delta_phi[bases=" + "+".join(bases) + "]",
            params={"noisy_samples": none, "qubit_ids": none, "target_times": none}, setup=setup(bases),
            # whatever the samples are (all-zero amplitudes included): an unsupported combination of
            # bases never yields drive data
            raises={"ValueError": None},
            raises_when={"ValueError": "True"},
            ensures=[],
        ), callsite=False)
