"""Contracts for emu_base/math/krylov_exp.py (C07) and krylov_energy_min.py (C08): the *flag* clauses.

Every numerical kernel is uninterpreted: vectors are abstract values (`AbsVec`), `op(x)`, sums of
scaled vectors, `tensordot`, `vdot`, `matrix_exp`, the tridiagonal eigen-solver return fresh values,
`x.norm()` is a fresh real >= 0 (one per vector value).  What is proved is the control logic around
them: which flag is reported on which path, the iteration counters, the index ranges of the `T`
matrix, which vectors are orthogonalised against, who gets which start vector, and that a result
is only handed out with the flags the property demands.  The accuracy statements (10*tol bound,
Rayleigh quotient, variational bound) are floating-point numerical analysis: not decided.

The only arithmetic fact used about vectors (A4): v / v.norm() has unit norm when v.norm() > 0.
"""
import ast

import z3

from pyvc import intrinsics as X, ops, tensor as T
from pyvc.paths import NeedFork
from pyvc.registry import Contract
from pyvc.values import Inf, ModRef, Opaque, SymObj, SymSeq, Unsupported, is_z3, to_z3

EXP = "emu_base.math.krylov_exp"
EMIN = "emu_base.math.krylov_energy_min"


# =====================================================================================================
# abstract values
# =====================================================================================================
class AbsVec(Opaque):
    """an uninterpreted vector (any shape).  `unit`: python bool / z3 Bool -- "has norm 1" (ghost)."""

    def __init__(self, I, base="vec", unit=False):
        super().__init__(I.ctx.fresh_name(base))
        self.unit = unit
        self._norm = None
        real = Opaque(self.name + ".real")
        real.attrs["dtype"] = ModRef("torch.float64")
        self.attrs.update(dtype=ModRef("torch.complex128"), device=Opaque("device"), real=real,
                          norm=self.m_norm, conj=self.m_fresh, reshape=self.m_fresh, to=self.m_same,
                          dim=lambda I2: 1, clone=self.m_fresh)

    def m_norm(self, I, *a, **k):
        if self._norm is None:
            n = I.ctx.fresh("norm", "real")
            I.ctx.assume(n >= 0)
            self._norm = n
        return self._norm

    def m_fresh(self, I, *a, **k):
        return AbsVec(I, "vec")

    def m_same(self, I, *a, **k):
        return self

    binop_first = True          # scalar-tensor * vector is a vector, not an element-wise tensor op

    def binop(self, I, op, other, reflected):
        r = AbsVec(I, "vec")
        if isinstance(other, T.LamTensor) and other.ndim == 0 and op is ast.Div and not reflected:
            other = other.fn()
        if op is ast.Div and not reflected and self._norm is not None and is_z3(other) \
                and z3.eq(other, self._norm):
            r.unit = self._norm > 0          # A4: normalising a vector of non-zero norm
        return r


class ExtReal:
    """extended real: +inf (is_inf) or the real `val` -- the residual of "no Ritz pair yet"."""

    def __init__(self, is_inf, val):
        self.is_inf, self.val = is_inf, val

    def compare_hook(self, op, a, b):
        def parts(x):
            if isinstance(x, ExtReal):
                return x.is_inf, x.val
            if isinstance(x, Inf):
                if x.sign < 0:
                    raise Unsupported("-inf in an extended-real comparison")
                return True, 0
            return False, x
        ai, av = parts(a)
        bi, bv = parts(b)
        lt = ops.b_and(ops.b_not(ai), ops.b_or(bi, ops.compare(ast.Lt, av, bv)))       # a < b
        eq = ops.b_or(ops.b_and(ai, bi), ops.b_and(ops.b_not(ai), ops.b_not(bi), ops.equal(av, bv)))
        gt = ops.b_and(ops.b_not(bi), ops.b_or(ai, ops.compare(ast.Gt, av, bv)))
        return {ast.Lt: lt, ast.LtE: ops.b_or(lt, eq), ast.Gt: gt, ast.GtE: ops.b_or(gt, eq),
                ast.Eq: eq, ast.NotEq: ops.b_not(eq)}[op]


class AbsMat:
    """a block of the T matrix handed to matrix_exp: only its shape is known"""

    def __init__(self, rows, cols):
        self.shape = (rows, cols)


class BoundedMat:
    """the (max_krylov_dim+2)^2 matrix T: values uninterpreted, every index is checked"""

    def __init__(self, I, rows, cols):
        self.shape = (rows, cols)
        self.n_access = 0

    def _idx(self, I, idx, what):
        ctx = I.ctx
        if ctx.speculative:
            raise NeedFork()
        if not isinstance(idx, tuple) or len(idx) != 2:
            raise Unsupported("T indexed with other than two indices")
        out = []
        for d, (i, size) in enumerate(zip(idx, self.shape)):
            self.n_access += 1
            nm = f"T-{what}-axis{d}-in-bounds"
            if isinstance(i, T.SliceV):
                if i.start is not None or i.step is not None:
                    raise Unsupported("T sliced with a start / step")
                stop = size if i.stop is None else i.stop
                # a slice beyond the allocation would silently be cut short by torch
                ctx.prove(nm, ops.b_and(ops.compare(ast.GtE, stop, 0), ops.compare(ast.LtE, stop, size)), "safety")
                out.append(("slice", stop))
            else:
                if isinstance(i, T.LamTensor) and i.ndim == 0:
                    i = i.fn()
                # non-negative indices only: a negative index would silently address from the end
                ctx.prove(nm, ops.b_and(ops.compare(ast.GtE, i, 0), ops.compare(ast.Lt, i, size)), "safety")
                out.append(("int", i))
        return out

    def setitem(self, I, idx, value):
        self._idx(I, idx, "write")

    def getitem(self, I, idx):
        plan = self._idx(I, idx, "read")
        if all(k == "slice" for k, _ in plan):
            return AbsMat(plan[0][1], plan[1][1])
        raise Unsupported("element read of T")


# =====================================================================================================
# models of the numerical kernels (registered per property registry)
# =====================================================================================================
def vec(I, name):
    return AbsVec(I, name)


def vec_any(I, name):
    return AbsVec(I, name, unit=I.ctx.fresh(name + ".unit", "bool"))


def vec_seq(I, name):
    """list of vectors of symbolic length (the Lanczos basis at an arbitrary iteration)"""
    n = I.ctx.fresh(name + ".len", "int")
    I.ctx.assume(n >= 0)
    memo = {}

    def fn(k):
        key = str(z3.simplify(to_z3(k))) if is_z3(k) else str(k)
        if key not in memo:
            memo[key] = AbsVec(I, f"{name}[{key}]")
        return memo[key]
    return SymSeq(n, fn)


def ext_real_tensor(I, name):
    e = ExtReal(I.ctx.fresh(name + ".is_inf", "bool"), I.ctx.fresh(name, "real"))
    return T.LamTensor((), lambda: e, "real")


def _has_abs(x):
    if isinstance(x, (AbsVec, SymSeq)):
        return True
    if isinstance(x, (list, tuple)):
        return any(_has_abs(y) for y in x)
    return False


def install_models(reg):
    ext = reg.external

    def zeros(I, *shape, dtype=None, device=None):
        shape = tuple(X._scalar(s) for s in shape)
        if len(shape) == 2 and not all(isinstance(s, int) for s in shape):
            return BoundedMat(I, shape[0], shape[1])
        return X.t_zeros(I, *shape, dtype=dtype, device=device)
    ext["torch.zeros"] = zeros

    def tensor(I, data, dtype=None, device=None):
        if isinstance(data, Inf):
            return T.LamTensor((), lambda: data, "real")
        return X.t_tensor(I, data, dtype=dtype, device=device)
    ext["torch.tensor"] = tensor

    def b_abs(I, x):
        if isinstance(x, T.LamTensor) and x.ndim == 0:
            return T.unary(ops.absval, x)          # stays a 0-d tensor: tensor arithmetic never raises
        return X.b_abs(I, x)
    ext["builtins.abs"] = b_abs

    def b_zip(I, *xs):
        if any(isinstance(x, SymSeq) or (isinstance(x, T.LamTensor) and not isinstance(x.shape[0], int))
               for x in xs):
            lens = [x.length if isinstance(x, SymSeq) else (x.shape[0] if isinstance(x, T.LamTensor) else len(x))
                    for x in xs]
            n = lens[0]
            for m in lens[1:]:
                n = ops.minimum(n, m)

            def item(k):
                return tuple(x.fn(k) if isinstance(x, SymSeq) else
                             (T.getitem(x, k) if isinstance(x, T.LamTensor) else x[k]) for x in xs)
            return SymSeq(n, item)
        return X.b_zip(I, *xs)
    ext["builtins.zip"] = b_zip

    def b_sum(I, items, start=0):
        if isinstance(items, SymSeq) or _has_abs(items):
            I.session.note("sum of scaled abstract vectors: uninterpreted vector")
            return AbsVec(I, "lincomb")
        return X.b_sum(I, items, start)
    ext["builtins.sum"] = b_sum

    def scalar_kernel(name):
        def f(I, *a, **k):
            if I.ctx.speculative:
                raise NeedFork()
            return I.ctx.fresh(name, "real")
        return f
    ext["torch.tensordot"] = scalar_kernel("overlap")
    ext["torch.vdot"] = scalar_kernel("vdot")

    def matrix_exp(I, m):
        if not isinstance(m, AbsMat):
            raise Unsupported("matrix_exp of something that is not a block of T")
        return reg.sym_tensor(I, I.ctx.fresh_name("expd"), m.shape)
    ext["torch.linalg.matrix_exp"] = matrix_exp

    def dc_replace(I, obj, **changes):
        new = SymObj(obj.cls, obj.module)
        new.fields.update(obj.fields)
        new.fields.update(changes)
        return new
    ext["dataclasses.replace"] = dc_replace

    G = reg.ghost_funcs
    G["is_unit"] = lambda I, v: v.unit if isinstance(v, AbsVec) else False
    G["norm_of"] = lambda I, v: v.m_norm(I)
    def code_local(I, name):
        """value of the code's local `name` at the return; a local that the returning path left to an
        earlier (havocked) iteration is an arbitrary value"""
        loc = reg.hooks["last_frame"].locals
        if name not in loc:
            memo = I.ctx.ghost.setdefault("unbound_locals", {})
            if name not in memo:
                memo[name] = I.ctx.fresh(name + "@earlier-iteration", "real")
            return memo[name]
        return loc[name]
    G["code_local"] = code_local


def op_model(I, name):
    def op(I2, x):
        if I2.ctx.speculative:
            raise NeedFork()
        return AbsVec(I2, "op(x)")
    return op


# =====================================================================================================
# C07
# =====================================================================================================
def register_exp(reg, prop="C07"):
    install_models(reg)
    reg.add_class("KrylovExpResult", module=EXP,
                  fields={"result": vec, "converged": "bool", "happy_breakdown": "bool", "iteration_count": "int"},
                  invariant=["not self.happy_breakdown or self.converged"])

    # ---- KrylovExpResult.__init__ -----------------------------------------------------------------
    reg.add_contract(Contract(
        f"{EXP}:KrylovExpResult.__init__", property=prop,
        params={"self": lambda I, n: SymObj("KrylovExpResult", EXP), "result": vec, "converged": "bool",
                "happy_breakdown": "bool", "iteration_count": "int"},
        raises={"AssertionError": "happy_breakdown and not converged"},
        raises_when={"AssertionError": "happy_breakdown and not converged"},
        ensures=["inv(self)", "self.converged == converged and self.happy_breakdown == happy_breakdown",
                 "self.iteration_count == iteration_count", "self.result is old(result)"],
        ensures_names=["happy-breakdown-implies-converged", "flags-stored", "iteration-count-stored",
                       "result-stored"],
    ), callsite=False)

    # ---- krylov_exp_impl ----------------------------------------------------------------------------
    def last_impl(I, fr):
        if fr.locals.get("result") is not None:
            I.ctx.ghost["krylov_impl_result"] = fr.locals["result"]

    impl_params = {"op": op_model, "v": vec, "is_hermitian": "bool", "exp_tolerance": "real",
                   "norm_tolerance": "real", "max_krylov_dim": "int"}
    reg.add_contract(Contract(
        f"{EXP}:krylov_exp_impl", property=prop,
        params=impl_params,
        # max_krylov_dim = 0 would leave `expd` unbound after the loop (UnboundLocalError); the
        # property's range is 1..100
        requires=["max_krylov_dim >= 1"],
        raises={}, raises_when={},
        returns="obj:KrylovExpResult",
        post_setup=last_impl,
        policies={f"{EXP}:KrylovExpResult.__init__": "inline"},
        loops={
            0: dict(invariant=["len(lanczos_vectors) == _k + 1"],
                    # `expd` is assigned in every iteration that continues; after >= 1 iterations it is bound
                    locals={"lanczos_vectors": vec_seq,
                            "expd": lambda I, n: reg.sym_tensor(I, I.ctx.fresh_name("expd"),
                                                                (I.ctx.fresh("m", "int"),) * 2)}),
            # orthogonalisation: against the last two vectors iff is_hermitian (three-term recurrence),
            # against all of them otherwise (Arnoldi); the count of the range says which
            1: dict(invariant=["_n == (min(j + 1, 2) if is_hermitian else j + 1)"],
                    locals={"w": vec, "overlap": "real"}),
        },
        ensures=[
            "implies(result.happy_breakdown, result.converged)",
            "implies(result.converged and result.happy_breakdown, code_local('n2') < norm_tolerance)",
            "implies(result.converged and not result.happy_breakdown, code_local('err') < exp_tolerance)",
            "implies(result.converged, result.iteration_count == code_local('j') + 1)",
            "implies(not result.converged, result.iteration_count == max_krylov_dim)",
            "implies(not result.converged, not result.happy_breakdown)",
            "1 <= result.iteration_count and result.iteration_count <= max_krylov_dim",
        ],
        ensures_names=["happy-breakdown-implies-converged", "converged-by-breakdown-has-norm-below-tolerance",
                       "converged-has-error-estimate-below-tolerance", "converged-iteration-count",
                       "not-converged-ran-all-iterations", "not-converged-is-not-breakdown",
                       "iteration-count-in-range"],
        # what callers see
        abs_requires=["max_krylov_dim >= 1"],
        abs_ensures=["implies(result.happy_breakdown, result.converged)",
                     "1 <= result.iteration_count and result.iteration_count <= max_krylov_dim",
                     "implies(not result.converged, result.iteration_count == max_krylov_dim)"],
    ))

    # ---- krylov_exp -----------------------------------------------------------------------------------
    reg.ghost_funcs["impl_result"] = lambda I: I.ctx.ghost["krylov_impl_result"]
    reg.add_contract(Contract(
        f"{EXP}:krylov_exp", property=prop,
        params={"op": op_model, "v": vec, "exp_tolerance": "real", "norm_tolerance": "real",
                "is_hermitian": "bool", "max_krylov_dim": "int"},
        requires=["max_krylov_dim >= 1"],
        # the only exception: the solver did not report convergence
        raises={"RecursionError": "not impl_result().converged"},
        raises_when={},
        ensures=["impl_result().converged", "result is impl_result().result"],
        ensures_names=["returns-only-if-converged", "returns-the-solver-result"],
    ))
    return [f"{EXP}:KrylovExpResult.__init__", f"{EXP}:krylov_exp_impl", f"{EXP}:krylov_exp"]


# =====================================================================================================
# C08
# =====================================================================================================
def register_emin(reg, prop="C08"):
    install_models(reg)
    reg.add_class("KrylovEnergyResult", module=EMIN,
                  fields={"ground_state": vec_any, "ground_energy": "tensor[real]()",
                          "residual_norm": ext_real_tensor, "converged": "bool", "happy_breakdown": "bool",
                          "iteration_count": "int", "restart_count": "int"})

    # ---- _ritz_vector -----------------------------------------------------------------------------------
    def coeffs(I, name):
        n = I.ctx.fresh("m", "int")
        I.ctx.assume(n >= 0)
        return reg.sym_tensor(I, I.ctx.fresh_name("y"), (n,))

    reg.add_contract(Contract(
        f"{EMIN}:_ritz_vector", property=prop,
        params={"coefficients": coeffs, "basis": vec_seq},
        raises={"ValueError": None},          # a combination of numerically zero norm is refused
        returns=lambda I, n, env: AbsVec(I, "ritz", unit=True),
        ensures=["is_unit(result)"],
        ensures_names=["ritz-vector-is-normalised"],
    ))

    # ---- _next_lanczos_iteration: frame only (writes alphas, betas; beta is a norm) ------------------------
    def real_vec(I, name):
        n = I.ctx.fresh(name + ".len", "int")
        I.ctx.assume(n >= 0)
        return reg.sym_tensor(I, I.ctx.fresh_name(name), (n,))

    reg.add_contract(Contract(
        f"{EMIN}:_next_lanczos_iteration", property=prop,
        params={"op": op_model, "lanczos_vectors": vec_seq, "alphas": real_vec, "betas": real_vec},
        requires=["len(lanczos_vectors) >= 1"],
        modifies=["alphas.*", "betas.*"],
        returns=vec,
        ensures=["betas[len(lanczos_vectors) - 1] >= 0"],
        ensures_names=["beta-is-a-norm"],
    ))

    def ritz_pair(I, alphas, betas):
        """_lowest_ritz_pair_tridiagonal (torch.linalg.eigh of the tridiagonal matrix): lowest
        eigenvalue and its eigenvector, one coefficient per Lanczos vector -- uninterpreted"""
        I.session.note("_lowest_ritz_pair_tridiagonal: uninterpreted (value, coefficient vector of length m)")
        return (reg.sym_tensor(I, I.ctx.fresh_name("ritz_value"), ()),
                reg.sym_tensor(I, I.ctx.fresh_name("y"), (alphas.shape[0],)))

    # ---- _lowest_eigenvector_krylov_method ---------------------------------------------------------------
    def g_start_ok(I, v):
        """restart clause: inside krylov_energy_minimization_impl the start vector of a Lanczos cycle is
        the ground_state of the result carried by the restart loop (ghost `expected_start`)"""
        exp = I.ctx.ghost.get("expected_start")
        return True if exp is None else (v is exp.fields["ground_state"])
    reg.ghost_funcs["start_is_previous_best"] = g_start_ok

    def g_carry(I, res):
        I.ctx.ghost["expected_start"] = res
        return True
    reg.ghost_funcs["carried"] = g_carry

    cyc_ens = [
        "implies(result.happy_breakdown, result.converged)",
        "implies(result.converged and not result.happy_breakdown, result.residual_norm < residual_tolerance)",
        "is_unit(result.ground_state)",
        "0 <= result.iteration_count and result.iteration_count <= max(max_krylov_dim, 0)",
        "implies(not result.converged, result.iteration_count == max(max_krylov_dim, 0))",
        "result.restart_count == 0",
    ]
    cyc_names = ["happy-breakdown-implies-converged", "converged-without-breakdown-meets-residual-tolerance",
                 "returned-vector-is-q0-or-a-ritz-vector-hence-unit", "iteration-count-in-range",
                 "not-converged-ran-all-iterations", "restart-count-zero"]
    reg.add_contract(Contract(
        f"{EMIN}:_lowest_eigenvector_krylov_method", property=prop,
        params={"op": op_model, "v_init": vec, "residual_tolerance": "real", "norm_tolerance": "real",
                "max_krylov_dim": "int"},
        requires=["norm_tolerance > 0", "start_is_previous_best(v_init)"],
        raises={"ValueError": None},
        raises_when={"ValueError": "norm_of(v_init) < norm_tolerance"},
        returns="obj:KrylovEnergyResult",
        policies={f"{EMIN}:_lowest_ritz_pair_tridiagonal": ritz_pair},
        loops={0: dict(
            invariant=["len(lanczos_vectors) == _k + 1", "n_iteration == _k",
                       "not converged and not happy_breakdown", "is_unit(best_state)"],
            modifies=["alphas.*", "betas.*"],
            locals={"lanczos_vectors": vec_seq, "best_state": vec_any, "best_resid": ext_real_tensor})},
        ensures=cyc_ens, ensures_names=cyc_names,
    ))

    # ---- krylov_energy_minimization_impl -------------------------------------------------------------------
    def last_impl(I, fr):
        if fr.locals.get("result") is not None:
            I.ctx.ghost["emin_impl_result"] = fr.locals["result"]

    impl_ens = [
        "implies(result.happy_breakdown, result.converged)",
        "implies(result.converged and not result.happy_breakdown, result.residual_norm < residual_tolerance)",
        "implies(max_restarts >= 0, is_unit(result.ground_state))",
        "implies(result.converged or result.happy_breakdown, result.restart_count <= max(max_restarts, 0))",
    ]
    impl_names = ["happy-breakdown-implies-converged", "converged-without-breakdown-meets-residual-tolerance",
                  "returned-vector-is-unit", "restart-count-in-range"]
    reg.add_contract(Contract(
        f"{EMIN}:krylov_energy_minimization_impl", property=prop,
        params={"op": op_model, "psi": vec, "residual_tolerance": "real", "norm_tolerance": "real",
                "max_krylov_dim": "int", "max_restarts": "int"},
        requires=["norm_tolerance > 0"],
        raises={"ValueError": None},
        returns="obj:KrylovEnergyResult",
        post_setup=last_impl,
        loops={0: dict(
            invariant=["not result.converged and not result.happy_breakdown",
                       "implies(_k >= 1, is_unit(result.ground_state))",
                       # ghost: the state carried into the next cycle is this result's ground_state
                       "carried(result)"],
            locals={"result": "obj:KrylovEnergyResult"})},
        ensures=impl_ens, ensures_names=impl_names,
    ))

    # ---- krylov_energy_minimization ---------------------------------------------------------------------------
    reg.ghost_funcs["impl_result"] = lambda I: I.ctx.ghost["emin_impl_result"]
    reg.add_contract(Contract(
        f"{EMIN}:krylov_energy_minimization", property=prop,
        params={"op": op_model, "psi": vec, "norm_tolerance": "real", "residual_tolerance": "real",
                "max_krylov_dim": "int"},
        requires=["norm_tolerance > 0"],
        raises={"RecursionError": "not impl_result().converged and not impl_result().happy_breakdown",
                "ValueError": None},
        ensures=["impl_result().converged or impl_result().happy_breakdown",
                 "implies(not impl_result().happy_breakdown, impl_result().residual_norm < residual_tolerance)",
                 "result[0] is impl_result().ground_state", "is_unit(result[0])"],
        ensures_names=["returns-only-if-converged-or-breakdown", "converged-without-breakdown-meets-residual-tolerance",
                       "returns-the-solver-state", "returned-vector-is-unit"],
    ))
    return [f"{EMIN}:_ritz_vector", f"{EMIN}:_next_lanczos_iteration",
            f"{EMIN}:_lowest_eigenvector_krylov_method", f"{EMIN}:krylov_energy_minimization_impl",
            f"{EMIN}:krylov_energy_minimization"]
