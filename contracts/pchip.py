"""Contracts for emu_base/math/pchip_torch.py (C20; used by C22 and C30).

The oracle `spec_d` is the textbook PCHIP derivative (Fritsch-Carlson weighted harmonic mean in
the interior, three-point end slopes with the `pchipend` limiter written with sign()), as in
C. Moler, Numerical Computing with MATLAB, and SciPy's PchipInterpolator."""
import ast

import z3

from pyvc import ops, tensor as T
from pyvc.registry import Contract
from pyvc.values import ForallV, SymObj, to_z3

MOD = "emu_base.math.pchip_torch"


def R(v):
    if isinstance(v, T.LamTensor) and v.ndim == 0:
        v = v.fn()
    v = to_z3(v)
    return z3.ToReal(v) if z3.is_int(v) else v


def sgn(v):
    v = R(v)
    return z3.If(v > 0, 1, z3.If(v < 0, -1, 0))


def zabs(v):
    v = R(v)
    return z3.If(v >= 0, v, -v)


def spec_end(h0, h1, d0, d1):
    """pchipend: one-sided three-point estimate, then the shape-preserving limiter"""
    h0, h1, d0, d1 = R(h0), R(h1), R(d0), R(d1)
    d = ((2 * h0 + h1) * d0 - h0 * d1) / (h0 + h1)
    return z3.If(sgn(d) != sgn(d0), z3.RealVal(0),
                 z3.If(z3.And(sgn(d0) != sgn(d1), zabs(d) > 3 * zabs(d0)), 3 * d0, d))


def spec_interior(hl, hr, dl, dr):
    hl, hr, dl, dr = R(hl), R(hr), R(dl), R(dr)
    w1 = 2 * hr + hl
    w2 = hr + 2 * hl
    return z3.If(dl * dr > 0, (w1 + w2) / (w1 / dl + w2 / dr), z3.RealVal(0))


def spec_d(I, h, delta, i):
    """standard PCHIP knot derivative d[i]; h, delta have m = n-1 entries"""
    m = h.shape[0]
    i = to_z3(i)
    mz = to_z3(m)
    H = lambda k: h.fn(k)
    D = lambda k: delta.fn(k)
    two = D(0)
    e0 = spec_end(H(0), H(1), D(0), D(1))
    en = spec_end(H(mz - 1), H(mz - 2), D(mz - 1), D(mz - 2))
    mid = spec_interior(H(i - 1), H(i), D(i - 1), D(i))
    return z3.If(mz == 1, R(two), z3.If(i == 0, e0, z3.If(i == mz, en, mid)))


def fc(d, delta):
    """Fritsch-Carlson sufficient condition for monotonicity of the Hermite cubic"""
    d, delta = R(d), R(delta)
    return z3.And(d * delta >= 0, zabs(d) <= 3 * zabs(delta))


def stmt_spec_fc(hl, hr, dl, dr):
    """statement of lemma spec_d_is_fc (hypotheses => conclusions) for given reals"""
    hl, hr, dl, dr = R(hl), R(hr), R(dl), R(dr)
    d = spec_interior(hl, hr, dl, dr)
    e = spec_end(hl, hr, dl, dr)
    return z3.And(hl > 0, hr > 0), [("interior-fc-left", fc(d, dl)), ("interior-fc-right", fc(d, dr)),
                                     ("end-fc", fc(e, dl))]


def stmt_hermite(h, y0, y1, d0, d1, t):
    """statement of lemma hermite_shape for given reals"""
    h, y0, y1, d0, d1, t = [R(v) for v in (h, y0, y1, d0, d1, t)]
    delta = (y1 - y0) / h
    p2 = (3 * delta - 2 * d0 - d1) / h
    p3 = (d0 + d1 - 2 * delta) / (h * h)
    P = lambda s: y0 + s * (d0 + s * (p2 + s * p3))
    dP = lambda s: d0 + 2 * p2 * s + 3 * p3 * s * s
    lo = z3.If(y0 <= y1, y0, y1)
    hi = z3.If(y0 <= y1, y1, y0)
    hyp0 = z3.And(h > 0, t >= 0, t <= h)
    hyp1 = z3.And(fc(d0, delta), fc(d1, delta))
    return hyp0, [("knot-left", P(0) == y0), ("knot-right", P(h) == y1), ("slope-left", dP(0) == d0),
                  ("slope-right", dP(h) == d1)], hyp1, [("monotone", dP(t) * delta >= 0),
                                                          ("bounded-below", P(t) >= lo),
                                                          ("bounded-above", P(t) <= hi)]


def use_spec_fc(hl, hr, dl, dr):
    """an instance of the (separately proved) lemma spec_d_is_fc, as a hypothesis"""
    hyp, concl = stmt_spec_fc(hl, hr, dl, dr)
    return z3.Implies(hyp, z3.And(*[c for _, c in concl]))


def use_hermite(h, y0, y1, d0, d1, t):
    """an instance of the (separately proved) lemma hermite_shape, as a hypothesis"""
    h0, c0, h1, c1 = stmt_hermite(h, y0, y1, d0, d1, t)
    return z3.And(z3.Implies(h0, z3.And(*[c for _, c in c0])),
                  z3.Implies(z3.And(h0, h1), z3.And(*[c for _, c in c1])))


def searchsorted(I, seq, values, right=False, **kw):
    """A4: torch.searchsorted on a sorted 1-d sequence: s = number of entries <= v (right=True)
    or < v (right=False); the defining inequalities are assumed at every element read."""
    ctx = I.ctx
    n = seq.shape[0]
    f = z3.Function(ctx.fresh_name("searchsorted"), *([z3.IntSort()] * max(values.ndim, 1)), z3.IntSort())

    def fn(*j):
        s = f(*[to_z3(k) for k in j]) if values.ndim else f(z3.IntVal(0))
        v = R(values.fn(*j))
        nz = to_z3(n)
        I.saw_index(s)
        I.saw_index(s - 1)
        lo = R(seq.fn(s - 1))
        hi = R(seq.fn(s))
        if right is True:
            facts = z3.And(s >= 0, s <= nz, z3.Implies(s > 0, lo <= v), z3.Implies(s < nz, v < hi))
        else:
            facts = z3.And(s >= 0, s <= nz, z3.Implies(s > 0, lo < v), z3.Implies(s < nz, v <= hi))
        I.ctx.assume(facts)
        return s
    I.session.note("torch.searchsorted: assumed contract (insertion index of a sorted sequence)")
    return T.LamTensor(values.shape, fn, "int")


def tensor_all(I, x):
    """torch.all over a symbolic-length boolean tensor: b with (b -> every element) and a
    Skolem witness for (not b)."""
    ctx = I.ctx
    if x.ndim != 1:
        raise ValueError
    n = x.shape[0]
    b = ctx.fresh("all", "bool")
    w = ctx.fresh("w", "int")
    I.saw_index(w)
    ctx.assume(z3.Implies(z3.Not(b), z3.And(w >= 0, w < to_z3(n), z3.Not(to_z3(x.fn(w))))))
    I.add_forall(ForallV(lambda k: ops.b_implies(b, x.fn(k)), 0, n, "k"))
    return b


def horner(c0, c1, c2, c3, t):
    c0, c1, c2, c3, t = R(c0), R(c1), R(c2), R(c3), R(t)
    return c0 + t * (c1 + t * (c2 + t * c3))


def _sym_len(I, name, lo):
    n = I.ctx.fresh(name, "int")
    I.ctx.assume(n >= lo)
    return n


def register(reg, prop="C20"):
    reg.external["torch.searchsorted"] = searchsorted
    reg.tensor_all = lambda I, x: tensor_all(I, x)
    reg.ghost_funcs["spec_d"] = spec_d
    reg.ghost_funcs["FC"] = lambda I, d, delta: fc(d, delta)
    reg.ghost_funcs["horner"] = lambda I, *a: horner(*a)
    reg.ghost_funcs["R"] = lambda I, v: R(v)

    def nonincreasing(I, x):
        """ghost: exists k with x[k+1] <= x[k]  (a Boolean with a Skolem witness for one direction
        and a lazily instantiated universal for the other)"""
        ctx = I.ctx
        memo = ctx.ghost.setdefault("nonincreasing", {})
        if x.tid in memo:
            return memo[x.tid]
        n = x.shape[0]
        b = ctx.fresh("nonincreasing", "bool")
        w = ctx.fresh("w", "int")
        ctx.assume(z3.Implies(b, z3.And(w >= 0, w < to_z3(n) - 1, R(x.fn(w + 1)) <= R(x.fn(w)))))
        I.add_forall(ForallV(lambda k: z3.Implies(R(x.fn(ops.add(k, 1))) <= R(x.fn(k)), b), 0, ops.sub(n, 1), "k"))
        memo[x.tid] = b
        return b
    reg.ghost_funcs["nonincreasing"] = nonincreasing
    for f in ("_weighted_harmonic_mean", "_endpoint_slope", "_limit_endpoint"):
        reg.policies[f"{MOD}:{f}"] = "inline"

    # ---- _pchip_derivatives -----------------------------------------------------------
    def hd(I, name):
        return None

    def setup_hd(I, fr):
        m = _sym_len(I, "m", 1)
        fr.locals["h"] = reg.sym_tensor(I, "h", (m,))
        fr.locals["delta"] = reg.sym_tensor(I, "delta", (m,))

    reg.add_contract(Contract(
        f"{MOD}:_pchip_derivatives", property=prop,
        params={"h": hd, "delta": hd}, setup=setup_hd,
        requires=["forall(lambda k: h[k] > 0, 0, len(h))"],
        raises={},
        returns=lambda I, n, env: reg.sym_tensor(I, I.ctx.fresh_name("d"), (ops.add(env["h"].shape[0], 1),)),
        ensures=[
            "len(result) == len(h) + 1",
            # every knot derivative is the standard PCHIP one
            "forall(lambda i: result[i] == spec_d(h, delta, i), 0, len(h) + 1)",
        ],
    ))

    # ---- _polynomial_coeffs -------------------------------------------------------------
    def setup_pc(I, fr):
        m = _sym_len(I, "m", 1)
        fr.locals["y"] = reg.sym_tensor(I, "y", (m + 1,))
        fr.locals["h"] = reg.sym_tensor(I, "h", (m,))
        fr.locals["delta"] = reg.sym_tensor(I, "delta", (m,))
        fr.locals["d"] = reg.sym_tensor(I, "d", (m + 1,))

    reg.add_contract(Contract(
        f"{MOD}:_polynomial_coeffs", property=prop,
        params={"y": hd, "h": hd, "delta": hd, "d": hd}, setup=setup_pc,
        requires=["forall(lambda k: h[k] > 0, 0, len(h))"],
        returns=lambda I, n, env: reg.sym_tensor(I, I.ctx.fresh_name("coeffs"), (env["h"].shape[0], 4)),
        ensures=[
            "result.shape[0] == len(h) and result.shape[1] == 4",
            "forall(lambda i: result[i, 0] == y[i] and result[i, 1] == d[i], 0, len(h))",
            "forall(lambda i: result[i, 2] == (3 * delta[i] - 2 * d[i] - d[i + 1]) / h[i], 0, len(h))",
            "forall(lambda i: result[i, 3] == (d[i] + d[i + 1] - 2 * delta[i]) / (h[i] * h[i]), 0, len(h))",
        ],
    ))

    # ---- PCHIP1D.__init__ ------------------------------------------------------------------
    reg.add_class("PCHIP1D", module=MOD, fields={})

    def secants(x, y):
        n = x.shape[0]
        hh = T.LamTensor((ops.sub(n, 1),), lambda k: R(x.fn(ops.add(k, 1))) - R(x.fn(k)))
        dd = T.LamTensor((ops.sub(n, 1),), lambda k: (R(y.fn(ops.add(k, 1))) - R(y.fn(k)))
                         / (R(x.fn(ops.add(k, 1))) - R(x.fn(k))))
        return hh, dd

    def setup_init(I, fr):
        n = _sym_len(I, "n", 0)
        fr.locals["self"] = SymObj("PCHIP1D", MOD)
        fr.locals["x"] = reg.sym_tensor(I, "x", (n,))
        fr.locals["y"] = reg.sym_tensor(I, "y", (n,))

    def ghost_init(I, fr):
        """ghost: interval widths / secants of the data and the derivative vector `dg`"""
        x, y = fr.locals["x"], fr.locals["y"]
        hh, dd = secants(x, y)
        fr.locals["H"], fr.locals["DELTA"] = hh, dd
        s = fr.locals["self"]
        n = x.shape[0]
        if "_coeffs" not in s.fields:
            # call site / derived context: the constructed object's fields are fresh values
            # constrained only by the ensures clauses
            s.fields["_coeffs"] = reg.sym_tensor(I, I.ctx.fresh_name("coeffs"), (ops.sub(n, 1), 4))
            # element-wise equal to the arguments (ensures below): tensors are values here, so the
            # fields are the argument tensors themselves (PCHIP1D never writes to them)
            s.fields["x"] = x
            s.fields["y"] = y
        s.fields["dg"] = T.LamTensor((n,), lambda i: spec_d(I, hh, dd, i))
        if "result" not in fr.locals:
            return              # pre-state call (ghost names for the requires only)
        # abstract predicate valid(self): "self is a PCHIP1D built by __init__", i.e. everything
        # __init__ ensures (Hermite representation of (x, y, standard derivatives), sorted knots).
        # PCHIP1D has no method that writes to self after construction (checked syntactically by
        # the property's frame scan), so valid(self) is stable and implies __call__'s requires.
        s.fields["valid"] = True
        if "result" in fr.locals:
            I.ctx.ghost.setdefault("pchip_objs", []).append((s, x, y))
        if not (fr.locals.get("__derived__") or fr.locals.get("__frame__")):
            return              # call site: callers see the abstract face only
        # instances of lemma spec_d_is_fc (proved separately for all reals): at every index read
        # (interior pair i-1,i) and at both ends
        m = hh.shape[0]
        I.add_forall(ForallV(lambda i: use_spec_fc(hh.fn(ops.sub(i, 1)), hh.fn(i), dd.fn(ops.sub(i, 1)), dd.fn(i)),
                             1, m, "i"))
        I.session.note("lemma instances used: spec_d_is_fc (proved in this run)")
        I.ctx.assume(z3.Implies(to_z3(m) >= 2, z3.And(
            use_spec_fc(hh.fn(0), hh.fn(1), dd.fn(0), dd.fn(1)),
            use_spec_fc(hh.fn(ops.sub(m, 1)), hh.fn(ops.sub(m, 2)), dd.fn(ops.sub(m, 1)), dd.fn(ops.sub(m, 2))))))

    reg.add_contract(Contract(
        f"{MOD}:PCHIP1D.__init__", property=prop,
        params={"self": hd, "x": hd, "y": hd}, setup=setup_init, post_setup=ghost_init,
        policies={f"{MOD}:PCHIP1D._validate_xy": "inline"},
        modifies=[],
        raises={"ValueError": "len(x) < 2 or len(x) != len(y) or nonincreasing(x)"},
        # what callers see (opaque): a valid interpolant of exactly these data
        abs_ensures=["len(x) >= 2", "self.valid", "len(self.x) == len(x) and len(self.y) == len(x)",
                     "forall(lambda k: x[k + 1] > x[k], 0, len(x) - 1)"],
        ensures=[
            # construction succeeds only on >= 2 strictly increasing knots
            "len(x) >= 2",
            "forall(lambda k: x[k + 1] > x[k], 0, len(x) - 1)",
            "self._coeffs.shape[0] == len(x) - 1 and self._coeffs.shape[1] == 4",
            # Hermite data of interval i: value y[i], slope = standard PCHIP derivative
            "forall(lambda i: self._coeffs[i, 0] == y[i] and self._coeffs[i, 1] == spec_d(H, DELTA, i),"
            " 0, len(x) - 1)",
            "forall(lambda i: self._coeffs[i, 2] == (3 * DELTA[i] - 2 * spec_d(H, DELTA, i)"
            " - spec_d(H, DELTA, i + 1)) / H[i], 0, len(x) - 1)",
            "forall(lambda i: self._coeffs[i, 3] == (spec_d(H, DELTA, i) + spec_d(H, DELTA, i + 1)"
            " - 2 * DELTA[i]) / (H[i] * H[i]), 0, len(x) - 1)",
            "len(self.x) == len(x) and len(self.y) == len(x)",
            "forall(lambda k: self.x[k] == x[k] and self.y[k] == y[k], 0, len(x))",
        ],
        derived=[
            # the derivatives satisfy the Fritsch-Carlson condition on both adjacent intervals
            # (a fact about the specification function: lemma spec_d_is_fc at the right indices)
            "forall(lambda i: FC(spec_d(H, DELTA, i), DELTA[i]) and FC(spec_d(H, DELTA, i + 1), DELTA[i]),"
            " 0, len(x) - 1)",
        ],
    ))

    # ---- PCHIP1D.__call__ --------------------------------------------------------------------
    def setup_call(I, fr):
        n = _sym_len(I, "n", 2)
        q = _sym_len(I, "q", 0)
        s = SymObj("PCHIP1D", MOD)
        s.fields["x"] = reg.sym_tensor(I, "x", (n,))
        s.fields["y"] = reg.sym_tensor(I, "y", (n,))
        s.fields["_coeffs"] = reg.sym_tensor(I, "coeffs", (n - 1, 4))
        s.fields["dg"] = reg.sym_tensor(I, "dg", (n,))          # ghost: knot derivatives
        fr.locals["self"] = s
        fr.locals["xq"] = reg.sym_tensor(I, "xq", (q,))

    def ghost_call(I, fr):
        s = fr.locals["self"]
        hh, dd = secants(s.fields["x"], s.fields["y"])
        fr.locals["H"], fr.locals["DELTA"] = hh, dd
        code = fr.locals.get("__frame__")
        if code is not None and "i" in code.locals:
            # verifying the body: the interval index is the code's own local `i`
            fr.locals["idx"] = lambda I2, j: to_z3(code.locals["i"].fn(j))
        elif "idx" not in fr.locals:
            # call site / derived context: the interval index is some function of the query position
            f = z3.Function(I.ctx.fresh_name("interval"), z3.IntSort(), z3.IntSort())

            def idx(I2, j):
                v = f(to_z3(j))
                I2.saw_read(f.name(), (j,))
                return v
            fr.locals["idx"] = idx
        if fr.locals.get("result") is not None:
            I.ctx.ghost.setdefault("pchip_calls", []).append((s, fr.locals["xq"], fr.locals["result"]))
        if fr.locals.get("result") is not None and fr.locals.get("__derived__"):
            # instances of lemma hermite_shape (proved separately for all reals) for the interval
            # of each query point -- used by the derived clauses, not by the code proof
            xq, xs, ys, dg = fr.locals["xq"], s.fields["x"], s.fields["y"], s.fields["dg"]
            idxf = fr.locals["idx"]

            def inst(j):
                k = idxf(I, j)
                return use_hermite(hh.fn(k), ys.fn(k), ys.fn(k + 1), dg.fn(k), dg.fn(k + 1),
                                   R(xq.fn(j)) - R(xs.fn(k)))
            I.add_forall(ForallV(inst, 0, xq.shape[0], "j"))
            I.session.note("lemma instances used: hermite_shape (proved in this run)")

    def setup_call2(I, fr):
        setup_call(I, fr)
        ghost_call(I, fr)

    reg.add_contract(Contract(
        f"{MOD}:PCHIP1D.__call__", property=prop,
        params={"self": hd, "xq": hd}, setup=setup_call2, post_setup=ghost_call,
        policies={f"{MOD}:PCHIP1D._interval_index": "inline"},
        requires=[
            "len(self.x) >= 2 and len(self.y) == len(self.x) and len(self.dg) == len(self.x)",
            "self._coeffs.shape[0] == len(self.x) - 1 and self._coeffs.shape[1] == 4",
            # strictly increasing knots ...
            "forall(lambda k: self.x[k] < self.x[k + 1], 0, len(self.x) - 1)",
            # ... hence first/last knot are the extremes (consequence of the line above by induction
            # on k: base and step are the lemma `sorted_transitive`; stated so that callers
            # establish it and the proof here stays free of nested quantifiers)
            "forall(lambda k: self.x[0] <= self.x[k] and self.x[k] <= self.x[len(self.x) - 1], 0, len(self.x))",
            # representation invariant: the coefficients are the Hermite cubics of (x, y, dg) ...
            "forall(lambda i: self._coeffs[i, 0] == self.y[i] and self._coeffs[i, 1] == self.dg[i]"
            " and self._coeffs[i, 2] == (3 * DELTA[i] - 2 * self.dg[i] - self.dg[i + 1]) / H[i]"
            " and self._coeffs[i, 3] == (self.dg[i] + self.dg[i + 1] - 2 * DELTA[i]) / (H[i] * H[i]),"
            " 0, len(self.x) - 1)",
            # ... whose derivatives satisfy the Fritsch-Carlson condition
            "forall(lambda i: FC(self.dg[i], DELTA[i]) and FC(self.dg[i + 1], DELTA[i]), 0, len(self.x) - 1)",
        ],
        returns=lambda I, n, env: reg.sym_tensor(I, I.ctx.fresh_name("pchip_out"), (env["xq"].shape[0],)),
        ensures=[
            "len(result) == len(xq)",
            # the interval used for each query point ...
            "forall(lambda j: 0 <= idx(j) and idx(j) <= len(self.x) - 2, 0, len(xq))",
            # ... brackets it inside the data range,
            "forall(lambda j: implies(self.x[0] <= xq[j] and xq[j] < self.x[len(self.x) - 1],"
            " self.x[idx(j)] <= xq[j] and xq[j] <= self.x[idx(j) + 1]), 0, len(xq))",
            # ... and is the first / last interval outside it (extrapolation by the end cubics)
            "forall(lambda j: implies(xq[j] < self.x[0], idx(j) == 0), 0, len(xq))",
            "forall(lambda j: implies(xq[j] >= self.x[len(self.x) - 1], idx(j) == len(self.x) - 2), 0, len(xq))",
            # the value is that interval's cubic in the local coordinate
            "forall(lambda j: result[j] == horner(self._coeffs[idx(j), 0], self._coeffs[idx(j), 1],"
            " self._coeffs[idx(j), 2], self._coeffs[idx(j), 3], xq[j] - self.x[idx(j)]), 0, len(xq))",
        ],
        derived=[
            # shape preservation: inside the data range the value lies between the two knot values
            "forall(lambda j: implies(self.x[0] <= xq[j] and xq[j] <= self.x[len(self.x) - 1],"
            " min(self.y[idx(j)], self.y[idx(j) + 1]) <= result[j]"
            " and result[j] <= max(self.y[idx(j)], self.y[idx(j) + 1])), 0, len(xq))",
            # knots are reproduced
            "forall(lambda j: implies(xq[j] == self.x[idx(j)], result[j] == self.y[idx(j)]), 0, len(xq))",
        ],
    ))
    # what callers see (opaque): the object must be a valid interpolant (established only by
    # __init__, stable because PCHIP1D is never written after construction; valid(self) implies the
    # requires above -- the knot-extremes clause via the induction lemma `sorted_transitive`);
    # they learn the interval facts and the shape-preservation clauses, not the coefficients.
    cc = reg.contracts[f"{MOD}:PCHIP1D.__call__"]
    cc.abs_requires = ["self.valid"]
    cc.abs_ensures = cc.ensures[:5] + cc.derived


def register_c30(reg, prop="C30"):
    """C30 (one clause): every denominator evaluated while building the interpolant is non-zero,
    for strictly increasing knots and arbitrary finite values -- torch.where differentiates both
    branches, so a zero denominator in a masked branch gives NaN gradients."""
    register(reg, prop)

    def setup_hd(I, fr):
        m = _sym_len(I, "m", 1)
        fr.locals["h"] = reg.sym_tensor(I, "h", (m,))
        fr.locals["delta"] = reg.sym_tensor(I, "delta", (m,))
    none = lambda I, n: None
    reg.add_contract(Contract(
        f"{MOD}:_pchip_derivatives", property=prop, label="_pchip_derivatives[finite]",
        params={"h": none, "delta": none}, setup=setup_hd,
        requires=["forall(lambda k: h[k] > 0, 0, len(h))"],
        ensures=["len(result) == len(h) + 1"],
        denominators=["result"],
    ), callsite=False)

    def setup_pc(I, fr):
        m = _sym_len(I, "m", 1)
        fr.locals["y"] = reg.sym_tensor(I, "y", (m + 1,))
        fr.locals["h"] = reg.sym_tensor(I, "h", (m,))
        fr.locals["delta"] = reg.sym_tensor(I, "delta", (m,))
        fr.locals["d"] = reg.sym_tensor(I, "d", (m + 1,))
    reg.add_contract(Contract(
        f"{MOD}:_polynomial_coeffs", property=prop, label="_polynomial_coeffs[finite]",
        params={"y": none, "h": none, "delta": none, "d": none}, setup=setup_pc,
        requires=["forall(lambda k: h[k] > 0, 0, len(h))"],
        ensures=["result.shape[1] == 4"],
        denominators=["result"],
    ), callsite=False)

    def setup_init(I, fr):
        n = _sym_len(I, "n", 0)
        fr.locals["self"] = SymObj("PCHIP1D", MOD)
        fr.locals["x"] = reg.sym_tensor(I, "x", (n,))
        fr.locals["y"] = reg.sym_tensor(I, "y", (n,))
    reg.add_contract(Contract(
        f"{MOD}:PCHIP1D.__init__", property=prop, label="PCHIP1D.__init__[finite]",
        params={"self": none, "x": none, "y": none}, setup=setup_init,
        policies={f"{MOD}:PCHIP1D._validate_xy": "inline", f"{MOD}:_pchip_derivatives": "inline",
                  f"{MOD}:_polynomial_coeffs": "inline"},
        raises={"ValueError": None, "TypeError": None},
        ensures=["len(x) >= 2"],
        denominators=["self._coeffs"],
    ), callsite=False)


# ---- lemmas (pure real arithmetic) ------------------------------------------------------------
def lemma_hermite_shape(I, ctx):
    """Under the Fritsch-Carlson condition the Hermite cubic on [0,h] reproduces the data, is C1 at
    the knots, monotone, and stays between the end values."""
    h, y0, y1, d0, d1, t = [ctx.fresh(n, "real") for n in ("h", "y0", "y1", "d0", "d1", "t")]
    hyp0, concl0, hyp1, concl1 = stmt_hermite(h, y0, y1, d0, d1, t)
    ctx.assume(hyp0)
    for name, c in concl0:
        ctx.prove(name, c, "lemma")
    ctx.assume(hyp1)
    for name, c in concl1:
        ctx.prove(name, c, "lemma")


def lemma_spec_d_is_fc(I, ctx):
    """The standard derivative satisfies the Fritsch-Carlson condition w.r.t. both neighbouring
    secants (interior) and w.r.t. its own secant (ends)."""
    hl, hr, dl, dr = [ctx.fresh(n, "real") for n in ("hl", "hr", "dl", "dr")]
    hyp, concl = stmt_spec_fc(hl, hr, dl, dr)
    ctx.assume(hyp)
    for name, c in concl:
        ctx.prove(name, c, "lemma")


def lemma_vacuity(I, ctx):
    """the FC hypothesis is satisfiable with a non-trivial slope (guards against a vacuous lemma)"""
    d, delta = ctx.fresh("d", "real"), ctx.fresh("delta", "real")
    ctx.assume(z3.And(fc(d, delta), d != 0))
    ctx.prove("fc-hypothesis-satisfiable", ctx._check() == z3.sat, "vacuity")


def lemma_sorted_transitive(I, ctx):
    """adjacent strict order => x[a] < x[b] for all a < b: base case and induction step of the
    induction on b (the induction principle itself is the only meta-step taken on trust)."""
    x = z3.Function("xs", z3.IntSort(), z3.RealSort())
    a, b = ctx.fresh("a", "int"), ctx.fresh("b", "int")
    adj = lambda k: x(k) < x(k + 1)
    ctx.assume(z3.And(a >= 0, b > a))
    ctx.assume(adj(a))
    ctx.prove("base(b = a+1)", z3.Implies(b == a + 1, x(a) < x(b)), "lemma")
    ctx.assume(z3.And(x(a) < x(b), adj(b)))
    ctx.prove("step(b -> b+1)", x(a) < x(b + 1), "lemma")


LEMMAS = [("hermite_shape", lemma_hermite_shape), ("spec_d_is_fc", lemma_spec_d_is_fc),
          ("fc_vacuity", lemma_vacuity), ("sorted_transitive", lemma_sorted_transitive)]
