"""C30, structural part: BOUNDED symbolic obligations (Engine B) for the hand-written derivative operators
of the emu-sv backward pass.

`EvolveStateVector.backward` (emu_sv/time_evolution.py) computes the parameter gradients with hand-written
operators DHDOmegaSparse / DHDDeltaSparse / DHDPhiSparse / DHDUSparse instead of differentiating the
Hamiltonian.  A gradient can only equal the finite difference of the emulated results if each operator is
the partial derivative of the Hamiltonian of the forward pass.  That ingredient is polynomial and is decided
here, per case, as an exact identity:

    the real, unmodified class applied to a batch of arbitrary symbolic complex vectors
        ==  d/dp [dense Kronecker-product Hamiltonian]  (exact polynomial derivative; d cos = -sin, d sin = cos)
            times the same vectors

for every site / pair, every pattern of literally-zero phases, N up to the bound; plus the way `backward`
combines the operators (Krylov routine replaced by arbitrary symbols).  Cases, specification and comparison:
/verif/symtorch/harness/symharness/c30.py.  One case = one obligation (kind "bounded-symbolic", backend
"symtorch").  These obligations are NOT proofs: bounded in N, exact arithmetic.

Outcome of a case -> obligation status
    ok           discharged
    mismatch     failed; every failing case is replayed natively (real torch, numeric assignment at which the
                 two polynomials differ) in one batch process; the result is recorded in the obligation
                 (`native_replay`) and the runner writes the per-obligation replay file
    raised       the code raised under the shim: failed if it also raises / mismatches natively, else unknown
    unsupported  a value-dependent decision on a symbolic entry the shim cannot follow: bounded native panel
                 search (replay/engineb_probe.py); failed only if the real code natively disagrees with the
                 specification at some assignment of the panel, else unknown (exit 2)
"""
from __future__ import annotations

import ast
import hashlib
import json
import os
import re
import subprocess
import sys
import tempfile
import time

VERIF = os.path.dirname(os.path.dirname(os.path.abspath(__file__)))
REL = "emu_sv/time_evolution.py"
REPLAY = os.path.join(VERIF, "replay", "c30.py")
MAX_PROBES = 6
MIN_CASES = dict(quick=600, thorough=1500)

TARGETS = {  # case kind -> (class / function in emu_sv/time_evolution.py, label)
    "dh_omega": ("DHDOmegaSparse", "DHDOmegaSparse[symbolic]"),
    "dh_delta": ("DHDDeltaSparse", "DHDDeltaSparse[symbolic]"),
    "dh_phi": ("DHDPhiSparse", "DHDPhiSparse[symbolic]"),
    "dh_u": ("DHDUSparse", "DHDUSparse[symbolic]"),
    "backward": ("EvolveStateVector", "EvolveStateVector.backward[symbolic, Krylov data arbitrary]"),
    "spec": (None, "specification cross-check[symbolic]"),
}

BOUNDS = ("N = 1..4 atoms (thorough: N = 5 as well, and N = 6 with 14 phase patterns), every site k / pair (i,j), "
          "every pattern of phases that are the literal 0.0 vs. a non-zero angle symbol, batches of 1-3 arbitrary "
          "complex vectors, drive tensors float64 (and complex128 for N <= 3), Omega_k literally 0 for the phase "
          "derivative; backward: N = 1..3 (thorough: 4), every phase pattern, Krylov dimensions (1,1) (2,2) (2,3) "
          "(2,1), all gradients requested / each alone / none")

BOUNDED = [
    "C30/DHDOmegaSparse[..]/equals-d-denseH-domega, C30/DHDDeltaSparse[..]/equals-d-denseH-ddelta, "
    "C30/DHDPhiSparse[..]/equals-d-denseH-dphi, C30/DHDUSparse[..]/equals-d-denseH-dU (kind bounded-symbolic, backend "
    "symtorch): BOUNDED, not proofs. The unmodified classes of emu_sv/time_evolution.py are run on tensors whose "
    "entries are exact polynomials and compared, as exact polynomial identities, with the polynomial partial "
    "derivative of the dense Kronecker-product Hamiltonian (the specification C06 uses for the forward operator) "
    "applied to the same symbolic vectors. At every explored size the identity holds for ALL real Omega, delta, U, "
    "all non-zero phases and the literal phase 0.0, and all complex vectors. Bounds: " + BOUNDS + ".",
    "C30/EvolveStateVector.backward[..]/gradient-formula-uses-d-denseH (bounded-symbolic): the real backward() is run "
    "with emu_base.math.double_krylov replaced by a stub returning ARBITRARY symbolic Krylov bases Vs, Vg and coupling "
    "matrix dS; every entry of grad_omegas / grad_deltas / grad_phis / grad_interaction equals "
    "Re Tr(-i dt dH/dp Vs^T dS conj(Vg)) with dH/dp the differentiated dense Hamiltonian at the right site / pair "
    "(upper triangle only, zero elsewhere), gradients that were not requested are None, the operator handed to "
    "double_krylov is -i dt H, and the saved tensors are not modified. The Krylov routine itself and autograd are NOT "
    "modelled.",
    "C30/specification[..]/d-denseH-equals-docstring-operators (bounded-symbolic): cross-check of the specification "
    "itself -- the polynomial derivative of the dense Hamiltonian equals the literal Kronecker products "
    "0.5(cos phi sx + sin phi sy), -n, 0.5 Omega(-sin phi sx + cos phi sy), n_i n_j (no code under test involved).",
]

ASSUMPTIONS = [
    "bounded-symbolic obligations: float64/complex128 arithmetic is read as exact real/complex arithmetic (A1); the "
    "double constant torch.pi/2 is read as pi/2, i.e. exp(i(phi + pi/2)) = i exp(i phi) (natively the two differ by "
    "6e-17)",
    "bounded-symbolic obligations: a phase is either the literal 0.0 or a symbol declared non-zero (phi.is_nonzero() "
    "is decided by that pattern; both patterns are enumerated for every site)",
    "bounded-symbolic obligations: each torch operation used by the checked classes has the element-wise meaning "
    "implemented in /verif/symtorch/torch (cross-checked op by op against real torch 2.10 in the thorough tier)",
]

TRUSTED = [
    "/verif/symtorch/poly.py (normal form modulo c^2+s^2=1 is canonical; `diff` is the formal derivative with "
    "d cos = -sin, d sin = cos), /verif/symtorch/torch (NumPy-backed model of the torch subset), "
    "/verif/symtorch/harness/symharness/{core,c30}.py (dense specification, comparison) -- guards: the specification "
    "cross-check obligations, negative controls, native replay of every finding, shim self-test (thorough)",
]


def _spans(path):
    with open(path) as f:
        src = f.read()
    out = {}
    for node in ast.parse(src).body:
        if isinstance(node, ast.ClassDef):
            out[node.name] = [node.lineno, node.end_lineno]
    return out, hashlib.sha256(src.encode()).hexdigest()


def _clean(case):
    return {k: v for k, v in case.items() if not k.startswith("_")}


def _blank(kind, path, spans, sha):
    cls, label = TARGETS[kind]
    return {"target": f"emu_sv.time_evolution:{cls}" if cls else "symharness.c30:spec", "label": label, "paths": 0,
            "error": None, "crash": None, "obligations": [], "assumptions": [], "stats": {},
            "span": spans.get(cls) if cls else None, "file": path if cls else os.path.join(VERIF, "symtorch/harness/symharness/c30.py"),
            "sha256": sha if cls else None, "wall_s": 0, "outcomes": {}, "contract": None}


def _native_batch(jobs, repo_root):
    """jobs: [{name, case, env}] -> {name: {exit, stdout, reproduced, cmd}} (one real-torch process)"""
    if not jobs:
        return {}
    d = tempfile.mkdtemp(prefix="c30_native_")
    path = os.path.join(d, "batch.json")
    try:
        with open(path, "w") as f:
            json.dump(jobs, f)
        env = dict(os.environ, PYTHONPATH=repo_root, PYTHONDONTWRITEBYTECODE="1")
        p = subprocess.run(["/venv/bin/python", REPLAY, "--batch", path, repo_root], capture_output=True, text=True,
                           timeout=1800, cwd=VERIF, env=env)
        try:
            with open(path + ".out") as f:
                out = json.load(f)
        except Exception:                    # noqa: BLE001
            err = "\n".join(l for l in p.stderr.splitlines() if "conda" not in l.lower())[-2000:]
            return {j["name"]: dict(exit=p.returncode, stdout="", stderr=err, reproduced=False) for j in jobs}
        for v in out.values():
            v["cmd"] = "/venv/bin/python replay/c30.py <this replay file> <repo_root>"
        return out
    finally:
        import shutil
        shutil.rmtree(d, ignore_errors=True)


def run(prop, tier, seed, repo_root):
    from props import _engineb
    if _engineb.HARNESS not in sys.path:
        sys.path.insert(0, _engineb.HARNESS)
    from symharness import c30 as H           # names and case list only; nothing of the shim is imported here
    t0 = time.time()
    repo_root = os.path.realpath(repo_root)
    path = os.path.join(repo_root, REL)
    try:
        spans, sha = _spans(path)
    except Exception:                        # noqa: BLE001
        spans, sha = {}, None
    reports = {k: _blank(k, path, spans, sha) for k in TARGETS}
    first = reports["dh_omega"]
    try:
        # one process: the cases are milliseconds each, a fork pool only costs here (measured: 5 s vs 30 s)
        res = _engineb.run_driver("C30", tier, repo_root, seed, timeout=2400, jobs=1)
        results = res.get("results", [])
        if res.get("error"):
            first["crash"] = "symbolic driver error:\n" + res["error"]
            return list(reports.values())
        expected = {H.obligation_name(c, prop) for c in H.cases(tier)}
        got = {}
        for r in results:
            got[H.obligation_name(r["case"], prop)] = r
        if set(got) != expected or len(results) != len(expected):
            first["crash"] = (f"the driver returned {len(results)} results for {len(expected)} generated cases "
                              f"(missing: {sorted(expected - set(got))[:3]})")
            return list(reports.values())
        if len(results) < MIN_CASES.get(tier, 1):
            first["crash"] = f"only {len(results)} cases were generated (vacuity guard, expected >= {MIN_CASES[tier]})"
            return list(reports.values())

        # ---- failing cases: one native batch; cases the code raised in: native decides
        bad = [r for r in results if r["status"] in ("mismatch", "raised")]
        native = _native_batch([dict(name=H.obligation_name(r["case"], prop), case=_clean(r["case"]), env=r.get("env"))
                                for r in bad if r.get("env")], repo_root)

        # ---- thorough: native cross-run (real torch, one generic numeric assignment per case) of the cases that
        # matched symbolically; a disagreement there is a failing input found natively
        cross = {}
        if tier == "thorough" and not os.environ.get("PYVC_NO_EVIDENCE"):
            cross = _native_batch([dict(name=H.obligation_name(r["case"], prop), case=_clean(r["case"]), env=None,
                                        seed=int(seed)) for r in results if r["status"] == "ok" and r["case"]["N"] <= 4],
                                  repo_root)
            first["native_cross_run"] = dict(cases=len(cross), agree=sum(1 for v in cross.values() if v.get("exit") == 0),
                                             what="every symbolically matching case with N <= 4 re-run with real torch "
                                                  "at one generic numeric assignment against the same specification")

        # ---- undecided cases: bounded native panel search (an undecided case alone is never a violation)
        probes = {}
        unsupported = sorted((r for r in results if r["status"] == "unsupported"),
                             key=lambda r: H.obligation_name(r["case"], prop))
        os.makedirs(os.path.join(VERIF, "replays"), exist_ok=True)
        seen_sig = set()
        for r in unsupported:
            if len(probes) >= MAX_PROBES or any(p["reproduced"] for p in probes.values()):
                break
            sig = (r["case"]["kind"], r["case"]["N"], (r.get("op") or "")[:60])
            if sig in seen_sig:
                continue
            seen_sig.add(sig)
            name = H.obligation_name(r["case"], prop)
            ppath = os.path.join(VERIF, "replays", re.sub(r"[^A-Za-z0-9_.#-]+", "_", f"{prop}__undecided_{name}") + ".json")
            rec = dict(property=prop, engine="symtorch (bounded) left the case undecided; native panel search",
                       case=_clean(r["case"]), status="undecided", op=r.get("op"), where=r.get("where"),
                       seed=int(seed), repo_root=repo_root, env=None, native=None)
            with open(ppath, "w") as f:
                json.dump(rec, f, indent=1)
            nat = _engineb.native_replay(ppath, repo_root, script=_engineb.PROBE)
            with open(ppath) as f:
                rec = json.load(f)
            rec["native"] = nat
            rec["reproduced_natively"] = nat.get("reproduced", False)
            with open(ppath, "w") as f:
                json.dump(rec, f, indent=1)
            probes[name] = dict(reproduced=nat.get("reproduced", False), env=rec.get("env"), panel=rec.get("panel"),
                                replay=ppath, native=nat)

        # ---- obligations
        for r in sorted(results, key=lambda r: H.obligation_name(r["case"], prop)):
            case = _clean(r["case"])
            kind = case["kind"]
            rep = reports[kind]
            name = H.obligation_name(case, prop)
            cls = TARGETS[kind][0]
            ob = {"name": name, "kind": "bounded-symbolic", "status": "discharged", "backend": "symtorch",
                  "time_s": float(r.get("time_s", 0.0)), "model": None,
                  "lineno": (spans.get(cls) or [None])[0] if cls else None, "func": f"{prop}/{TARGETS[kind][1]}",
                  "path": [], "known": None, "nolock": case.get("tier") == "thorough",
                  "note": f"BOUNDED: {r.get('entries', 0)} result entries compared as exact polynomial identities "
                          f"({len(r.get('symbols', []))} symbols)"}
            st = r["status"]
            if st == "ok":
                if not r.get("nonzero"):
                    rep["crash"] = f"case {case} compared only zero entries (vacuity guard)"
                x = cross.get(name)
                if x is not None and x.get("exit") == 1:
                    ob["status"] = "failed"
                    ob["model"] = dict(engine="matched symbolically (exact arithmetic), but real torch disagrees with the "
                                              "specification at the generic assignment printed in native_replay.stdout",
                                       case=case, status="native-mismatch", env=x.get("env"))
                    ob["native_replay"] = x
                elif x is not None and x.get("exit") != 0:
                    rep["crash"] = f"native cross-run of {name} crashed:\n" + (x.get("stdout") or "")[-1500:] + (x.get("stderr") or "")[-1500:]
            elif st in ("mismatch", "raised"):
                nat = native.get(name, dict(reproduced=False, stdout="no numeric assignment available"))
                ob["model"] = dict(engine="symtorch (bounded, symbolic entries)", case=case, status=st,
                                   mismatches=(r.get("mismatches") or [])[:3], exception=r.get("exception"),
                                   env=r.get("env"), n_symbols=len(r.get("symbols", [])),
                                   note="`got` is what the real class computed on symbolic entries, `want` the "
                                        "differentiated dense Hamiltonian times the same vectors; they differ as "
                                        "polynomials, i.e. for almost every value of the symbols. `env` is one numeric "
                                        "assignment at which they differ.")
                ob["native_replay"] = nat
                if nat.get("exit") not in (0, 1, None):
                    rep["crash"] = (f"the native replay of {name} crashed (exit {nat.get('exit')}):\n"
                                    + (nat.get("stdout") or "")[-1500:] + (nat.get("stderr") or "")[-1500:])
                if st == "raised" and not nat.get("reproduced"):
                    ob["status"] = "unknown"
                    ob["note"] = ("the code raised " + r["exception"]["type"] + " under the shim but not under real "
                                  "torch (shim/torch divergence): undecided")
                else:
                    ob["status"] = "failed"
            elif st == "unsupported":
                pr = probes.get(name)
                ob["status"] = "unknown"
                ob["note"] = f"undecided under the shim: {r.get('op')}"
                if pr is None:
                    ob["native_replay"] = dict(reproduced=False, searched=False,
                                               note=f"not searched individually: the bounded native panel search was run "
                                                    f"for {len(probes)} of {len(unsupported)} undecided cases (one per class, "
                                                    f"number of atoms and undecided operation; at most {MAX_PROBES}): "
                                                    f"{sorted(probes)}")
                else:
                    ob["native_replay"] = dict(pr["native"], reproduced=bool(pr["reproduced"]), searched=True)
                    ob["note"] += (f"; bounded native panel search: " +
                                   ("the real code disagrees with the specification" if pr["reproduced"] else
                                    "no failing input found") + f" ({pr['replay']})")
                    if pr["reproduced"]:
                        ob["status"] = "failed"
                        ob["model"] = dict(engine="symtorch left the case undecided; native panel search found a failing input",
                                           case=case, status="undecided", op=r.get("op"), env=pr["env"], panel=pr["panel"])
                        ob["native_replay"] = dict(pr["native"], reproduced=True)
            else:                             # crash of the harness in this case
                rep["crash"] = f"harness crash in case {case}:\n{r.get('traceback')}"
                continue
            rep["obligations"].append(ob)
            rep["paths"] += 1
            rep["wall_s"] = round(rep["wall_s"] + ob["time_s"], 3)
            rep["outcomes"][st] = rep["outcomes"].get(st, 0) + 1
        ops = sorted({o for r in results for o in r.get("ops", [])})
        for rep in reports.values():
            rep["stats"] = {}
        first["shim_ops_exercised"] = ops
        first["driver_wall_s"] = res.get("wall_s")

        # ---- thorough: differential self-test of the shim against real torch
        if tier == "thorough" and not os.environ.get("PYVC_NO_EVIDENCE"):
            ok, summary = _engineb.shim_selftest(seed)
            first["shim_selftest"] = summary
            if not ok:
                first["crash"] = "the shim disagrees with real torch (differential self-test): " + json.dumps(summary)[:1500]
            else:
                missing = sorted(set(ops) - set(summary.get("ops_covered", [])))
                first["shim_ops_not_covered_by_selftest"] = missing
    except Exception:                        # noqa: BLE001
        import traceback
        first["crash"] = traceback.format_exc()
    first["total_wall_s"] = round(time.time() - t0, 2)
    return list(reports.values())
