"""Contracts for PulserData.get_sequences / _InteractionMatrixCallable (C23) and the
trajectory bookkeeping of the backends' run() (C34, part of C21)."""
import z3

from pyvc import ops, tensor as T
from pyvc.ghost import rec_function
from pyvc.registry import Contract
from pyvc.values import Opaque, SymObj, SymSeq, to_z3

from . import common

ADAPTER = "emu_base.pulser_adapter"


def _pulser_data(I, reg, user_matrix: bool):
    """A PulserData object after __init__: arbitrarily many noisy samples, arbitrary matrices,
    cutoff, SLM targets.  Returns (object, ghost dict)."""
    ctx = I.ctx
    n = ctx.fresh("n", "int")
    ns = ctx.fresh("NS", "int")
    ntg = ctx.fresh("NTG", "int")
    ctx.assume(z3.And(n >= 1, ns >= 0, ntg >= 0))
    Mf = z3.Function(ctx.fresh_name("M"), z3.IntSort(), z3.IntSort(), z3.IntSort(), z3.RealSort())
    repsf = z3.Function(ctx.fresh_name("reps"), z3.IntSort(), z3.IntSort())
    tgf = z3.Function(ctx.fresh_name("target"), z3.IntSort(), z3.IntSort())

    def sample(k):
        kz = to_z3(k)
        ctx.assume(repsf(kz) >= 0)
        s = SymObj("NoisySample", None)
        tr = SymObj("Trajectory", None)
        im = SymObj("InteractionMatrix", None)
        mat = T.LamTensor((n, n), lambda i, j: Mf(kz, to_z3(i), to_z3(j)), "real")
        im.fields["as_tensor"] = lambda I2: mat
        tr.fields["interaction_matrix"] = im
        ba = SymObj("BadAtoms", None)
        ba.fields["keys"] = lambda I2: common.sym_seq(I2, "bad_atom_ids")
        ba.fields["values"] = lambda I2: common.sym_seq(I2, "bad_atom_flags", sort="bool")
        tr.fields["bad_atoms"] = ba
        s.fields.update(trajectory=tr, samples=Opaque(f"samples[{k}].samples"), reps=repsf(kz),
                        _index=kz, _matrix=mat)
        return s
    samples = SymSeq(ns, sample)
    ham = SymObj("HamiltonianData", None)
    ham.fields["noisy_samples"] = samples

    def targets_seq(I2, lst):
        def el(s):
            sz = to_z3(s)
            I2.ctx.assume(z3.And(tgf(sz) >= 0, tgf(sz) < n))
            return tgf(sz)
        return SymSeq(ntg, el)
    register = SymObj("Register", None)
    register.fields["find_indices"] = targets_seq
    seq = SymObj("Sequence", None)
    seq.fields.update(_slm_mask_targets=common.sym_seq(I, "slm_targets"), register=register)
    nm = SymObj("NoiseModel", None)
    nm.fields["state_prep_error"] = ctx.fresh("state_prep_error", "real")
    pd = SymObj("PulserData", ADAPTER)
    user = reg.sym_tensor(I, "U", (n, n)) if user_matrix else None
    pd.fields.update(
        hamiltonian=ham, _sequence=seq, full_interaction_matrix=user,
        interaction_cutoff=ctx.fresh("cutoff", "real"), slm_end_time=ctx.fresh("slm_end", "real"),
        qubit_ids=common.sym_seq(I, "qubit_ids"), target_times=common.sym_seq(I, "target_times", sort="real"),
        lindblad_ops=common.sym_seq(I, "lindblad_ops"), noise_model=nm,
        eigenstates=common.sym_seq(I, "eigenstates"), hamiltonian_type=common._enum_member(I, "ht", ["Rydberg", "XY"]))
    ghost = dict(n=n, NS=ns, NTG=ntg, reps=repsf, target=tgf, user=user)
    return pd, ghost


def register(reg, prop="C23"):
    reg.add_class("PulserData", module=ADAPTER, fields={})
    reg.policies[f"{ADAPTER}:_InteractionMatrixCallable.__init__"] = "inline"
    reg.policies[f"{ADAPTER}:_unpack_interaction_matrix"] = "inline"

    def setup(user_matrix):
        def _setup(I, fr):
            pd, g = _pulser_data(I, reg, user_matrix)
            fr.locals["self"] = pd
            fr.locals.update(N=g["n"], NS=g["NS"], NTG=g["NTG"])
            # ghost: total number of repetitions of the first t samples
            RP = rec_function(I, "RP", 0, lambda k, prev: prev + g["reps"](to_z3(k)), sort="int")
            fr.locals["RP"] = RP
            # ghost: atom i is among the first t SLM-masked targets
            hit = rec_function(I, "hit", False,
                               lambda k, prev, i: z3.Or(prev, g["target"](to_z3(k)) == to_z3(i)),
                               sort="bool", extra_args=1)
            fr.locals["hit"] = hit
            # ghost: the matrix the interactions come from: the user's if given, else the trajectory's
            fr.locals["SRC"] = (lambda I2, s: g["user"]) if user_matrix else (lambda I2, s: s.fields["_matrix"])
        return _setup

    for user_matrix in (False, True):
        reg.add_contract(Contract(
            f"{ADAPTER}:PulserData.get_sequences", property=prop,
            label="PulserData.get_sequences" + ("[custom matrix]" if user_matrix else "[register matrix]"),
            params={"self": lambda I, n: None}, setup=setup(user_matrix),
            policies={f"{ADAPTER}:_extract_omega_delta_phi": "opaque"},
            loops={
                0: dict(invariant=["__yields__.count == RP(_k)"], modifies=["__yields__.count"]),
                1: dict(index="_t", invariant=[
                    "forall(lambda i: forall(lambda j: masked_interaction_matrix[i, j] == "
                    "(0 if (hit(_t, i) or hit(_t, j)) else full_interaction_matrix[i, j]), 0, N), 0, N)"],
                    modifies=["masked_interaction_matrix.*"]),
                2: dict(index="_j", invariant=["__yields__.count == RP(_k) + _j"],
                        modifies=["__yields__.count"]),
            },
            yield_ensures=[
                # cutoff: entries below the cutoff in magnitude are zero, the others unchanged;
                # source = user matrix if given, else this trajectory's register matrix
                "forall(lambda i: forall(lambda j: item.interaction_matrix.full_matrix[i, j] == "
                "(0 if abs(SRC(samples)[i, j]) < self.interaction_cutoff else SRC(samples)[i, j]), 0, N), 0, N)",
                # SLM mask: every interaction involving a masked atom is zero, the rest is the full matrix
                "forall(lambda i: forall(lambda j: item.interaction_matrix.masked_matrix[i, j] == "
                "(0 if (hit(NTG, i) or hit(NTG, j)) else item.interaction_matrix.full_matrix[i, j]), 0, N), 0, N)",
                "item.interaction_matrix.slm_end_time == self.slm_end_time",
                # symmetry and zero diagonal of the source are preserved (pointwise)
                "forall(lambda i: forall(lambda j: implies(SRC(samples)[i, j] == SRC(samples)[j, i], "
                "item.interaction_matrix.full_matrix[i, j] == item.interaction_matrix.full_matrix[j, i] and "
                "item.interaction_matrix.masked_matrix[i, j] == item.interaction_matrix.masked_matrix[j, i]), 0, N), 0, N)",
                "forall(lambda i: implies(SRC(samples)[i, i] == 0, item.interaction_matrix.full_matrix[i, i] == 0 "
                "and item.interaction_matrix.masked_matrix[i, i] == 0), 0, N)",
                # the yielded data belong to the trajectory being repeated
                "item.state_prep_error == self.noise_model.state_prep_error",
            ],
            # every trajectory is emitted exactly as many times as Pulser requests
            ensures=["__yields__.count == RP(NS)"],
        ), callsite=False)

    # ---- the callable handed to the solvers ------------------------------------------------
    reg.add_class("_InteractionMatrixCallable", module=ADAPTER, fields={})

    def imc(I, n):
        o = SymObj("_InteractionMatrixCallable", ADAPTER)
        o.fields.update(full_matrix=Opaque("full"), masked_matrix=Opaque("masked"),
                        slm_end_time=I.ctx.fresh("slm_end", "real"))
        return o
    reg.add_contract(Contract(
        f"{ADAPTER}:_InteractionMatrixCallable.__call__", property=prop,
        params={"self": imc, "t": "real"},
        returns="opaque",
        # before the SLM mask ends the masked matrix applies, afterwards the full one
        ensures=["implies(t < self.slm_end_time, result is self.masked_matrix)",
                 "implies(t >= self.slm_end_time, result is self.full_matrix)"],
    ))
