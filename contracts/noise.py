"""Contracts for emu_base/jump_lindblad_operators.py and the adapter's collection loop (C24).

Basis conventions (determined from the sources, not assumed):

* Pulser (pulser-core 1.9.1, `pulser/channels/base_channel.py`): `States = Literal["u","d","r","g","h","x"]`
  is "ordered as they appear in the state-vector representation"; `EIGENSTATES["ground-rydberg"] =
  ["r", "g"]`, `EIGENSTATES["XY"] = ["u", "d"]`; `HamiltonianData._get_eigenbasis` appends "x" with
  leakage and sorts by `STATES_RANK`.  So Pulser's matrix index is  r = 0, g = 1, x = 2  (ising) and
  u = 0, d = 1, x = 2 (XY).  `sigma_ab` is |a><b| (`_get_projectors`, qutip `basis(a) * basis(b).dag()`).
  `HamiltonianData._build_local_collapse_operators`:
      dephasing     sqrt(2*G) * sigma_rr            (XY: sigma_dd)
      relaxation    sqrt(G)   * sigma_gr            (= |g><r|; refused for XY)
      depolarizing  sqrt(G/4) * { sigma_gr + sigma_rg,  i sigma_gr - i sigma_rg,  sigma_rr - sigma_gg }
      eff_noise     sqrt(rate_k) * eff_noise_opers[k]   (matrix given in the eigenbasis order above)
* Emulators: the field `eigenstates` reads ("r","g"[,"x"]) as well, but the *vector index* is
  g = 0, r = 1, x = 2: `emu_mps/mps.py` (`make`: |g> = [1,0,0], comment "(g,r,x)"; `from_state_amplitudes`:
  basis_0 "ground state", basis_1 "excited state", basis_x), `emu_mps/mpo.py` ("gg" -> [0,0], "rr" -> [1,1],
  "xg" -> [2,0], "xr" -> [2,1]), `emu_mps/hamiltonian.py` (`Operators.n = diag(0,1)`), and the comment
  "pulser ising basis changing to emu-mps ising basis" in `get_lindblad_operators`.  For XY the order
  is Pulser's ("lindblad operators with XY pulser basis are fine").

Hence emulator index i holds Pulser index PI[i] with PI = (1, 0, 2) for "ising" and the identity for
"XY":  M_emu[i, j] = M_pulser[PI[i], PI[j]]  (= P M P^T with the permutation matrix of PI).

Oracle = Pulser's definition transported by PI.  `eff_noise`: operator equality, entry by entry, for
arbitrary complex matrices (all entries symbolic).  relaxation / dephasing / depolarizing: equality of
the *dissipators*  D(rho) = sum_k L_k rho L_k^+ - 1/2 {sum_k L_k^+ L_k, rho}  on every matrix unit
E_ab (a linear map is fixed by its values on a basis) -- the physical process; a global sign or phase
of a jump operator, or Pulser's  sqrt(2G)|r><r|  versus  sqrt(G/2) sigma_z  for two levels, is the same
process.  dim is concrete (2 or 3 = the whole domain), rates are symbolic and >= 0.
"""
from fractions import Fraction

import z3

from pyvc import intrinsics as X, ops, tensor as T
from pyvc.registry import Contract
from pyvc.values import CplxV, Opaque, SymObj

from .config import noise_model_obj

JUMP = "emu_base.jump_lindblad_operators"
ADAPTER = "emu_base.pulser_adapter"

LINDBLAD_TYPES = ["relaxation", "dephasing", "depolarizing", "eff_noise"]
KNOWN_TYPES = LINDBLAD_TYPES + ["leakage"]
# every noise type pulser-core 1.9.1 knows (pulser/noise_model.py: NoiseTypes)
ALL_PULSER_TYPES = ("leakage", "doppler", "amplitude", "detuning", "register", "SPAM", "dephasing",
                    "relaxation", "depolarizing", "eff_noise", "dmm_sigma", "dmm_crosstalk")
MAX_EFF = 2          # number of effective-noise operators in the verified variants (0..MAX_EFF)
MAX_LIST = 3         # list length bound for compute_noise_from_lindbladians


def pi_of(interact_type, dim):
    if interact_type == "ising":
        return [1, 0] + list(range(2, dim))
    return list(range(dim))


# ---- small exact complex matrix algebra on concrete shapes (nested lists of CplxV) --------------
def C(v):
    return CplxV.of(v)


def entries(t):
    """LamTensor (concrete 2-d shape) -> nested list of CplxV"""
    n, m = t.shape
    return [[C(t.fn(i, j)) for j in range(m)] for i in range(n)]


def conj(v):
    v = C(v)
    return CplxV(v.re, ops.neg(v.im))


def czero():
    return CplxV(0, 0)


def unit(dim, a, b, coeff):
    m = [[czero() for _ in range(dim)] for _ in range(dim)]
    m[a][b] = C(coeff)
    return m


def madd(*ms):
    dim = len(ms[0])
    return [[_sum([m[i][j] for m in ms]) for j in range(dim)] for i in range(dim)]


def _sum(vs):
    acc = czero()
    for v in vs:
        acc = ops.add(acc, v)
    return C(acc)


def transport(m, pi):
    dim = len(m)
    return [[m[pi[i]][pi[j]] for j in range(dim)] for i in range(dim)]


def dissipator_on_unit(ops_list, dim, a, b):
    """D(E_ab) for the jump operators `ops_list` (nested CplxV lists)."""
    # G = sum L^+ L
    G = [[_sum([ops.mul(conj(L[m][p]), L[m][q]) for L in ops_list for m in range(dim)])
          for q in range(dim)] for p in range(dim)]
    out = []
    for i in range(dim):
        row = []
        for j in range(dim):
            v = _sum([ops.mul(L[i][a], conj(L[j][b])) for L in ops_list])
            if j == b:
                v = ops.sub(v, ops.mul(Fraction(1, 2), G[i][a]))
            if i == a:
                v = ops.sub(v, ops.mul(Fraction(1, 2), G[b][j]))
            row.append(C(v))
        out.append(row)
    return out


def ceq(x, y):
    x, y = C(x), C(y)
    return ops.b_and(ops.equal(x.re, y.re), ops.equal(x.im, y.im))


# ---- Pulser's collapse operators, in Pulser's basis ----------------------------------------------
def pulser_ops(I, noise_type, nm, dim, interact_type):
    """HamiltonianData._build_local_collapse_operators of pulser-core 1.9.1, restated.  States
    b, a = eigenbasis[:2]  (ising: b = r = 0, a = g = 1;  XY: b = u = 0, a = d = 1)."""
    b, a = 0, 1
    if noise_type == "relaxation":
        if interact_type != "ising":
            raise ValueError("pulser refuses relaxation outside the ground-rydberg basis")
        c = X.sqrt_term(I, nm.fields["relaxation_rate"])
        return [unit(dim, a, b, c)]                                  # sigma_gr = |g><r|
    if noise_type == "dephasing":
        c = X.sqrt_term(I, ops.mul(2, nm.fields["dephasing_rate"]))
        s = b if interact_type == "ising" else a                     # sigma_rr (ising) / sigma_dd (XY)
        return [unit(dim, s, s, c)]
    if noise_type == "depolarizing":
        c = X.sqrt_term(I, ops.truediv_raw(nm.fields["depolarizing_rate"], 4))
        ic = ops.mul(CplxV(0, 1), c)
        return [madd(unit(dim, a, b, c), unit(dim, b, a, c)),
                madd(unit(dim, a, b, ic), unit(dim, b, a, ops.neg(ic))),
                madd(unit(dim, b, b, c), unit(dim, a, a, ops.neg(c)))]
    if noise_type == "eff_noise":
        out = []
        for rate, op in zip(nm.fields["eff_noise_rates"], nm.fields["eff_noise_opers"]):
            s = X.sqrt_term(I, rate)
            out.append([[C(ops.mul(s, v)) for v in row] for row in entries(op)])
        return out
    if noise_type == "leakage":
        return []
    raise ValueError(noise_type)


def oracle_ops(I, noise_type, nm, dim, interact_type):
    pi = pi_of(interact_type, dim)
    return [transport(m, pi) for m in pulser_ops(I, noise_type, nm, dim, interact_type)]


# ---- ghost functions used by the clauses ---------------------------------------------------------
def g_shapes_ok(I, result, dim):
    return all(isinstance(t, T.LamTensor) and tuple(t.shape) == (dim, dim) for t in result)


def g_same_channel(I, result, noise_type, nm, dim, interact_type):
    """the emitted jump operators generate Pulser's dissipator (emulator basis)"""
    mine = [entries(t) for t in result]
    ref = oracle_ops(I, noise_type, nm, dim, interact_type)
    goals = []
    for a in range(dim):
        for b in range(dim):
            d1 = dissipator_on_unit(mine, dim, a, b)
            d2 = dissipator_on_unit(ref, dim, a, b)
            for i in range(dim):
                for j in range(dim):
                    goals.append(ceq(d1[i][j], d2[i][j]))
    return ops.b_and(*goals)


def g_same_operators(I, result, noise_type, nm, dim, interact_type):
    """operator-by-operator, entry-by-entry equality with Pulser's operators (emulator basis)"""
    ref = oracle_ops(I, noise_type, nm, dim, interact_type)
    if len(ref) != len(result):
        return False
    goals = []
    for t, r in zip(result, ref):
        m = entries(t)
        for i in range(dim):
            for j in range(dim):
                goals.append(ceq(m[i][j], r[i][j]))
    return ops.b_and(*goals)


def g_noise_term(I, result, lindbladians, dim):
    """result == -i/2 sum_L L^+ L, entry by entry"""
    Ls = [entries(t) for t in lindbladians]
    goals = []
    m = entries(result)
    for p in range(dim):
        for q in range(dim):
            g = _sum([ops.mul(conj(L[r][p]), L[r][q]) for L in Ls for r in range(dim)])
            # -i/2 * (x + i y) = y/2 - i x/2
            want = CplxV(ops.mul(Fraction(1, 2), g.im), ops.mul(Fraction(-1, 2), g.re))
            goals.append(ceq(m[p][q], want))
    return ops.b_and(*goals)


# ---- symbolic inputs -------------------------------------------------------------------------------
def cplx_matrix(I, name, rows, cols=None):
    cols = rows if cols is None else cols
    data = [[CplxV(I.ctx.fresh(f"{name}.re{i}{j}", "real"), I.ctx.fresh(f"{name}.im{i}{j}", "real"))
             for j in range(cols)] for i in range(rows)]
    return T.from_nested(data, "complex")


def noise_model(I, name, dim, n_eff, types=None, bad_shape=False):
    opers = [cplx_matrix(I, f"eff{k}", dim + 1 if (bad_shape and k == n_eff - 1) else dim)
             for k in range(n_eff)]
    rates = [I.ctx.fresh(f"eff_rate{k}", "real") for k in range(n_eff)]
    nm = noise_model_obj(I, name, eff=(tuple(opers), tuple(rates)))
    nm.fields["noise_types"] = tuple(types if types is not None else KNOWN_TYPES)
    return nm


RATE_REQ = ["noise_model.relaxation_rate >= 0", "noise_model.dephasing_rate >= 0",
            "noise_model.depolarizing_rate >= 0",
            # pulser's NoiseModel._check_eff_noise rejects negative rates
            "all(r >= 0 for r in noise_model.eff_noise_rates)"]

# One clause list for every variant and for call sites (noise_type is a concrete string on each
# path, so `implies` with a false premise does not look at the conclusion).
GLO_ENSURES = [
    "noise_type in KNOWN_TYPES",
    "shapes_ok(result, dim)",
    "len(result) == expected_count(noise_type, noise_model)",
    # relaxation r -> g, dephasing, depolarizing: the same physical process as Pulser's operators
    "implies(noise_type in ['relaxation', 'dephasing', 'depolarizing'],"
    " same_channel(result, noise_type, noise_model, dim, interact_type))",
    # user operators, including transitions to and from the leakage level: Pulser's matrix in the
    # emulator's basis order, scaled by sqrt(rate)
    "implies(noise_type == 'eff_noise', same_operators(result, noise_type, noise_model, dim, interact_type))",
    "implies(noise_type == 'dephasing', noise_model.hyperfine_dephasing_rate == 0)",
]


GLO_NAMES = ["known-noise-type", "operator-shapes", "operator-count", "same-channel-as-pulser",
             "eff-noise-operators-in-emulator-basis", "no-hyperfine-dephasing"]


def expected_count(I, noise_type, nm):
    return {"relaxation": 1, "dephasing": 1, "depolarizing": 3, "leakage": 0}.get(
        noise_type, len(nm.fields["eff_noise_opers"]))


def _callsite_returns(I, name, env):
    nt, nm, dim = env["noise_type"], env["noise_model"], env["dim"]
    return [cplx_matrix(I, f"{nt}.L{k}", dim) for k in range(expected_count(I, nt, nm))]


def _record_call(I, fr):
    if "result" in fr.locals and fr.locals["result"] is not None:
        I.ctx.ghost.setdefault("glo_calls", []).append(
            (fr.locals["noise_type"], fr.locals["dim"], fr.locals["interact_type"], fr.locals["result"]))


def g_collected(I, result, nm, dim, interact_type):
    """the adapter returns, in the order of noise_model.noise_types, exactly the operators that
    get_lindblad_operators gave for the Lindbladian noise types, asked with this dim / interaction"""
    calls = I.ctx.ghost.get("glo_calls", [])
    want = [t for t in nm.fields["noise_types"] if t in KNOWN_TYPES]
    if [c[0] for c in calls] != want:
        return False
    if any(c[1] != dim or c[2] != interact_type for c in calls):
        return False
    flat = [t for c in calls for t in c[3]]
    return len(flat) == len(result) and all(a is b for a, b in zip(flat, result))


def register(reg, prop="C24"):
    G = reg.ghost_funcs
    G["KNOWN_TYPES"] = list(KNOWN_TYPES)
    G["shapes_ok"] = g_shapes_ok
    G["same_channel"] = g_same_channel
    G["same_operators"] = g_same_operators
    G["noise_term"] = g_noise_term
    G["expected_count"] = expected_count
    G["collected"] = g_collected

    def leakage_coupling(I, nm, dim):
        """region of known finding F12: some effective-noise operator has a non-zero entry that
        couples a qubit level (index 0/1) to the leakage level (index 2)"""
        if dim < 3:
            return False
        out = []
        for op in nm.fields["eff_noise_opers"]:
            e = entries(op)
            for (i, j) in ((0, 2), (1, 2), (2, 0), (2, 1)):
                out.append(ops.b_not(ops.b_and(ops.equal(e[i][j].re, 0), ops.equal(e[i][j].im, 0))))
        return ops.b_or(*out) if out else False
    G["leakage_coupling"] = leakage_coupling

    raises = {"NotImplementedError": "noise_type == 'dephasing' and noise_model.hyperfine_dephasing_rate != 0",
              "ValueError": "noise_type not in KNOWN_TYPES or (noise_type == 'eff_noise' and "
                            "not all(op.shape == (dim, dim) for op in noise_model.eff_noise_opers))",
              "AssertionError": "noise_type not in noise_model.noise_types"}

    # ---- call-site face (also the clause list of every verified variant) ---------------------
    reg.add_contract(Contract(
        f"{JUMP}:get_lindblad_operators", property=prop, label="get_lindblad_operators[callsite]",
        params={"noise_type": "str", "noise_model": lambda I, n: noise_model(I, n, 2, 1),
                "interact_type": "str", "dim": "int"},
        requires=RATE_REQ, raises={}, raises_when=dict(raises),
        returns=_callsite_returns, post_setup=_record_call, ensures=GLO_ENSURES, ensures_names=GLO_NAMES,
    ), callsite=True)
    del reg.all[f"{JUMP}:get_lindblad_operators[callsite]"]       # not a verification target itself

    targets = []
    for dim in (2, 3):
        for it in ("ising", "XY"):
            for nt in KNOWN_TYPES + ["thermal"]:
                if nt == "relaxation" and it == "XY":
                    continue        # pulser refuses relaxation for XY: no definition to compare with
                effs = range(0, MAX_EFF + 1) if nt == "eff_noise" else [1]
                for n_eff in effs:
                    label = f"get_lindblad_operators[{nt},{it},dim={dim}" + (
                        f",ops={n_eff}]" if nt == "eff_noise" else "]")
                    reg.add_contract(Contract(
                        f"{JUMP}:get_lindblad_operators", property=prop, label=label,
                        params={"noise_type": (lambda nt: lambda I, n: nt)(nt),
                                "noise_model": (lambda dim, n_eff, nt: lambda I, n: noise_model(
                                    I, n, dim, n_eff, types=KNOWN_TYPES + ["thermal"]))(dim, n_eff, nt),
                                "interact_type": (lambda it: lambda I, n: it)(it),
                                "dim": (lambda dim: lambda I, n: dim)(dim)},
                        requires=RATE_REQ, raises=dict(raises), raises_when=dict(raises),
                        ensures=GLO_ENSURES, ensures_names=GLO_NAMES,
                    ), callsite=False)
                    targets.append(f"{JUMP}:{label}")
        # an operator of the wrong shape is refused
        label = f"get_lindblad_operators[eff_noise,bad shape,dim={dim}]"
        reg.add_contract(Contract(
            f"{JUMP}:get_lindblad_operators", property=prop, label=label,
            params={"noise_type": lambda I, n: "eff_noise",
                    "noise_model": (lambda dim: lambda I, n: noise_model(I, n, dim, 2, bad_shape=True))(dim),
                    "interact_type": lambda I, n: "ising", "dim": (lambda dim: lambda I, n: dim)(dim)},
            requires=RATE_REQ, raises=dict(raises), raises_when=dict(raises), ensures=GLO_ENSURES, ensures_names=GLO_NAMES,
        ), callsite=False)
        targets.append(f"{JUMP}:{label}")

    # ---- compute_noise_from_lindbladians ---------------------------------------------------------
    for dim in (2, 3):
        for n in range(0, MAX_LIST + 1):
            label = f"compute_noise_from_lindbladians[dim={dim},n={n}]"
            reg.add_contract(Contract(
                f"{JUMP}:compute_noise_from_lindbladians", property=prop, label=label,
                params={"lindbladians": (lambda dim, n: lambda I, nm: [cplx_matrix(I, f"L{k}", dim)
                                                                      for k in range(n)])(dim, n),
                        "dim": (lambda dim: lambda I, nm: dim)(dim)},
                requires=[], raises={}, raises_when={},
                ensures=["result.shape == (dim, dim)", "noise_term(result, lindbladians, dim)"],
                ensures_names=["noise-term-shape", "noise-term-is-minus-half-i-sum-LdagL"],
            ), callsite=False)
            targets.append(f"{JUMP}:{label}")
        for shape in ((dim + 1, dim + 1), (dim, dim + 1), (5 - dim, 5 - dim)):
            label = f"compute_noise_from_lindbladians[dim={dim},wrong shape {shape[0]}x{shape[1]}]"
            reg.add_contract(Contract(
                f"{JUMP}:compute_noise_from_lindbladians", property=prop, label=label,
                params={"lindbladians": (lambda dim, shape: lambda I, nm: [
                    cplx_matrix(I, "L0", dim), cplx_matrix(I, "L1", *shape)])(dim, shape),
                    "dim": (lambda dim: lambda I, nm: dim)(dim)},
                requires=[], raises={"AssertionError": None}, raises_when={"AssertionError": "True"},
                ensures=["False"],
            ), callsite=False)
            targets.append(f"{JUMP}:{label}")

    # ---- _get_all_lindblad_noise_operators -------------------------------------------------------
    for dim in (2, 3):
        for it in ("ising", "XY"):
            types = tuple(t for t in ALL_PULSER_TYPES if not (t == "relaxation" and it == "XY"))
            label = f"_get_all_lindblad_noise_operators[{it},dim={dim}]"
            reg.add_contract(Contract(
                f"{ADAPTER}:_get_all_lindblad_noise_operators", property=prop, label=label,
                params={"noise_model": (lambda dim, types: lambda I, n: noise_model(I, n, dim, 2, types=types))(
                    dim, types),
                    "dim": (lambda dim: lambda I, n: dim)(dim),
                    "interact_type": (lambda it: lambda I, n: it)(it)},
                requires=RATE_REQ + ["noise_model.hyperfine_dephasing_rate == 0"],
                raises={}, raises_when={},
                ensures=["collected(result, noise_model, dim, interact_type)"],
                ensures_names=["collects-the-lindbladian-operators-in-order"],
            ), callsite=False)
            targets.append(f"{ADAPTER}:{label}")
    reg.add_contract(Contract(
        f"{ADAPTER}:_get_all_lindblad_noise_operators", property=prop,
        label="_get_all_lindblad_noise_operators[None]",
        params={"noise_model": "none", "dim": "int", "interact_type": "str"},
        requires=[], raises={}, ensures=["result == []"],
    ), callsite=False)
    targets.append(f"{ADAPTER}:_get_all_lindblad_noise_operators[None]")
    return targets
