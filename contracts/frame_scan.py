"""Syntactic frame scan used by C03/C02/C25: the ordering state of a run is written in exactly the
places the contracts cover, so the models of MPSBackendImpl.init / MPSBackend._run (which say
"does not touch the ordering fields") are justified for every function of the package, not only
for those under contract.

Scanned: every module of emu_mps.  A *write* is an assignment / augmented assignment / annotated
assignment / del whose target is an attribute with one of the names below, or a setattr(...) call
with that literal name."""
import ast
import hashlib
import os
import time

EXPECTED = {
    # attribute -> set of (module, function qualname) allowed to write it
    "qubit_permutation": {("emu_mps/mps_backend_impl.py", "MPSBackendImpl.__init__")},
    "pulser_data": {("emu_mps/mps_backend_impl.py", "MPSBackendImpl.__init__")},
    "atom_order": {("emu_mps/mps_backend_impl.py", "permute_atom_order")},
    "well_prepared_qubits_filter": {("emu_mps/mps_backend_impl.py", "MPSBackendImpl.init_dark_qubits")},
}


def _writes(tree):
    out = []

    def visit(node, qual):
        for ch in ast.iter_child_nodes(node):
            q = qual
            if isinstance(ch, (ast.FunctionDef, ast.AsyncFunctionDef, ast.ClassDef)):
                q = f"{qual}.{ch.name}" if qual else ch.name
            targets = []
            if isinstance(ch, ast.Assign):
                targets = ch.targets
            elif isinstance(ch, (ast.AugAssign, ast.AnnAssign)):
                targets = [ch.target] if not (isinstance(ch, ast.AnnAssign) and ch.value is None) else []
            elif isinstance(ch, ast.Delete):
                targets = ch.targets
            for t in targets:
                for n in ast.walk(t):
                    if isinstance(n, ast.Attribute) and isinstance(n.ctx, (ast.Store, ast.Del)):
                        out.append((n.attr, qual, n.lineno))
            if isinstance(ch, ast.Call) and isinstance(ch.func, ast.Name) and ch.func.id == "setattr" \
                    and len(ch.args) >= 2 and isinstance(ch.args[1], ast.Constant):
                out.append((ch.args[1].value, qual, ch.lineno))
            visit(ch, q)
    visit(tree, "")
    return out


def run(prop, repo_root, attrs=None):
    t0 = time.time()
    label = "frame-scan[emu_mps]"
    func = f"{prop}/{label}"
    rep = {"target": "emu_mps:<package>", "label": label, "paths": 0, "error": None, "crash": None,
           "obligations": [], "assumptions": [], "stats": {}, "span": None, "file": None, "sha256": None,
           "wall_s": 0, "outcomes": {}, "contract": None}
    try:
        found = {a: [] for a in (attrs or EXPECTED)}
        h = hashlib.sha256()
        base = os.path.join(repo_root, "emu_mps")
        n = 0
        for dirpath, _, files in sorted(os.walk(base)):
            for fn in sorted(files):
                if not fn.endswith(".py"):
                    continue
                path = os.path.join(dirpath, fn)
                src = open(path).read()
                h.update(src.encode())
                rel = os.path.relpath(path, repo_root)
                n += 1
                for attr, qual, line in _writes(ast.parse(src)):
                    if attr in found:
                        found[attr].append((rel, qual, line))
        rep["paths"] = n
        rep["sha256"] = h.hexdigest()
        rep["file"] = "emu_mps/**/*.py"
        for attr, places in found.items():
            extra = [p for p in places if (p[0], p[1]) not in EXPECTED[attr]]
            missing = [e for e in EXPECTED[attr] if not any((p[0], p[1]) == e for p in places)]
            bad = None
            if extra or missing:
                bad = {"unexpected_writes": extra, "expected_writer_not_found": sorted(missing)}
            rep["obligations"].append({
                "name": f"{func}/{attr}-written-only-in-{'+'.join(sorted(q for _, q in EXPECTED[attr]))}",
                "kind": "frame", "status": "failed" if bad else "discharged", "backend": "ast-scan",
                "time_s": 0.0, "model": bad, "lineno": places[0][2] if places else None, "func": func, "path": [],
                "note": f"{n} modules scanned; writes found: {places}", "known": None})
    except Exception:
        import traceback
        rep["crash"] = traceback.format_exc()
    rep["wall_s"] = round(time.time() - t0, 2)
    return [rep]
