"""C25, emu-sv: SVBackendImpl.init_dark_qubits (drives and couplings of badly prepared atoms are
zeroed, everything else is left as it was) and what one evolution step hands to the stepper for a
badly prepared atom.

emu-sv keeps every atom in the state vector / density matrix; an atom "behaves as absent" iff it
starts in |g> (StateVector.make / DensityMatrix.make) and no term of the generator acts on it:
no drive, no detuning, no coupling, no jump operator.  NOTE the attribute named
`well_prepared_qubits_filter` holds the BAD mask in emu-sv (True = badly prepared), the opposite of
emu-mps.

Register-order data as in contracts/mps_dataflow.py (`sequence_data`): omega/delta/phi[t, atom],
interaction_matrix(t)[atom, atom], bad_atoms[atom]; self.omega is data.omega (the same tensor
object, as in SVBackendImpl.__init__).
"""
import z3

from pyvc import intrinsics as X, maskidx, ops, tensor as T
from pyvc.registry import Contract
from pyvc.values import Opaque, SymObj, SymSeq, Unsupported, is_boolish, to_z3

from . import mps_dataflow as D

SVIMPL = "emu_sv.sv_backend_impl"
DRIVES = D.DRIVES


def torch_where(I, c, a=None, b=None):
    """torch.where(mask) -> (indices of the True entries, increasing,) ; the 3-argument form as before"""
    if a is None and b is None:
        if not (isinstance(c, T.LamTensor) and c.ndim == 1 and c.dtype == "bool"):
            raise Unsupported("single-argument torch.where of something that is not a 1-d boolean mask")
        cnt, sel, rank = maskidx.enumeration(I, c)
        idx = T.LamTensor(sel.shape, sel.fn, "int", sel.name)
        idx.inverse = T.LamTensor((c.shape[0],), rank, "int")
        return (idx,)
    return X.TORCH["where"](I, c, a, b)


def torch_tensor(I, data, dtype=None, device=None):
    """torch.tensor(tuple of bools) is a boolean tensor"""
    if isinstance(data, SymSeq) and dtype is None and is_boolish(data.fn(0)):
        return T.LamTensor((data.length,), lambda k: data.fn(k), "bool")
    return X.t_tensor(I, data, dtype=dtype, device=device)


def sv_impl(I):
    ctx = I.ctx
    data = D.sequence_data(I)
    N, Tn = data.ghost_N, data.ghost_T
    o = SymObj("SVBackendImpl", SVIMPL)
    o.fields.update(_data=data, omega=data.fields["omega"], delta=data.fields["delta"], phi=data.fields["phi"],
                    interaction_matrix=data.fields["interaction_matrix"], nqubits=N, nsteps=Tn,
                    pulser_lindblads=data.fields["lindblad_ops"], target_times=data.fields["target_times"],
                    well_prepared_qubits_filter=None)
    o.ghost_N, o.ghost_T = N, Tn
    return o


def register(reg, prop="C25"):
    maskidx.install(reg)
    reg.external["torch.where"] = torch_where
    reg.external["torch.tensor"] = torch_tensor
    none = lambda I, n: None

    # ==== init_dark_qubits ===========================================================================
    def setup_dark(I, fr):
        o = sv_impl(I)
        fr.locals.update(self=o, N=o.ghost_N, NT=o.ghost_T, bad=o.fields["_data"].fields["bad_atoms"],
                         spe=o.fields["_data"].fields["state_prep_error"],
                         TQ=I.ctx.fresh("t_query", "real"))

    def ghost_dark(I, fr):
        # the matrix the backend will use at an arbitrary query time (the code's own closure, executed)
        if "__frame__" in fr.locals and "MAT" not in fr.locals:
            o = fr.locals["self"]
            fr.locals["MAT"] = I.call(o.fields["interaction_matrix"], [fr.locals["TQ"]], {})
            fr.locals["J0"] = o.fields["_data"].fields["interaction_matrix"](I, fr.locals["TQ"])
            f = o.fields["well_prepared_qubits_filter"]
            # (no filter: clauses guarded by `spe > 0` still need a tensor to speak about)
            fr.locals["FILT"] = f if f is not None else T.const_tensor((o.ghost_N,), False, "bool")

    dark = "(spe > 0 and bad[k])"
    ens, names = [
        "(self.well_prepared_qubits_filter is None) == (not (spe > 0))",
        # the attribute holds the BAD mask (True = badly prepared), in register order
        "len(FILT) == N",
        "forall(lambda k: implies(spe > 0, FILT[k] == bad[k]), 0, N)",
    ], ["filter-exists-iff-state-preparation-errors", "filter-has-one-entry-per-atom", "filter-is-the-bad-atom-mask"]
    for d in DRIVES:
        ens += [f"self.{d}.shape[0] == NT and self.{d}.shape[1] == N",
                f"forall(lambda t: forall(lambda k: implies({dark}, self.{d}[t, k] == 0), 0, N), 0, NT)",
                f"forall(lambda t: forall(lambda k: implies(not {dark}, self.{d}[t, k] == old(self.{d})[t, k]), 0, N), 0, NT)"]
        names += [f"{d}-keeps-its-shape", f"{d}-of-a-bad-atom-is-zero-at-every-step", f"{d}-of-the-other-atoms-unchanged"]
    ens += [
        "MAT.shape[0] == N and MAT.shape[1] == N",
        "forall(lambda i: forall(lambda j: implies(spe > 0 and (bad[i] or bad[j]), MAT[i, j] == 0), 0, N), 0, N)",
        "forall(lambda i: forall(lambda j: implies(not (spe > 0 and (bad[i] or bad[j])), MAT[i, j] == J0[i, j]), 0, N), 0, N)",
    ]
    names += ["interaction-matrix-keeps-its-shape", "couplings-of-a-bad-atom-are-zero-at-every-time",
              "couplings-between-the-other-atoms-unchanged"]
    reg.add_contract(Contract(
        f"{SVIMPL}:SVBackendImpl.init_dark_qubits", property=prop, label="SVBackendImpl.init_dark_qubits",
        params={"self": none}, setup=setup_dark, post_setup=ghost_dark,
        requires=["N >= 1"], raises={}, ensures=ens, ensures_names=names,
    ), callsite=False)

    # ==== one step: what the stepper is handed for a badly prepared atom ================================
    def setup_step(I, fr):
        ctx = I.ctx
        o = sv_impl(I)
        N = o.ghost_N
        rec = {}

        def stepper_apply(I2, *args):
            rec["args"] = args
            r = (Opaque("new_state_data"), Opaque("new_H"))
            return r
        stepper = SymObj("Stepper", None)
        stepper.fields["apply"] = stepper_apply
        state = SymObj("State", None)
        state.fields["data"] = Opaque("state.data")
        cfg = SymObj("SVConfig", "emu_sv.sv_config")
        cfg.fields["_backend_options"] = {"krylov_tolerance": ctx.fresh("krylov_tolerance", "real")}
        bad = o.fields["_data"].fields["bad_atoms"]
        mats = {}

        def imat(I2, t):
            key = str(z3.simplify(to_z3(t)))
            if key not in mats:
                mats[key] = I2.reg.sym_tensor(I2, I2.ctx.fresh_name("U"), (N, N))
                rec["matrix"] = mats[key]
            return mats[key]
        o.fields.update(stepper=stepper, state=state, _config=cfg, _current_H=None, interaction_matrix=imat,
                        well_prepared_qubits_filter=I.reg.sym_tensor(I, "bad_filter", (N,), "bool"))
        B = ctx.fresh("B", "int")                       # an arbitrary atom
        ctx.assume(z3.And(B >= 0, B < to_z3(N)))
        ctx.ghost["svdark"] = rec
        fr.locals.update(self=o, N=N, NT=o.ghost_T, bad=bad, B=B, REC=rec)

    def ghost_step(I, fr):
        rec = fr.locals["REC"]
        fr.locals["passed"] = lambda I2, k: rec["args"][k]
        fr.locals["matrix_used"] = lambda I2: rec["matrix"]
        # RydbergLindbladian applies EVERY operator of the list it is given to EVERY qubit
        # (emu_sv/lindblad_operator.py: h_eff and __matmul__ loop over range(nqubits) x pulser_lindblads);
        # RydbergHamiltonian ignores the list.  So the number of jump operators acting on atom b is the
        # length of the list handed to the stepper, whatever b.
        fr.locals["jump_operators_on"] = lambda I2, b: X.b_len(I2, rec["args"][7])

    reg.add_class("SVConfig", module="emu_sv.sv_config", getattr_dict="_backend_options", fields={})
    reg.add_contract(Contract(
        f"{SVIMPL}:SVBackendImpl._evolve_step", property=prop, label="SVBackendImpl._evolve_step[dark qubits]",
        params={"self": none, "dt": "real", "step_idx": "int"}, setup=setup_step, post_setup=ghost_step,
        requires=["0 <= step_idx and step_idx < NT",
                  # representation after init_dark_qubits (its postconditions)
                  "forall(lambda k: self.well_prepared_qubits_filter[k] == bad[k], 0, N)"] + [
            f"forall(lambda t: forall(lambda k: implies(bad[k], self.{d}[t, k] == 0), 0, N), 0, NT)" for d in DRIVES],
        raises={},
        ensures=["passed(1)[B] == self.omega[step_idx, B] and passed(2)[B] == self.delta[step_idx, B] "
                 "and passed(3)[B] == self.phi[step_idx, B]",
                 "implies(bad[B], passed(1)[B] == 0 and passed(2)[B] == 0 and passed(3)[B] == 0)",
                 "passed(4) is matrix_used()",
                 # fails on /repo whenever the sequence has Lindblad operators and atom B is badly prepared
                 # (open known finding): the same operator list acts on every atom
                 "implies(bad[B], jump_operators_on(B) == 0)"],
        ensures_names=["stepper-gets-this-step's-drives-of-every-atom", "no-drive-on-a-bad-atom",
                       "stepper-gets-the-backend's-interaction-matrix", "no-jump-operator-acts-on-a-bad-atom"],
    ), callsite=False)
    return [f"{SVIMPL}:SVBackendImpl.init_dark_qubits", f"{SVIMPL}:SVBackendImpl._evolve_step[dark qubits]"]
