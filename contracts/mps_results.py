"""Data flow, part 3: bringing results back to register order (permute_results and its helpers,
MPSBackend._run_from_sequence_data, MPSBackend.resume).  Conventions: contracts/mps_dataflow.py.

While a run is in progress impl.results is in SITE order: atom_order[k] = qubit_ids[perm[k]] and
entry k of every per-atom container belongs to site k.  A finished run must report REGISTER
order: atom_order == qubit_ids and position perm[k] of every container shows what site k held."""
import z3

from pyvc import ops, symstr, tensor as T
from pyvc.registry import Contract
from pyvc.values import ForallV, Opaque, SymObj, SymSeq, Unsupported, to_z3

from . import config as cfgc, mps_dataflow as D, mps_dataflow_sites as S, permutations as P

IMPL, BACKEND = D.IMPL, D.BACKEND
RES = "results._results"
OLD = "old(results._results)"


def element_clauses(new, old, p, n="N", times="TIMES", moved="[{p}[k]]", src="[k]", guard=None):
    """clauses `new container at moved index == old container at src index` for the three tags
    (an optional guard is put in front of the innermost body)"""
    g = (lambda body: body) if guard is None else (lambda body: f"implies({guard}, {body})")
    return [
        f"forall(lambda t: " + g(f"len(bitkey({new}['bitstrings'][t])) == {n}"
                                 f" and bitcount({new}['bitstrings'][t]) == bitcount({old}['bitstrings'][t])")
        + f", 0, {times})",
        f"forall(lambda t: forall(lambda k: " + g(f"bitkey({new}['bitstrings'][t]){moved.format(p=p)}"
                                                  f" == bitkey({old}['bitstrings'][t]){src.format(p=p)}")
        + f", 0, {n}), 0, {times})",
        f"forall(lambda t: forall(lambda k: " + g(f"{new}['occupation'][t]{moved.format(p=p)}"
                                                  f" == {old}['occupation'][t]{src.format(p=p)}")
        + f", 0, {n}), 0, {times})",
    ]


def corr_clause(new, old, p, out_first, n="N", times="TIMES", guard=None):
    g = (lambda body: body) if guard is None else (lambda body: f"implies({guard}, {body})")
    a, b = (f"[{p}[i], {p}[j]]", "[i, j]") if out_first else ("[i, j]", f"[{p}[i], {p}[j]]")
    return (f"forall(lambda t: forall(lambda i: forall(lambda j: "
            + g(f"{new}['correlation_matrix'][t]{a} == {old}['correlation_matrix'][t]{b}")
            + f", 0, {n}), 0, {n}), 0, {times})")


def site_impl(I, N=None, config=None, data=None):
    """an impl object as MPSBackendImpl.__init__ leaves it w.r.t. ordering (its [order] contract):
    perm is a permutation, results.atom_order[k] == qubit_ids[perm[k]], identity unless optimising"""
    o = S.impl_obj(I, N, drives=False) if data is None else None
    if o is None:
        o = SymObj("MPSBackendImpl", IMPL)
        n = data.ghost_N
        o.fields.update(pulser_data=data, qubit_permutation=P.perm_tensor(I, "qubit_permutation", n), qubit_count=n)
        o.ghost_N = n
    if config is not None:
        o.fields["config"] = config
    n = o.ghost_N
    data = o.fields["pulser_data"]
    perm = o.fields["qubit_permutation"]
    ids = data.fields["qubit_ids"]
    order = SymSeq(n, lambda k: ids.fn(perm.fn(k)), "tuple")
    o.fields["results"] = D.results_obj(I, n, atom_order=order, tags=())
    o.fields["autosave_file"] = Opaque("autosave_file")
    opt = o.fields["config"].fields["_backend_options"]["optimize_qubit_ordering"]
    I.add_forall(ForallV(lambda k: ops.b_implies(ops.b_not(opt), ops.equal(perm.fn(k), k)), 0, n, "k"))
    return o


def register(reg, prop):
    none = lambda I, n: None
    reg.ghost_funcs["same"] = lambda I, a, b: a is b
    # private module-level helpers of mps_backend_impl (e.g. a tag-matching helper shared by the
    # permute_* functions) are part of their callers' bodies: inlined, whatever they are called
    import ast as _ast
    for _name, _node in reg.repo.module(IMPL).defs.items():
        if _name.startswith("_") and isinstance(_node, _ast.FunctionDef):
            reg.policies.setdefault(f"{IMPL}:{_name}", "inline")

    # ==== the three helpers: out[k] == in[perm[k]] for every per-atom container ======================
    def setup_helper(tags):
        def _setup(I, fr):
            D.use_interp(I)
            n = P.sym_len(I, "N", 0)
            r = D.results_obj(I, n, tags=tags)
            fr.locals.update(results=r, perm=P.perm_tensor(I, "perm", n), N=n, TIMES=r.ghost_times)
        return _setup

    reg.add_contract(Contract(
        f"{IMPL}:permute_bitstrings", property=prop, label="permute_bitstrings",
        params={"results": none, "perm": none}, setup=setup_helper(("bitstrings",)),
        requires=["isperm(perm)"], raises={},
        ensures=element_clauses(RES, OLD, "perm", moved="[k]", src="[{p}[k]]")[:2]
                + ["same(results.atom_order, old(results.atom_order))"],
    ), callsite=False)
    reg.add_contract(Contract(
        f"{IMPL}:permute_bitstrings", property=prop, label="permute_bitstrings[no bitstrings]",
        params={"results": none, "perm": none}, setup=setup_helper(("occupation",)),
        requires=["isperm(perm)"], raises={},
        ensures=[f"same({RES}['occupation'], {OLD}['occupation'])", f"'bitstrings' not in {RES}"],
    ), callsite=False)
    reg.add_contract(Contract(
        f"{IMPL}:permute_occupations_and_correlations", property=prop,
        label="permute_occupations_and_correlations",
        params={"results": none, "perm": none}, setup=setup_helper(("occupation", "correlation_matrix", "bitstrings")),
        requires=["isperm(perm)"], raises={},
        ensures=[element_clauses(RES, OLD, "perm", moved="[k]", src="[{p}[k]]")[2],
                 corr_clause(RES, OLD, "perm", out_first=False),
                 f"same({RES}['bitstrings'], {OLD}['bitstrings'])"],
    ), callsite=False)
    reg.add_contract(Contract(
        f"{IMPL}:permute_atom_order", property=prop, label="permute_atom_order",
        params={"results": none, "perm": none}, setup=setup_helper(()),
        requires=["isperm(perm)"], raises={},
        ensures=["len(results.atom_order) == N",
                 "forall(lambda k: results.atom_order[k] == old(results.atom_order)[perm[k]], 0, N)"],
    ), callsite=False)

    # ==== permute_results: site order -> register order ================================================
    helpers_inline = {f"{IMPL}:{f}": "inline" for f in
                      ("permute_bitstrings", "permute_occupations_and_correlations", "permute_atom_order")}

    def setup_pr(N=None):
        def _setup(I, fr):
            o = site_impl(I, N)
            n = o.ghost_N
            r = D.results_obj(I, n, atom_order=o.fields["results"].fields["atom_order"])
            fr.locals.update(self=o, results=r, permute=I.ctx.fresh("permute", "bool"), N=n, TIMES=r.ghost_times,
                             perm=o.fields["qubit_permutation"], ids=o.fields["pulser_data"].fields["qubit_ids"])
        return _setup

    register_order = ["implies(permute, len(results.atom_order) == N)",
                      # atoms are listed in register order ...
                      "forall(lambda a: implies(permute, results.atom_order[a] == ids[a]), 0, N)"]
    moved_home = (element_clauses(RES, OLD, "perm", guard="permute")
                  + [corr_clause(RES, OLD, "perm", out_first=True, guard="permute")])

    reg.add_contract(Contract(
        f"{IMPL}:MPSBackendImpl.permute_results", property=prop, label="MPSBackendImpl.permute_results",
        params={"self": none, "results": none, "permute": none}, setup=setup_pr(), policies=helpers_inline,
        requires=["isperm(perm)"], raises={},
        ensures=["result is results"]
                + register_order
                # ... and position perm[k] of every per-atom container shows what site k held
                + moved_home
                + ["implies(not permute, same(results.atom_order, old(results.atom_order)))"]
                + [f"implies(not permute, same({RES}[{tag!r}], {OLD}[{tag!r}]))" for tag in D.ResultsModel.TAGS],
    ), callsite=False)

    # ==== MPSBackend._run_from_sequence_data / MPSBackend.resume ========================================
    def run_model(I, impl):
        """MPSBackend._run(impl): steps to the end; the callbacks fill impl.results with per-site
        data (frame: the ordering fields qubit_permutation, results.atom_order, pulser_data are not
        written by init()/progress() -- checked syntactically by the property's frame scan)"""
        res = impl.fields["results"]
        filled = D.results_obj(I, impl.ghost_N, atom_order=res.fields["atom_order"], name="site_results")
        for k in ("_results", "get_result_tags", "_find_uuid"):
            res.fields[k] = filled.fields[k]
        res.ghost_times = filled.ghost_times
        I.ctx.ghost["site_results"] = dict(filled.fields["_results"])
        I.ctx.ghost["site_times"] = filled.ghost_times
        I.ctx.ghost["run_impl"] = impl
        return res

    def setup_run(N=None):
        def _setup(I, fr):
            data = D.sequence_data(I, N)
            cfg = cfgc.mps_config_obj(I, "config")
            fr.locals.update(sequence_data=data, config=cfg, N=data.ghost_N, ids=data.fields["qubit_ids"])
            I.ctx.ghost["run_data"], I.ctx.ghost["run_config"] = data, cfg
        return _setup

    def ghost_run(I, fr):
        g = I.ctx.ghost
        if "run_impl" in g:
            fr.locals["SITE"] = g["site_results"]
            fr.locals["TIMES"] = g["site_times"]
            fr.locals["perm"] = g["run_impl"].fields["qubit_permutation"]
            fr.locals["ids"] = g["run_impl"].fields["pulser_data"].fields["qubit_ids"]
            fr.locals["N"] = g["run_impl"].ghost_N

    def create_impl_model(I, data, config):
        return site_impl(I, config=config, data=data)

    run_policies = dict(helpers_inline)
    run_policies.update({
        f"{IMPL}:create_impl": create_impl_model,
        f"{IMPL}:MPSBackendImpl.init": lambda I, impl: None,
        f"{BACKEND}:MPSBackend._run": run_model,
        f"{IMPL}:MPSBackendImpl.permute_results": "inline",
    })
    # one clause for the atom order and one for the per-atom containers (one defect -> few failed
    # obligations): register position perm[i] shows what site i held
    new, old = "result._results", "SITE"
    reported = [
        "len(result.atom_order) == N",
        "forall(lambda a: result.atom_order[a] == ids[a], 0, N)",
        "forall(lambda t: forall(lambda i: forall(lambda j: "
        f"len(bitkey({new}['bitstrings'][t])) == N"
        f" and bitcount({new}['bitstrings'][t]) == bitcount({old}['bitstrings'][t])"
        f" and bitkey({new}['bitstrings'][t])[perm[i]] == bitkey({old}['bitstrings'][t])[i]"
        f" and {new}['occupation'][t][perm[i]] == {old}['occupation'][t][i]"
        f" and {new}['correlation_matrix'][t][perm[i], perm[j]] == {old}['correlation_matrix'][t][i, j]"
        ", 0, N), 0, N), 0, TIMES)"]

    # fixed size 4 (decisive counter-models): the atom order, position by position
    reported4 = ["len(result.atom_order) == 4 and "
                 + " and ".join(f"result.atom_order[{a}] == ids[{a}]" for a in range(4))]
    for n in (None, 4):
        tag = "" if n is None else "[N=4]"
        reg.add_contract(Contract(
            f"{BACKEND}:MPSBackend._run_from_sequence_data", property=prop,
            label="MPSBackend._run_from_sequence_data" + tag,
            params={"sequence_data": none, "config": none}, setup=setup_run(n), post_setup=ghost_run,
            policies=run_policies, raises={},
            ensures=reported if n is None else reported4,
        ), callsite=False)

    # resume: the pickled object is an impl of a run in progress (site order)
    def setup_resume(N=None):
        def _setup(I, fr):
            fr.locals["autosave_file"] = Opaque("autosave_path")
            I.ctx.ghost["resume_N"] = N
        return _setup

    def pickle_load(I, f, *a, **k):
        o = site_impl(I, I.ctx.ghost.get("resume_N"))
        I.session.note("pickle.load(autosave): an MPSBackendImpl of a run in progress (site order, as __init__ "
                       "and progress() leave it)")
        return o

    resume_policies = dict(run_policies)
    resume_policies[f"{BACKEND}:init_logging"] = "opaque"
    for n in (None, 4):
        tag = "" if n is None else "[N=4]"
        reg.add_contract(Contract(
            f"{BACKEND}:MPSBackend.resume", property=prop, label="MPSBackend.resume" + tag,
            params={"autosave_file": none}, setup=setup_resume(n), post_setup=ghost_run,
            policies=resume_policies,
            raises={"ValueError": None},
            ensures=reported if n is None else reported4,
        ), callsite=False)
    reg.external["pickle.load"] = pickle_load

    # ==== suffixed result tags (Observable(tag_suffix=...)) ===========================================
    # A result stored under f"{base}_{suffix}" is of the same per-atom kind as `base` and must come
    # home to register order exactly like it; results of other kinds (energy...) must stay untouched.
    TM = D.ResultsModel

    def tag_clause(new, old, tag, p, home, guard=None, n="N", times="TIMES"):
        """one clause per tag: home=True  -> new[..perm[i]..] == old[..i..]   (site -> register order)
                               home=False -> new[..i..] == old[..perm[i]..]   (helper: out[k] = in[perm[k]])"""
        g = (lambda body: body) if guard is None else (lambda body: f"implies({guard}, {body})")
        a1, b1 = (f"[{p}[i]]", "[i]") if home else ("[i]", f"[{p}[i]]")
        a2, b2 = (f"[{p}[i], {p}[j]]", "[i, j]") if home else ("[i, j]", f"[{p}[i], {p}[j]]")
        kind = TM.kind_of(tag)
        if kind == "bitstrings":
            body = (f"len(bitkey({new}[{tag!r}][t])) == {n}"
                    f" and bitcount({new}[{tag!r}][t]) == bitcount({old}[{tag!r}][t])"
                    f" and bitkey({new}[{tag!r}][t]){a1} == bitkey({old}[{tag!r}][t]){b1}")
            return f"forall(lambda t: forall(lambda i: {g(body)}, 0, {n}), 0, {times})"
        if kind == "occupation":
            return (f"forall(lambda t: forall(lambda i: " + g(f"{new}[{tag!r}][t]{a1} == {old}[{tag!r}][t]{b1}")
                    + f", 0, {n}), 0, {times})")
        if kind == "correlation_matrix":
            return (f"forall(lambda t: forall(lambda i: forall(lambda j: "
                    + g(f"{new}[{tag!r}][t]{a2} == {old}[{tag!r}][t]{b2}") + f", 0, {n}), 0, {n}), 0, {times})")
        return f"same({new}[{tag!r}], {old}[{tag!r}])"          # not per atom: the very same data

    def setup_helper_all(I, fr):
        D.use_interp(I)
        n = P.sym_len(I, "N", 0)
        r = D.results_obj(I, n, tags=TM.ALL_TAGS)
        fr.locals.update(results=r, perm=P.perm_tensor(I, "perm", n), N=n, TIMES=r.ghost_times)

    bit_tags = [t for t in TM.ALL_TAGS if TM.kind_of(t) == "bitstrings"]
    vec_tags = [t for t in TM.ALL_TAGS if TM.kind_of(t) in ("occupation", "correlation_matrix")]
    reg.add_contract(Contract(
        f"{IMPL}:permute_bitstrings", property=prop, label="permute_bitstrings[tag_suffix]",
        params={"results": none, "perm": none}, setup=setup_helper_all,
        requires=["isperm(perm)"], raises={},
        # every bitstring result, exact tag or suffixed, is permuted; everything else is left alone
        ensures=[tag_clause(RES, OLD, t, "perm", home=False) for t in bit_tags]
                + [f"same({RES}[{t!r}], {OLD}[{t!r}])" for t in TM.ALL_TAGS if t not in bit_tags],
    ), callsite=False)
    reg.add_contract(Contract(
        f"{IMPL}:permute_occupations_and_correlations", property=prop,
        label="permute_occupations_and_correlations[tag_suffix]",
        params={"results": none, "perm": none}, setup=setup_helper_all,
        requires=["isperm(perm)"], raises={},
        ensures=[tag_clause(RES, OLD, t, "perm", home=False) for t in vec_tags]
                + [f"same({RES}[{t!r}], {OLD}[{t!r}])" for t in TM.ALL_TAGS if t not in vec_tags],
    ), callsite=False)

    per_atom = [t for t in TM.ALL_TAGS if TM.kind_of(t) is not None]
    suffixed = [t for t in per_atom if t not in TM.TAGS]
    other = [t for t in TM.ALL_TAGS if TM.kind_of(t) is None]

    def setup_pr_all(N=None):
        def _setup(I, fr):
            o = site_impl(I, N)
            n = o.ghost_N
            r = D.results_obj(I, n, atom_order=o.fields["results"].fields["atom_order"], tags=TM.ALL_TAGS)
            fr.locals.update(self=o, results=r, permute=I.ctx.fresh("permute", "bool"), N=n, TIMES=r.ghost_times,
                             perm=o.fields["qubit_permutation"], ids=o.fields["pulser_data"].fields["qubit_ids"])
        return _setup

    reg.add_contract(Contract(
        f"{IMPL}:MPSBackendImpl.permute_results", property=prop, label="MPSBackendImpl.permute_results[tag_suffix]",
        params={"self": none, "results": none, "permute": none}, setup=setup_pr_all(), policies=helpers_inline,
        requires=["isperm(perm)"], raises={},
        ensures=register_order
                # moved_home for EVERY per-atom tag, exact or suffixed
                + [tag_clause(RES, OLD, t, "perm", home=True, guard="permute") for t in per_atom]
                + [f"implies(not permute, same({RES}[{t!r}], {OLD}[{t!r}]))" for t in per_atom]
                # results that are not per atom are never touched
                + [f"same({RES}[{t!r}], {OLD}[{t!r}])" for t in other],
    ), callsite=False)

    # a finished / resumed run whose observables carry tag suffixes
    def run_model_all(I, impl):
        res = impl.fields["results"]
        filled = D.results_obj(I, impl.ghost_N, atom_order=res.fields["atom_order"], name="site_results",
                               tags=TM.ALL_TAGS)
        for k in ("_results", "get_result_tags", "_find_uuid"):
            res.fields[k] = filled.fields[k]
        res.ghost_times = filled.ghost_times
        I.ctx.ghost["site_results"] = dict(filled.fields["_results"])
        I.ctx.ghost["site_times"] = filled.ghost_times
        I.ctx.ghost["run_impl"] = impl
        return res

    run_policies_all = dict(run_policies)
    run_policies_all[f"{BACKEND}:MPSBackend._run"] = run_model_all
    resume_policies_all = dict(resume_policies)
    resume_policies_all[f"{BACKEND}:MPSBackend._run"] = run_model_all
    reported_suffix = ([tag_clause("result._results", "SITE", t, "perm", home=True) for t in suffixed]
                       + [f"same(result._results[{t!r}], SITE[{t!r}])" for t in other])
    # fixed size 4: one suffixed occupation, position by position (decisive counter-model on a broken tree)
    reported_suffix4 = ["forall(lambda t: " + " and ".join(
        f"result._results['occupation_x'][t][perm[{k}]] == SITE['occupation_x'][t][{k}]" for k in range(4))
        + ", 0, TIMES)"]
    for n in (None, 4):
        tag = "[tag_suffix]" if n is None else "[tag_suffix,N=4]"
        reg.add_contract(Contract(
            f"{BACKEND}:MPSBackend._run_from_sequence_data", property=prop,
            label="MPSBackend._run_from_sequence_data" + tag,
            params={"sequence_data": none, "config": none}, setup=setup_run(n), post_setup=ghost_run,
            policies=run_policies_all, raises={},
            ensures=reported_suffix if n is None else reported_suffix4,
        ), callsite=False)
        reg.add_contract(Contract(
            f"{BACKEND}:MPSBackend.resume", property=prop, label="MPSBackend.resume" + tag,
            params={"autosave_file": none}, setup=setup_resume(n), post_setup=ghost_run,
            policies=resume_policies_all, raises={"ValueError": None},
            ensures=reported_suffix if n is None else reported_suffix4,
        ), callsite=False)
