"""Contracts for emu_base/math/brents_root_finding.py (property C19; used by C18)."""
import z3

from pyvc.paths import NeedFork
from pyvc.registry import Contract
from pyvc.values import to_z3

MOD = "emu_base.math.brents_root_finding"

# class invariant J: what every method may rely on between calls
J = [
    "self.epsilon > 0",
    "self.fa != 0 or self.a == self.b",      # both ordinates zero only on a collapsed bracket
    "self.fc != 0",
    "self.fa * self.fb <= 0",
    "abs(self.fb) <= abs(self.fa)",
    "self.lo0 <= min(self.a, self.b)",
    "max(self.a, self.b) <= self.hi0",
]

FIELDS = {"a": "real", "b": "real", "c": "real", "d": "real", "fa": "real", "fb": "real",
          "fc": "real", "epsilon": "real", "bisection": "bool", "current_guess": "real",
          "next_abscissa": "real?",
          # ghost: the constructor's bracket (never written by the code)
          "lo0": "real", "hi0": "real"}


def _ghost_bracket(I, fr):
    s = fr.locals["self"]
    s.fields["lo0"] = fr.locals["start"]
    s.fields["hi0"] = fr.locals["end"]


def register(reg, prop="C19"):
    reg.add_class("BrentsRootFinder", module=MOD, fields=FIELDS, invariant=J)

    reg.add_contract(Contract(
        f"{MOD}:BrentsRootFinder.__init__", property=prop,
        params={"self": "obj:BrentsRootFinder", "start": "real", "end": "real",
                "f_start": "real", "f_end": "real", "epsilon": "real"},
        setup=_ghost_bracket, fresh_self=True,
        # opposite signs, or an exact root at one end (not at both)
        requires=["start <= end", "f_start * f_end <= 0", "f_start != 0 or f_end != 0", "epsilon > 0"],
        ensures=["inv(self)", "self.fa != 0",
                 "self.lo0 == start and self.hi0 == end",
                 "min(self.a, self.b) == start and max(self.a, self.b) == end",
                 "(self.a == start and self.fa == f_start and self.b == end and self.fb == f_end) or "
                 "(self.a == end and self.fa == f_end and self.b == start and self.fb == f_start)",
                 "self.current_guess == self.b", "self.next_abscissa is None",
                 "self.epsilon == epsilon"],
    ))

    reg.add_contract(Contract(
        f"{MOD}:BrentsRootFinder.get_next_abscissa", property=prop,
        params={"self": "obj:BrentsRootFinder"},
        requires=["inv(self)", "self.a != self.b"],        # i.e. not converged
        modifies=["self.next_abscissa", "self.c", "self.d", "self.fc", "self.bisection"],
        returns="real",
        ensures=["min(self.a, self.b) <= result", "result <= max(self.a, self.b)",
                 "self.next_abscissa is not None and self.next_abscissa == result",
                 "self.a == old(self.a) and self.b == old(self.b)",
                 "self.fa == old(self.fa) and self.fb == old(self.fb)",
                 "self.epsilon == old(self.epsilon)",
                 "self.lo0 == old(self.lo0) and self.hi0 == old(self.hi0)",
                 "self.current_guess == old(self.current_guess)",
                 "inv(self)",
                 # once b is an exact root it is queried again (no second zero elsewhere)
                 "implies(self.fb == 0, result == self.b)",
                 "implies(self.fb != 0, self.c == self.b and self.fc == self.fb)",
                 # a bisection step is the midpoint
                 "implies(self.fb != 0 and self.bisection, 2 * result == self.a + self.b)",
                 # an accepted interpolation step stays within 3/4 of the bracket from b
                 "implies(self.fb != 0 and not self.bisection,"
                 " abs(result - self.b) < abs(3 * (self.a - self.b) / 4))"],
    ))

    reg.add_contract(Contract(
        f"{MOD}:BrentsRootFinder.provide_ordinate", property=prop,
        params={"self": "obj:BrentsRootFinder", "abscissa": "real", "ordinate": "real"},
        requires=["inv(self)", "self.a != self.b", "implies(self.fb == 0, abscissa == self.b)",
                  "self.next_abscissa is not None", "abscissa == self.next_abscissa",
                  "min(self.a, self.b) <= abscissa", "abscissa <= max(self.a, self.b)"],
        modifies=["self.a", "self.b", "self.fa", "self.fb", "self.current_guess"],
        ensures=["inv(self)",
                 "min(old(self.a), old(self.b)) <= min(self.a, self.b)",
                 "max(self.a, self.b) <= max(old(self.a), old(self.b))",
                 "self.current_guess == self.b",
                 # the new end points are old end points or the evaluated abscissa, with their ordinates
                 "(self.b == abscissa and self.fb == ordinate) or (self.a == abscissa and self.fa == ordinate)",
                 "(self.a == old(self.a) and self.fa == old(self.fa)) or (self.a == old(self.b) and self.fa == old(self.fb))"
                 " or (self.a == abscissa and self.fa == ordinate)",
                 "(self.b == old(self.a) and self.fb == old(self.fa)) or (self.b == old(self.b) and self.fb == old(self.fb))"
                 " or (self.b == abscissa and self.fb == ordinate)",
                 "self.epsilon == old(self.epsilon) and self.fc == old(self.fc)",
                 "self.lo0 == old(self.lo0) and self.hi0 == old(self.hi0)"],
    ))

    reg.add_contract(Contract(
        f"{MOD}:BrentsRootFinder.is_converged", property=prop,
        params={"self": "obj:BrentsRootFinder", "tolerance": "real"},
        requires=[], returns="bool", pure=True,
        ensures=["result == (abs(self.b - self.a) < tolerance)"],
    ))

    # ---- find_root_brents: f is an arbitrary real function F; every query is checked --------
    def setup_f(I, fr):
        F = z3.Function("F", z3.RealSort(), z3.RealSort())
        start, end = fr.locals["start"], fr.locals["end"]

        def f(I2, x):
            if I2.ctx.speculative:
                raise NeedFork()
            I2.ctx.prove("query-inside-interval", z3.And(to_z3(start) <= to_z3(x), to_z3(x) <= to_z3(end)),
                         "safety")
            return F(to_z3(x))
        fr.locals["f"] = f
        fr.locals["F"] = lambda I2, x: F(to_z3(x))

    reg.add_contract(Contract(
        f"{MOD}:find_root_brents", property=prop,
        params={"f": "opaque", "start": "real", "end": "real", "f_start": "real?", "f_end": "real?",
                "tolerance": "real", "epsilon": "real"},
        setup=setup_f,
        requires=["start <= end", "tolerance > 0", "epsilon > 0",
                  "implies(f_start is not None, f_start == F(start))",
                  "implies(f_end is not None, f_end == F(end))",
                  "F(start) * F(end) < 0"],
        loops={0: dict(
            invariant=["inv(root_finder)",
                       "root_finder.lo0 == start and root_finder.hi0 == end",
                       "root_finder.fa == F(root_finder.a) and root_finder.fb == F(root_finder.b)",
                       "root_finder.current_guess == root_finder.b"],
            modifies=["root_finder.*"])},
        returns="real",
        ensures=["start <= result and result <= end",
                 # within tolerance of a sign change: an exact zero, or one end of a bracket narrower
                 # than the tolerance whose end values have opposite (or zero) sign
                 "F(result) == 0 or (F(result) * F(witness(result)) <= 0 and abs(result - witness(result)) < tolerance"
                 " and start <= witness(result) and witness(result) <= end)"],
        post_setup=lambda I, fr: fr.locals.__setitem__(
            "witness", lambda I2, r: I2.reg.hooks["last_frame"].locals["root_finder"].fields["a"]),
    ))
