"""C02: after a completed time step the Hamiltonian the next step evolves under carries the drives of
THAT step.

make_H builds an MPO with the interaction terms only (single-qubit terms zero); hamiltonian.update_H
writes the drive terms of one step into an existing MPO.  So whenever MPSBackendImpl.timestep_complete
rebuilds the MPO (the interaction matrix changed: an SLM mask ended), update_H has to run AFTER the
rebuild.  Ghost state on the Hamiltonian object: `drives_of` = the step index whose drives it holds
(-1 right after make_H: none)."""
import z3

from pyvc.registry import Contract
from pyvc.values import Opaque, SymObj, to_z3

from . import mps_dataflow as D, mps_dataflow_sites as S

IMPL = D.IMPL
HAM = "emu_mps.hamiltonian"


def register(reg, prop):
    none = lambda I, n: None
    reg.add_class("NoisyMPSBackendImpl", module=IMPL, fields={})

    def make_H_model(I, *a, **kw):
        h = SymObj("MPO", None)
        h.fields["drives_of"] = -1                          # interaction terms only
        h.fields["built_from"] = kw.get("interaction_matrix", a[0] if a else None)
        return h

    def update_H_model(I, **kw):
        h = kw["hamiltonian"]
        impl = I.ctx.ghost["impl"]
        h.fields["drives_of"] = impl.fields["_timestep_index"]      # (that the row handed over is row
        return None                                                 #  _timestep_index is update_H's own contract)

    def is_finished_model(I, self):
        fin = I.ctx.ghost["finished"]
        return fin

    def setup_for(cls):
      def setup(I, fr):
        ctx = I.ctx
        o0 = S.impl_obj(I)
        o = SymObj(cls, IMPL)
        o.fields.update(o0.fields)
        o.ghost_N, o.ghost_T = o0.ghost_N, o0.ghost_T
        h0 = SymObj("MPO", None)
        h0.fields["drives_of"] = ctx.fresh("previous_step", "int")
        h0.fields["built_from"] = Opaque("old matrix")
        o.fields["hamiltonian"] = h0
        o.fields["current_interaction_matrix"] = Opaque("current_interaction_matrix")
        o.fields["statistics"] = Opaque("statistics")
        o.fields["time"] = ctx.fresh("time0", "real")
        o.fields["state"] = Opaque("state")
        o.fields["results"] = Opaque("results")
        fin = ctx.fresh("finished_after_this_step", "bool")
        ctx.ghost["finished"] = fin
        ctx.ghost["impl"] = o
        idx = to_z3(o.fields["_timestep_index"])
        n_tt = to_z3(o.fields["target_times"].length)
        # not finished after the increment  <=>  there is a further target time
        ctx.assume(z3.And(idx >= 0, idx + 2 <= n_tt, fin == (idx + 2 == n_tt)))
        fr.locals.update(self=o, finished=fin)
      return setup
    policies = {
        f"{IMPL}:MPSBackendImpl.fill_results": lambda I, self: None,
        f"{IMPL}:MPSBackendImpl._get_interaction_matrix": lambda I, self: Opaque(I.ctx.fresh_name("interaction matrix at the new time")),
        f"{IMPL}:MPSBackendImpl.is_finished": is_finished_model,
        f"{IMPL}:MPSBackendImpl.init_baths": lambda I, self: None,
        f"{IMPL}:MPSBackendImpl.update_H": "inline",
        f"{IMPL}:MPSBackendImpl.update_H_no_noise": "inline",
        f"{IMPL}:MPSBackendImpl.timestep_complete": "inline",
        f"{HAM}:make_H": make_H_model,
        f"{HAM}:update_H": update_H_model,
    }
    for k in [k for k in policies if ":MPSBackendImpl." in k]:
        policies[k.replace(":MPSBackendImpl.", ":NoisyMPSBackendImpl.")] = policies[k]
    keys = []
    # (NoisyMPSBackendImpl.timestep_complete is `self.update_H_no_noise(); super().timestep_complete()`: the engine
    #  does not resolve the inherited methods through super() for this class; listed as not decided)
    for cls in ("MPSBackendImpl",):
        label = f"{cls}.timestep_complete[hamiltonian of the next step]"
        reg.add_contract(Contract(
            f"{IMPL}:{cls}.timestep_complete", property=prop, label=label,
            params={"self": none}, setup=setup_for(cls), policies=dict(policies), raises={},
            requires=["self.target_times[len(self.target_times) - 1] > 0"],
            ensures=["self._timestep_index == old(self._timestep_index) + 1",
                     # the MPO the next step evolves under holds the drive terms of that step -- also when it
                     # has just been rebuilt because the interaction matrix changed (SLM mask lifted)
                     "implies(not finished, self.hamiltonian.drives_of == self._timestep_index)",
                     "implies(not finished, self.target_time == self.target_times[self._timestep_index + 1])"],
            ensures_names=["step-index-advanced", "next-step-hamiltonian-carries-its-drives", "target-time-of-the-next-step"],
        ), callsite=False)
        keys.append(f"{IMPL}:{label}")
    return keys
