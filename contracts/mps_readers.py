"""Readers of an MPS: the structural clauses that make the local formulas valid
(C13, MPS part: expect_batch, get_correlation_matrix, entanglement_entropy, the emu-mps observable
callbacks; C15, MPS part: the conditional sweep of MPS.sample).

Built on the factor-list model of contracts/mps_canon.py (FactorList / AT / Canon ghost state).
Numerical kernels stay uninterpreted (A4).  What a reader reports is an uninterpreted function of
the SITE it was computed at,

    expect1(i, k)   <psi| op_k at site i |psi>   for the operator batch handed to expect_batch
    corr2(i, j)     <psi| op_i op_j |psi>, i <= j
    entropy(b)      von Neumann entropy of the cut between sites b and b+1

and the value handed out is that term ONLY through a contraction whose structural side conditions
are proved as named obligations at the point where the local tensor is contracted:

  * `contracted-tensor-is-a-centre`: the tensor is the centre of a canonical gauge of the SAME state:
    either the list's own factor at the declared centre, or a *virtual centre* obtained from one by
    QR steps whose R is carried to the neighbouring factor of the list (expect_batch never writes
    the list), visiting the sites one by one;
  * `...-environment-is-identity`: all factors of the list left of the covered interval are
    left-orthonormal and all right of it right-orthonormal (Canon w.r.t. the declared centre);
  * site order: an environment / accumulator that has absorbed sites a..u only accepts site u + 1.

Trusted (linear algebra, not mechanised): in a canonical MPS the expectation of a one-site operator
is its contraction with the centre tensor; a two-site correlation is the transfer of the left
operator's environment through the sites in between, closed with the right operator; the singular
values of the centre tensor viewed (left*phys | right) are the Schmidt values of that cut; the
squared norms of the branches of the sampling accumulator are the conditional marginals when
everything to the right is right-orthonormal.  Proved: that the code is in exactly that situation
whenever it reads a number, that output index i holds the number of site i, that the list still
represents the same state on return (gauge moves only) and that the declared centre is truthful."""
import ast
import itertools
from fractions import Fraction

import z3

from pyvc import intrinsics as X, ops, tensor as T
from pyvc.ghost import rec_function
from pyvc.interp import RaiseSig
from pyvc.paths import NeedFork
from pyvc.registry import Contract
from pyvc.values import CplxV, ForallV, Opaque, SymObj, SymSeq, Unsupported, is_num, is_z3, to_z3

from . import mps_canon as MC
from .mps_canon import AT, BONDS, CANON_IN, FACTOR_FRAME, FactorList, MPSMOD, mps_obj

CBMOD = "emu_mps.custom_callback_implementations"
OBSMOD = "emu_mps.observables"
UTILS = MC.UTILS
_ids = itertools.count(1)

EXP1 = z3.Function("expect1", z3.IntSort(), z3.IntSort(), z3.RealSort())
CORR = z3.Function("corr2", z3.IntSort(), z3.IntSort(), z3.RealSort())
ENT = z3.Function("entropy", z3.IntSort(), z3.RealSort())
MPO_RE = z3.Function("mpo_expect_re", z3.IntSort(), z3.IntSort(), z3.RealSort())
MPO_IM = z3.Function("mpo_expect_im", z3.IntSort(), z3.IntSort(), z3.RealSort())
MPO_MM = z3.Function("mpo_matmul", z3.IntSort(), z3.IntSort(), z3.IntSort())


def _uf(I, f, *args):
    az = [to_z3(a) for a in args]
    I.saw_read(f.name(), tuple(az))
    return f(*az)


# ---------------------------------------------------------------------------------------------
# abstract intermediates
# ---------------------------------------------------------------------------------------------
class Gh(SymObj):
    """intermediate tensor of a reader: a kind and symbolic ghost tags (ints / Booleans)"""
    binop_first = True

    def __init__(self, kind, flist=None, **tags):
        super().__init__("Ghosted", None)
        self.kind, self.flist, self.tags = kind, flist, tags
        f = self.fields
        for nm in ("to", "cpu", "contiguous", "clone", "detach"):
            f[nm] = lambda I, *a, **k: self
        f["device"] = Opaque("device")
        f["dtype"] = Opaque("dtype")
        f["trace"] = self._trace
        f["view"] = self._view

    def havoc(self, I, name):
        ctx = I.ctx
        new = {}
        for k, v in self.tags.items():
            if isinstance(v, bool) or (is_z3(v) and z3.is_bool(v)):
                new[k] = ctx.fresh(f"{name}.{k}", "bool")
            else:
                new[k] = ctx.fresh(f"{name}.{k}", "int")
        return Gh(self.kind, self.flist, **new)

    def binop(self, I, op, other, reflected):
        if op is ast.Pow and not reflected and self.kind in ("prob", "spec"):
            return self                   # element-wise power: same provenance
        raise Unsupported(f"operator {op.__name__} on an abstract {self.kind}")

    # value readers ------------------------------------------------------------------------------
    def _trace(self, I):
        """closing an environment: trace over the (ket, bra) right bond"""
        t = self.tags
        F = self.flist
        if self.kind == "env":
            I.ctx.prove("diagonal-entry-closes-at-its-own-site", to_z3(ops.equal(t["upto"], t["a"])), "safety")
            last = t["upto"]
        elif self.kind == "closed":
            last = t["r"]
        else:
            raise Unsupported(f"trace of an abstract {self.kind}")
        I.ctx.prove("contracted-tensors-are-the-list-factors-in-order", to_z3(t["ok"]), "safety")
        iso, N = F.fields["iso"], F.fields["N"]
        I.reg.prove_clause(I, "right-environment-is-identity",
                           ForallV(lambda j: ops.equal(iso.at(j), 2), ops.add(last, 1), N, "j"), "safety")
        return Val(_uf(I, CORR, t["a"], last))

    def _view(self, I, *shape):
        if self.kind == "mpoacc" and tuple(shape) == (1,):
            return self
        raise Unsupported(f"view of an abstract {self.kind}")

    def getitem(self, I, idx):
        ctx = I.ctx
        t = self.tags
        if self.kind == "mpoacc" and idx == 0:
            ctx.prove("every-site-contracted-once-in-order", to_z3(ops.b_and(t["ok"], ops.equal(t["upto"], t["n"]))),
                      "safety")
            return CVal(CplxV(_uf(I, MPO_RE, t["hid"], t["sid"]), _uf(I, MPO_IM, t["hid"], t["sid"])))
        if self.kind == "acc" and isinstance(idx, tuple) and len(idx) == 3 and isinstance(idx[2], T.SliceV) \
                and isinstance(idx[0], T.LamTensor) and isinstance(idx[1], T.LamTensor):
            # batched_accumulator[rangebatch, outcomes, :]: every shot keeps the branch of ITS outcome
            ctx.prove("accumulator-holds-the-open-site", to_z3(t["open"]), "safety")
            b = ctx.fresh("shot", "int")
            ctx.assume(z3.And(b >= 0, b < to_z3(idx[0].shape[0])))
            drawn = ctx.ghost.get("c15_drawn")
            if drawn is None:
                raise Unsupported("sampling accumulator outside the C15 model")
            ctx.prove("branch-kept-is-the-outcome-drawn-at-this-site",
                      z3.And(to_z3(idx[0].fn(b)) == b, to_z3(idx[1].fn(b)) == drawn(to_z3(t["site"]), b)), "safety")
            return Gh("acc", self.flist, upto=ops.add(t["site"], 1), site=t["site"], open=False, ok=t["ok"])
        raise Unsupported(f"indexing of an abstract {self.kind}")


class Val(SymObj):
    """0-d tensor holding a reported real number"""
    binop_first = True

    def __init__(self, val):
        super().__init__("Val", None)
        self.val = val
        f = self.fields
        for nm in ("to", "cpu", "clone", "detach"):
            f[nm] = lambda I, *a, **k: self
        f["item"] = lambda I: self.val
        f["real"] = self

    def binop(self, I, op, other, reflected):
        o = other.val if isinstance(other, Val) else other
        return I.binop(op, o, self.val) if reflected else I.binop(op, self.val, o)


class CVal(SymObj):
    """0-d complex tensor"""
    binop_first = True

    def __init__(self, c):
        super().__init__("CVal", None)
        self.c = CplxV.of(c)
        f = self.fields
        for nm in ("to", "cpu", "clone", "detach"):
            f[nm] = lambda I, *a, **k: self
        f["real"] = self.c.re
        f["imag"] = self.c.im

    def binop(self, I, op, other, reflected):
        o = other.c if isinstance(other, CVal) else other
        a, b = (o, self.c) if reflected else (self.c, o)
        if op is ast.Pow:
            return CVal(ops.power(a, b))
        r = {ast.Add: ops.add, ast.Sub: ops.sub, ast.Mult: ops.mul}.get(op)
        if r is None:
            raise Unsupported(f"operator {op.__name__} on a complex scalar")
        return CVal(r(a, b))


# ---------------------------------------------------------------------------------------------
# virtual centres (expect_batch carries the centre along without writing the list)
# ---------------------------------------------------------------------------------------------
def _site_of(I, at):
    """(list, site index, the value is what the list holds now) for a factor read from a list"""
    o = getattr(at, "origin", None)
    F = getattr(at, "flist", None)
    if F is None or not (isinstance(o, tuple) and o[0] == "site"):
        return None
    return F, o[2], F._current(I, o, o[2])


def vtags(I, at):
    """(centre site, covered interval lo, hi, valid) of a tensor that is the centre of a canonical gauge"""
    if hasattr(at, "vc"):
        return at.vc, at.vlo, at.vhi, at.vok
    s = _site_of(I, at)
    if s is None:
        return None
    return s[1], s[1], s[1], s[2]


def _g_v(k):
    def g(I, at):
        t = vtags(I, at)
        if t is None:
            raise Unsupported("virtual-centre tag of a tensor that is not one")
        return t[k]
    return g


def _centre_obligations(I, F, lo, hi, ok, what):
    iso, N = F.fields["iso"], F.fields["N"]
    I.ctx.prove("contracted-tensor-is-a-centre", to_z3(ok), "safety")
    I.reg.prove_clause(I, f"{what}/left-environment-is-identity",
                       ForallV(lambda j: ops.equal(iso.at(j), 1), 0, lo, "j"), "safety")
    I.reg.prove_clause(I, f"{what}/right-environment-is-identity",
                       ForallV(lambda j: ops.equal(iso.at(j), 2), ops.add(hi, 1), N, "j"), "safety")


def _norm_dims(dims, a_rank):
    if isinstance(dims, int):
        return (list(range(a_rank - dims, a_rank)), list(range(dims)))
    x, y = dims
    x = list(x) if isinstance(x, (list, tuple)) else [x]
    y = list(y) if isinstance(y, (list, tuple)) else [y]
    if not all(isinstance(v, int) for v in x + y):
        raise Unsupported("tensordot with symbolic axes")
    return (x, y)


def _rank(v):
    if isinstance(v, AT):
        return len(v.fields["shape"])
    if isinstance(v, T.LamTensor):
        return v.ndim
    return None


def r_tensordot(I, a, b, dims=2):
    ctx = I.ctx
    if not any(isinstance(v, (AT, Gh)) for v in (a, b)):
        # nothing of the factor-list model involved (e.g. the opaque-algebra contracts of C15)
        if ctx.speculative:
            raise NeedFork()
        I.session.note("external call: torch.tensordot (result unconstrained, arguments assumed unchanged)")
        return Opaque(ctx.fresh_name("torch.tensordot"))
    ra = _rank(a)
    d = _norm_dims(dims, ra) if ra is not None else (_norm_dims(dims, 2) if isinstance(dims, int) else _norm_dims(dims, 0))
    # ---- reduced density matrix of a (virtual) centre: conj(c) x c over both bonds -----------------
    if isinstance(a, AT) and isinstance(b, AT) and d == ([0, 2], [0, 2]) and ra == 3:
        base = b if getattr(a, "conj_of", None) is b else (a if getattr(b, "conj_of", None) is a else None)
        if base is None:
            raise Unsupported("tensordot(x, y, ([0,2],[0,2])) where neither is the conjugate of the other")
        tg = vtags(I, base)
        F = getattr(base, "flist", None)
        if tg is None or F is None:
            ctx.prove("contracted-tensor-is-a-centre", z3.BoolVal(False), "safety")
            raise Unsupported("reduced density matrix of a tensor that is not a (virtual) centre")
        vc, lo, hi, ok = tg
        _centre_obligations(I, F, lo, hi, ok, "one-site-contraction")
        return Gh("rdm", F, site=vc)
    # ---- operators x reduced density matrix: the reported one-site expectations ----------------------
    if isinstance(b, Gh) and b.kind == "rdm" and isinstance(dims, int) and dims == 2:
        site = b.tags["site"]
        if isinstance(a, T.LamTensor) and a.ndim == 3:
            K = a.shape[0]
        else:
            K = ctx.fresh("n_operators", "int")
            ctx.assume(K >= 0)
        return T.LamTensor((K,), lambda k: _uf(I, EXP1, site, k), "real")
    # ---- correlation matrix ----------------------------------------------------------------------------
    if isinstance(a, AT) and ra == 3 and not isinstance(b, (AT, Gh)) and d == ([1], [0]):
        s = _site_of(I, a)
        if s is None:
            raise Unsupported("operator applied to a tensor that is not a factor of the list")
        return Gh("opsite", s[0], site=s[1], ok=s[2])
    if isinstance(a, Gh) and a.kind == "opsite" and isinstance(b, AT) and d == ([0, 2], [0, 1]):
        s = _site_of(I, getattr(b, "conj_of", None))
        if s is None:
            raise Unsupported("bra side of the correlation start is not the conjugate of a list factor")
        site = a.tags["site"]
        ok = ops.b_and(a.tags["ok"], s[2], ops.equal(s[1], site))
        _centre_obligations(I, s[0], site, site, ok, "correlation-start")
        return Gh("env", s[0], a=site, upto=site, ok=True)
    if isinstance(a, Gh) and a.kind == "env" and isinstance(b, AT) and d == ([0], [0]):
        s = _site_of(I, b)
        if s is None:
            raise Unsupported("environment contracted with a tensor that is not a factor of the list")
        return Gh("partial1", s[0], a=a.tags["a"], upto=a.tags["upto"], r=s[1], ok=ops.b_and(a.tags["ok"], s[2]))
    if isinstance(a, Gh) and a.kind == "partial1" and isinstance(b, AT) and d == ([0], [0]):
        s = _site_of(I, getattr(b, "conj_of", None))
        if s is None:
            raise Unsupported("bra side of the transfer step is not the conjugate of a list factor")
        t = a.tags
        # site order: an environment that has absorbed a..upto accepts site upto + 1, ket and bra alike
        ok = ops.b_and(t["ok"], s[2], ops.equal(s[1], t["r"]), ops.equal(t["r"], ops.add(t["upto"], 1)))
        return Gh("partial2", s[0], a=t["a"], r=t["r"], ok=ok)
    if isinstance(a, Gh) and a.kind == "partial2" and not isinstance(b, (AT, Gh)) and d == ([0, 2], [0, 1]):
        return Gh("closed", a.flist, a=a.tags["a"], r=a.tags["r"], ok=a.tags["ok"])
    # ---- sampling sweep: accumulated left environment of the sampled outcomes x next factor ------------
    if isinstance(a, Gh) and a.kind == "acc" and isinstance(b, AT) and isinstance(dims, int) and dims == 1:
        s = _site_of(I, b)
        if s is None:
            raise Unsupported("sampling accumulator contracted with a tensor that is not a factor of the list")
        t = a.tags
        ok = ops.b_and(t["ok"], s[2], ops.b_not(t["open"]), ops.equal(s[1], t["upto"]))
        ctx.prove("sites-absorbed-left-to-right-once", to_z3(ok), "safety")
        return Gh("acc", s[0], upto=t["upto"], site=s[1], open=True, ok=True)
    if any(isinstance(v, Gh) for v in (a, b)):
        raise Unsupported(f"tensordot pattern on abstract intermediates ({getattr(a, 'kind', type(a).__name__)}, "
                          f"{getattr(b, 'kind', type(b).__name__)}, {dims}) outside the reader model")
    # ---- gauge algebra of the factor-list model; then: does the result carry a virtual centre on? ---------
    r = MC.m_tensordot(I, a, b, dims)
    o = r.origin
    if o[0] in ("absorbL", "absorbR") and isinstance(o[2], tuple) and o[2][0] == "qr_r":
        src = ctx.ghost["qrs"][o[2][1]].get("src_at")
        fac = b if o[0] == "absorbL" else a
        s = _site_of(I, fac)
        cf = None
        if o[0] == "absorbL" and not o[3] and src is not None and src.origin[0] == "view" and src.origin[2] == "xy|z":
            cf, step = getattr(src, "base", None), 1
        if o[0] == "absorbR" and o[3] and src is not None and src.origin[0] == "mT":
            v = getattr(src, "base", None)
            if v is not None and v.origin[0] == "view" and v.origin[2] == "x|yz":
                cf, step = getattr(v, "base", None), -1
        tg = vtags(I, cf) if cf is not None else None
        if tg is not None and s is not None:
            vc, lo, hi, ok = tg
            j = s[1]
            edge = hi if step > 0 else lo
            r.vc = j
            r.vlo, r.vhi = (lo, j) if step > 0 else (j, hi)
            r.vok = ops.b_and(ok, s[2], ops.equal(vc, edge), ops.equal(j, ops.add(vc, step)))
            r.flist = s[0]
    return r


# ---------------------------------------------------------------------------------------------
# further kernels
# ---------------------------------------------------------------------------------------------
def m_zeros(I, *shape, dtype=None, device=None):
    """result tables: the entries are abstract reals (complex dtype is not tracked: every number a
    reader stores is one uninterpreted real)"""
    if len(shape) == 1 and isinstance(shape[0], (tuple, list)):
        shape = tuple(shape[0])
    shape = tuple(X._scalar(s) for s in shape)
    return T.const_tensor(shape, Fraction(0), "real")


def m_ones(I, *shape, dtype=None, device=None):
    if isinstance(device, Opaque) and device.name == "device" and len(shape) == 2:
        # torch.ones(batch, 1, device=<a factor's device>): the empty left environment of a sampling sweep
        return Gh("acc", None, upto=0, site=-1, open=False, ok=True)
    return X.t_ones(I, *shape, dtype=dtype, device=device)


def m_tensor_trace(I, tensor, dim1, dim2):
    if isinstance(tensor, Gh) and tensor.kind == "partial2" and (dim1, dim2) == (0, 2):
        t = tensor.tags
        return Gh("env", tensor.flist, a=t["a"], upto=t["r"], ok=t["ok"])
    raise Unsupported("tensor_trace outside the reader model")


def m_svdvals(I, m):
    if not isinstance(m, AT):
        raise Unsupported("svdvals of a value outside the factor-list model")
    o = m.origin
    base = getattr(m, "base", None)
    s = _site_of(I, base) if base is not None else None
    if not (o[0] == "view" and o[2] == "xy|z" and s is not None):
        I.ctx.prove("contracted-tensor-is-a-centre", z3.BoolVal(False), "safety")
        raise Unsupported("singular values of something that is not a factor viewed (left*phys | right)")
    F, j, cur = s
    _centre_obligations(I, F, j, j, cur, "schmidt-values")
    I.session.note("torch.linalg.svdvals: singular values of the matrix (A4)")
    return Gh("spec", F, site=j)


def m_entr(I, x):
    if isinstance(x, Gh) and x.kind == "spec":
        return x
    raise Unsupported("torch.special.entr outside the reader model")


def m_Tensor(I, x):
    return x


def m_sum(I, x, *a, **k):
    if isinstance(x, Gh) and x.kind == "spec":
        return Val(_uf(I, ENT, x.tags["site"]))
    return X.t_sum(I, x, *a, **k)


def m_vector_norm(I, x, ord=2, dim=None, **k):
    if isinstance(x, Gh) and x.kind == "acc" and dim == 2:
        t = x.tags
        F = x.flist
        I.ctx.prove("accumulator-holds-the-open-site", to_z3(ops.b_and(t["ok"], t["open"])), "safety")
        iso, N = F.fields["iso"], F.fields["N"]
        # the branch norms are the conditional marginals only if everything to the right is right-orthonormal
        I.reg.prove_clause(I, "branch-norms-are-marginals/right-environment-is-identity",
                           ForallV(lambda j: ops.equal(iso.at(j), 2), ops.add(t["site"], 1), N, "j"), "safety")
        return Gh("prob", F, site=t["site"])
    if I.ctx.speculative:
        raise NeedFork()
    I.session.note("external call: torch.linalg.vector_norm (result unconstrained, arguments assumed unchanged)")
    return Opaque(I.ctx.fresh_name("torch.linalg.vector_norm"))


def wrap_multinomial(orig):
    def multinomial(I, probs, num_samples=1, replacement=False):
        if isinstance(probs, Gh) and probs.kind == "prob":
            saved = I.ctx.ghost.get("c15_site")
            I.ctx.ghost["c15_site"] = probs.tags["site"]     # the outcomes are those drawn AT THAT SITE
            try:
                return orig(I, Opaque("probabilities"), num_samples, replacement)
            finally:
                I.ctx.ghost["c15_site"] = saved
        return orig(I, probs, num_samples, replacement)
    return multinomial


def m_enumerate(I, x, start=0):
    if isinstance(x, FactorList):
        return SymSeq(x.fields["N"], lambda k: (ops.add(k, start), x.getitem(I, k)), "list")
    return X.b_enumerate(I, x, start)


class MpoV(SymObj):
    """an MPO as far as the energy callbacks care: an identity, `@`, expect"""
    binop_first = True

    def __init__(self, I, hid=None, n=None):
        super().__init__("MPO", None)
        self.hid = hid if hid is not None else I.ctx.fresh("mpo", "int")
        self.fields["expect"] = self._expect

    def binop(self, I, op, other, reflected):
        if op is ast.MatMult and isinstance(other, MpoV):
            a, b = (other, self) if reflected else (self, other)
            I.session.note("MPO.__matmul__: uninterpreted (the product operator; its truncation is C10's concern)")
            return MpoV(I, MPO_MM(to_z3(a.hid), to_z3(b.hid)))
        raise Unsupported("operator on an MPO")

    def _expect(self, I, state):
        sid = state.fields.setdefault("_sid", I.ctx.fresh("state", "int"))
        I.session.note("MPO.expect: uninterpreted complex number <state|H|state> (full contraction, no gauge needed)")
        return CVal(CplxV(_uf(I, MPO_RE, self.hid, sid), _uf(I, MPO_IM, self.hid, sid)))


# ---------------------------------------------------------------------------------------------
# registration
# ---------------------------------------------------------------------------------------------
def via_contract(reg, c):
    """call-site policy: use contract c for this call (for contracts that are not the registry's default face)"""
    from pyvc.values import FuncRef

    def model(I, *args, **kwargs):
        mod, node = reg.repo.find(c.target)
        return reg.apply_contract(I, c, FuncRef(mod, c.target.split(":")[1], node), list(args), kwargs)
    return model


def install(reg, prop, observables=True):
    """the factor-list model plus the reader kernels (keeps every model already installed usable:
    operands that are not abstract tensors of the model fall through to the previous behaviour)"""
    MC.register(reg, prop)
    ext = reg.external
    ext["torch.tensordot"] = r_tensordot
    ext["torch.ones"] = m_ones
    ext["torch.linalg.vector_norm"] = m_vector_norm
    ext["builtins.enumerate"] = m_enumerate
    if observables:
        ext["torch.zeros"] = m_zeros
        ext["torch.linalg.svdvals"] = m_svdvals
        ext["torch.special.entr"] = m_entr
        ext["torch.Tensor"] = m_Tensor
        ext["torch.sum"] = m_sum
        ext["torch.zeros_like"] = lambda I, x, **k: (X.t_zeros_like(I, x, **k) if isinstance(x, T.LamTensor) else 0)
        ext["torch.allclose"] = lambda I, *a, **k: I.ctx.fresh("allclose", "bool")
    if "torch.multinomial" in ext:
        ext["torch.multinomial"] = wrap_multinomial(ext["torch.multinomial"])
    reg.policies[f"{UTILS}:tensor_trace"] = m_tensor_trace
    G = reg.ghost_funcs
    G.update(vc=_g_v(0), vlo=_g_v(1), vhi=_g_v(2), vok=_g_v(3),
             exp1=lambda I, i, k: _uf(I, EXP1, i, k), corr=lambda I, i, j: _uf(I, CORR, i, j),
             ent=lambda I, b: _uf(I, ENT, b),
             gh=lambda I, x, name: x.tags[name], gh_kind=lambda I, x: x.kind,
             val_of=lambda I, v: v.val,
             centre_in_range=lambda I, m: (True if m.fields["orthogonality_center"] is None else ops.b_and(
                 ops.compare(ast.GtE, m.fields["orthogonality_center"], 0),
                 ops.compare(ast.Lt, m.fields["orthogonality_center"], m.fields["num_sites"]))))

    prev_view = getattr(reg, "tensor_view", None)

    def view(I, t, shp):
        if tuple(shp) == (-1,) and t.ndim == 2 and isinstance(t.shape[1], int) and t.shape[1] == 1:
            return T.LamTensor((t.shape[0],), lambda i: t.fn(i, 0), t.dtype)
        return prev_view(I, t, shp)
    reg.tensor_view = view


# the declared centre is truthful and the list still represents the same state
STATE_KEPT = [
    "forall(lambda j: iso(self.factors, j) == 1, 0, lo_c(self))",
    "forall(lambda j: iso(self.factors, j) == 2, hi_c(self) + 1, self.num_sites)",
    BONDS,
    "forall(lambda j: disc(self.factors, j) == disc(old(self.factors), j), 1, self.num_sites)",
    "intact(self.factors)",
]
STATE_KEPT_NAMES = ["declared-centre-truthful/left", "declared-centre-truthful/right", "bonds-consistent",
                    "nothing-discarded", "state-intact"]
REQ = CANON_IN + [BONDS, "intact(self.factors)"]


def register_c13(reg, prop="C13"):
    install(reg, prop)
    targets = []

    def mk_state(known):
        return lambda I, n: mps_obj(I, known)

    def add(c, callsite):
        reg.add_contract(c, callsite=callsite)
        targets.append(c.key)

    # ==== MPS.expect_batch =============================================================================
    def ops_tensor(I, n):
        K = I.ctx.fresh("n_ops", "int")
        I.ctx.assume(K >= 0)
        return reg.sym_tensor(I, "ops", (K, I.ctx.fresh("d1", "int"), I.ctx.fresh("d2", "int")))

    def table(I, name, env):
        s = env["self"]
        o = env["single_qubit_operators"]
        K = o.shape[0] if isinstance(o, T.LamTensor) else I.ctx.fresh("n_ops", "int")
        return reg.sym_tensor(I, I.ctx.fresh_name("expectations"), (s.fields["num_sites"], K))

    C0 = "orthogonality_center"
    ROWS = "forall(lambda i: forall(lambda k: result[i, k] == exp1(i, k), 0, single_qubit_operators.shape[0]), {lo}, {hi})"
    for known in (True, False):
        add(Contract(
            f"{MPSMOD}:MPS.expect_batch", property=prop,
            label="MPS.expect_batch" + ("" if known else "[centre None]"),
            params={"self": mk_state(known), "single_qubit_operators": ops_tensor},
            requires=REQ, raises={},
            modifies=FACTOR_FRAME + ["self.orthogonality_center"],
            returns=table,
            loops={
                0: dict(invariant=[
                    # the carried tensor is the (virtual) centre at the site about to be read
                    f"implies({C0} + _k < self.num_sites, vok(center_factor) and vc(center_factor) == {C0} + _k "
                    f"and vlo(center_factor) == {C0} and vhi(center_factor) == {C0} + _k)",
                    f"implies({C0} + _k < self.num_sites, center_factor.shape[2] == chiR(self.factors, {C0} + _k))",
                    ROWS.format(lo=C0, hi=f"{C0} + _k")],
                    modifies=["result.*"]),
                1: dict(invariant=[
                    f"vok(center_factor) and vc(center_factor) == {C0} - _k and vlo(center_factor) == {C0} - _k "
                    f"and vhi(center_factor) == {C0}",
                    f"center_factor.shape[0] == chiL(self.factors, {C0} - _k)",
                    ROWS.format(lo=f"{C0} - _k", hi="self.num_sites")],
                    modifies=["result.*"]),
            },
            ensures=[ROWS.format(lo="0", hi="self.num_sites")] + STATE_KEPT + ["has_centre(self)"],
            ensures_names=["row-i-is-the-expectation-at-site-i"] + STATE_KEPT_NAMES + ["centre-declared"],
        ), callsite=known)

    # ==== MPS.get_correlation_matrix ====================================================================
    def corr_self(known):
        def make(I, n):
            o = mps_obj(I, known)
            d = o.fields["dim"]
            o.fields["n_operator"] = reg.sym_tensor(I, "n_operator", (d, d))
            return o
        return make

    SYM = "result[{i}, {j}] == corr(min({i}, {j}), max({i}, {j}))"
    DONE_ROWS = ("forall(lambda i: forall(lambda j: " + SYM.format(i="i", j="j") + " and " + SYM.format(i="j", j="i")
                 + ", 0, self.num_sites), 0, {upto})")
    LOOP_STATE = STATE_KEPT[:3] + ["intact(self.factors)", "centre_in_range(self)"]
    for known in (True, False):
        add(Contract(
            f"{MPSMOD}:MPS.get_correlation_matrix", property=prop,
            label="MPS.get_correlation_matrix" + ("" if known else "[centre None]"),
            params={"self": corr_self(known), "operator": "none"},
            requires=REQ, raises={},
            modifies=FACTOR_FRAME + ["self.orthogonality_center"],
            returns=lambda I, name, env: reg.sym_tensor(I, I.ctx.fresh_name("correlations"),
                                                        (env["self"].fields["num_sites"],) * 2),
            loops={
                0: dict(invariant=[DONE_ROWS.format(upto="_k")] + LOOP_STATE,
                        modifies=FACTOR_FRAME + ["self.orthogonality_center", "result.*"]),
                1: dict(index="_m", count="_nm", invariant=[
                    "gh_kind(accumulator) == 'env' and gh(accumulator, 'ok') and gh(accumulator, 'a') == left "
                    "and gh(accumulator, 'upto') == left + _m",
                    "result[left, left] == corr(left, left)",
                    "forall(lambda j: result[left, j] == corr(left, j) and result[j, left] == corr(left, j), "
                    "left + 1, left + 1 + _m)",
                    DONE_ROWS.format(upto="left")],
                    modifies=["result.*"]),
            },
            ensures=["forall(lambda i: forall(lambda j: " + SYM.format(i="i", j="j") + ", 0, self.num_sites), 0, self.num_sites)"]
            + STATE_KEPT + ["has_centre(self)"],
            ensures_names=["entry-i-j-is-the-correlation-of-sites-i-j"] + STATE_KEPT_NAMES + ["centre-declared"],
        ), callsite=known)

    # ==== MPS.entanglement_entropy =========================================================================
    RANGE = "not (0 <= mps_site and mps_site < self.num_sites)"
    for known in (True, False):
        add(Contract(
            f"{MPSMOD}:MPS.entanglement_entropy", property=prop,
            label="MPS.entanglement_entropy" + ("" if known else "[centre None]"),
            params={"self": mk_state(known), "mps_site": "int"},
            requires=REQ,
            raises={"AssertionError": RANGE}, raises_when={"AssertionError": RANGE},
            modifies=FACTOR_FRAME + ["self.orthogonality_center"],
            returns=lambda I, name, env: Val(I.ctx.fresh("entropy_value", "real")),
            # (where the centre ends up is not part of the property: only that the declaration is truthful)
            ensures=["val_of(result) == ent(mps_site)", "has_centre(self)"] + STATE_KEPT,
            ensures_names=["entropy-of-the-cut-after-mps_site", "centre-declared"] + STATE_KEPT_NAMES,
        ), callsite=known)

    # ==== EntanglementEntropy.apply (emu_mps/observables.py) ===============================================
    def ee_self(I, n):
        o = SymObj("EntanglementEntropy", OBSMOD)
        o.fields["mps_site"] = I.ctx.fresh("mps_site", "int")
        return o
    reg.add_class("EntanglementEntropy", module=OBSMOD, fields={})
    BAD = "not (0 <= self.mps_site and self.mps_site <= state.num_sites - 2)"
    add(Contract(
        f"{OBSMOD}:EntanglementEntropy.apply", property=prop,
        params={"self": ee_self, "state": lambda I, n: mps_obj(I, True), "kwargs": lambda I, n: {}},
        requires=[c.replace("self.", "state.").replace("(self)", "(state)") for c in REQ],
        raises={"ValueError": BAD}, raises_when={"ValueError": BAD},
        ensures=["val_of(result) == ent(self.mps_site)"]
        + [c.replace("self.", "state.").replace("(self)", "(state)") for c in STATE_KEPT],
        ensures_names=["entropy-of-the-requested-cut"] + STATE_KEPT_NAMES,
    ), callsite=False)

    # ==== the observable callbacks ============================================================================
    S_REQ = [c.replace("self.", "state.").replace("(self)", "(state)") for c in REQ]
    S_KEPT = [c.replace("self.", "state.").replace("(self)", "(state)") for c in STATE_KEPT]

    def occ_post(I, fr):
        code = fr.locals.get("__frame__")
        if code is not None and "op" in code.locals:
            fr.locals["op_used"] = code.locals["op"]
    for known in (True, False):
        add(Contract(
            f"{CBMOD}:qubit_occupation_mps_impl", property=prop,
            label="qubit_occupation_mps_impl" + ("" if known else "[centre None]"),
            params={"self": "opaque", "config": "opaque", "state": mk_state(known),
                    "hamiltonian": "opaque"},
            requires=S_REQ + ["state.dim >= 2"], raises={}, post_setup=occ_post,
            ensures=[
                # entry i is the expectation at site i of the one operator handed over ...
                "forall(lambda i: result[i] == exp1(i, 0), 0, state.num_sites)",
                "len(result) == state.num_sites",
                # ... which is the projector on level 1 (|r>)
                "forall(lambda a: forall(lambda b: op_used[0, a, b] == (1 if (a == 1 and b == 1) else 0), 0, state.dim), "
                "0, state.dim)",
            ] + S_KEPT,
            ensures_names=["entry-i-is-the-occupation-of-site-i", "one-entry-per-site", "operator-is-projector-on-level-1"]
            + STATE_KEPT_NAMES,
        ), callsite=False)
        add(Contract(
            f"{CBMOD}:correlation_matrix_mps_impl", property=prop,
            label="correlation_matrix_mps_impl" + ("" if known else "[centre None]"),
            params={"self": "opaque", "config": "opaque", "state": corr_self(known), "hamiltonian": "opaque"},
            requires=S_REQ, raises={},
            ensures=["forall(lambda i: forall(lambda j: " + SYM.format(i="i", j="j")
                     + ", 0, state.num_sites), 0, state.num_sites)"] + S_KEPT,
            ensures_names=["entry-i-j-is-the-correlation-of-sites-i-j"] + STATE_KEPT_NAMES,
        ), callsite=False)

    # energies: which operator, which state, which combination (MPO.expect / @ uninterpreted)
    G = reg.ghost_funcs
    G["h_re"] = lambda I, h, s: _uf(I, MPO_RE, h.hid, s.fields.setdefault("_sid", I.ctx.fresh("state", "int")))
    G["h_im"] = lambda I, h, s: _uf(I, MPO_IM, h.hid, s.fields.setdefault("_sid", I.ctx.fresh("state", "int")))
    G["h_sq"] = lambda I, h: MpoV(I, MPO_MM(to_z3(h.hid), to_z3(h.hid)))
    energy_params = {"self": "opaque", "config": "opaque", "state": lambda I, n: mps_obj(I, True),
                     "hamiltonian": lambda I, n: MpoV(I)}
    add(Contract(
        f"{CBMOD}:energy_mps_impl", property=prop, params=dict(energy_params),
        raises={"AssertionError": None},          # imaginary part beyond 1e-4: allowed to refuse
        ensures=["result == h_re(hamiltonian, state)"], ensures_names=["energy-is-Re-<psi|H|psi>"]), False)
    add(Contract(
        f"{CBMOD}:energy_second_moment_mps_impl", property=prop, params=dict(energy_params),
        raises={"AssertionError": None},
        ensures=["result == h_re(h_sq(hamiltonian), state)"], ensures_names=["second-moment-is-Re-<psi|H@H|psi>"]), False)
    add(Contract(
        f"{CBMOD}:energy_variance_mps_impl", property=prop, params=dict(energy_params),
        raises={},
        ensures=["result == h_re(h_sq(hamiltonian), state) - (h_re(hamiltonian, state) * h_re(hamiltonian, state) "
                 "- h_im(hamiltonian, state) * h_im(hamiltonian, state))"],
        ensures_names=["variance-is-Re(<H@H> - <H>^2)"]), False)

    # ==== get_extended_site_index: the centre of the dark-atom padded state ====================================
    def where_tensor(I, n):
        m = I.ctx.fresh("n_atoms", "int")
        I.ctx.assume(m >= 0)
        return reg.sym_tensor(I, "where", (m,), "bool")

    def cnt_true(I, where, t):
        # (keyed by the tensor's name: old() snapshots are copies with a new id but the same entries)
        f = rec_function(I, f"true_before@{where.name or where.tid}", 0,
                         lambda k, prev: prev + z3.If(to_z3(I.truth(where.fn(k))), 1, 0), sort="int")
        return f(I, t)
    G["true_before"] = cnt_true
    NOIDX = "desired_index < 0 or desired_index >= true_before(where, len(where))"
    add(Contract(
        f"{UTILS}:get_extended_site_index", property=prop,
        params={"where": where_tensor, "desired_index": "int"},
        raises={"ValueError": NOIDX},
        returns="int",
        loops={0: dict(invariant=["index == true_before(where, _k) - 1",
                                  "implies(desired_index >= 0, index < desired_index)", "index >= -1"])},
        ensures=["0 <= result and result < len(where)", "where[result]",
                 "true_before(where, result) == desired_index"],
        ensures_names=["index-in-range", "a-well-prepared-atom", "exactly-desired_index-well-prepared-atoms-before-it"],
    ), callsite=False)
    add(Contract(
        f"{UTILS}:get_extended_site_index", property=prop, label="get_extended_site_index[no centre]",
        params={"where": where_tensor, "desired_index": "none"},
        raises={}, ensures=["result is None"], ensures_names=["no-centre-stays-no-centre"]), False)
    return targets


def register_c15(reg, prop="C15"):
    """the conditional sweep of MPS.sample on the factor-list model (call AFTER contracts.sampling.register)"""
    install(reg, prop, observables=False)
    # the counting / encoding contracts of contracts/sampling.py keep treating orthogonalize as opaque:
    # the factor-list contract of orthogonalize is used by the sweep variant only
    ORTH = f"{MPSMOD}:MPS.orthogonalize"
    orth = reg.contracts.pop(ORTH)

    def state(known):
        def make(I, n):
            o = mps_obj(I, known)
            I.ctx.ghost["c15_keylen"] = o.fields["num_sites"]
            return o
        return make

    def setup(I, fr):
        # the ghost "outcome drawn at (site, shot)" of contracts/sampling.py
        d = reg.ghost_funcs["drawn"]
        import z3 as _z
        I.ctx.ghost["c15_drawn"] = lambda q, b: to_z3(d(I, q, b))

    targets = []
    for known in (True, False):
        label = "MPS.sample[sweep]" + ("" if known else "[centre None]")
        reg.add_contract(Contract(
            f"{MPSMOD}:MPS.sample", property=prop, label=label,
            params={"self": state(known), "num_shots": "int", "one_state": "none",
                    "p_false_pos": "real", "p_false_neg": "real"},
            setup=setup, policies={ORTH: via_contract(reg, orth)},
            requires=["num_shots >= 0"] + REQ,
            raises={"NotImplementedError": "p_false_pos > 0 and self.dim > 2"},
            loops={
                0: dict(invariant=["bitstrings.total == shots_done", "0 <= shots_done", "shots_done <= num_shots",
                                   "bitstrings.keys_ok"],
                        variant="num_shots - shots_done",
                        modifies=["bitstrings.total", "bitstrings.keys_ok"]),
                1: dict(index="_q", count="_nq",
                        invariant=["mark_site(_q)",
                                   # the accumulator is the left environment of the outcomes of sites 0.._q-1
                                   "gh(batched_accumulator, 'ok') and not gh(batched_accumulator, 'open') "
                                   "and gh(batched_accumulator, 'upto') == _q",
                                   "forall(lambda b: forall(lambda q: batch_outcomes[b, q] == drawn(q, b), 0, _q),"
                                   " 0, batch_size)"],
                        modifies=["batch_outcomes.*"]),
                2: dict(index="_r", count="_nr",
                        invariant=["bitstrings.total == shots_done - batch_size + _r", "bitstrings.keys_ok",
                                   "implies(_r >= 1, encodes_row(last_key(bitstrings), batch_outcomes, _r - 1,"
                                   " self.num_sites))"],
                        modifies=["bitstrings.total", "bitstrings.keys_ok"]),
            },
            ensures=["result.total == num_shots", "has_centre(self) and centre(self) == 0"] + STATE_KEPT,
            ensures_names=["total-count-is-num-shots", "sweep-starts-from-centre-0"] + STATE_KEPT_NAMES,
        ), callsite=False)
        targets.append(f"{MPSMOD}:{label}")
    return targets
