"""Contracts for the step / observable protocol of the backends (C14):
emu_sv.sv_backend_impl.SVBackendImpl.{_run, step, _compute_dt, _apply_observables, _is_evaluation_time}
emu_mps.mps_backend_impl.MPSBackendImpl.{is_finished, timestep_complete, fill_results, _is_evaluation_time}

The opaque parts (the stepper, the observables, pulser's matcher) are modelled by *monitors*: a
model of the callee that checks, as proof obligations at every call, that the call is the one the
protocol allows now, and advances ghost counters kept on the implementation object:

    g_ver   number of solver steps taken            (the state `self.state.data` is its version number)
    g_obs   number of completed observable applications (index of the next target time to observe)
    g_called  which observables have been invoked during the current application (array)
    g_cb_last index of the observable invoked last during the current application

pulser's matcher is assumed (A4): is_time_in_evaluation_times(t, times, tol) / is_evaluation_time(t,
tol) hold iff 0 <= t <= 1 and |t - e| <= tol for some requested e of the observable / of the
default times -- uninterpreted predicates M_own(j, t, tol), M_def(t, tol) here.  An observable j
*wants* time t iff  M_own(j, t, 1e-10) if it has its own evaluation times else M_def(t, 1e-10)."""
from fractions import Fraction

import z3

from pyvc import floatsets as FS
from pyvc.paths import NeedFork
from pyvc.registry import Contract
from pyvc.values import Opaque, OptV, SymObj, SymSeq, Unsupported, to_z3

from . import common
from .timegrid import TimesV, universal

SV = "emu_sv.sv_backend_impl"
MPSI = "emu_mps.mps_backend_impl"
TOL = Fraction(1, 10 ** 10)
TOLZ = to_z3(TOL)
COEFF = Fraction(1, 1000)            # _TIME_CONVERSION_COEFF


def _w(I):
    return I.ctx.ghost["c14"]


# ---------------------------------------------------------------------------------------------
# the symbolic world: observables, matcher, target times
# ---------------------------------------------------------------------------------------------
def world(I):
    g = I.ctx.ghost
    if "c14" in g:
        return g["c14"]
    ctx = I.ctx
    n_obs = ctx.fresh("n_observables", "int")
    nt = ctx.fresh("NT", "int")
    ctx.assume(z3.And(n_obs >= 0, nt >= 1))
    none = z3.Function(ctx.fresh_name("times_is_none"), z3.IntSort(), z3.BoolSort())
    m_own = z3.Function(ctx.fresh_name("M_own"), z3.IntSort(), z3.RealSort(), z3.RealSort(), z3.BoolSort())
    m_def = z3.Function(ctx.fresh_name("M_def"), z3.RealSort(), z3.RealSort(), z3.BoolSort())
    tt = common.sym_seq(I, "target_times", sort="real")
    ctx.assume(to_z3(tt.length) == nt + 1)
    cache = {}

    def obs(j):
        key = str(j)
        if key not in cache:
            jz = to_z3(j)
            o = Opaque("observables.callback")
            tv = TimesV("evaluation_times")
            tv.attrs["__is_none__"] = none(jz)
            tv.attrs["index"] = jz
            o.attrs["evaluation_times"] = tv
            o.attrs["index"] = jz
            cache[key] = o
        return cache[key]

    def is_time_in_evaluation_times(I2, t, times, tol=Fraction(1, 10 ** 6)):
        if not isinstance(times, TimesV):
            raise Unsupported("is_time_in_evaluation_times on times that are not an observable's")
        return m_own(times.attrs["index"], to_z3(t), to_z3(tol))

    def is_evaluation_time(I2, t, tol=Fraction(1, 10 ** 6)):
        return m_def(to_z3(t), to_z3(tol))
    I.session.note("pulser EmulationConfig.is_time_in_evaluation_times / is_evaluation_time: assumed matcher "
                   "(true iff 0 <= t <= 1 and |t - e| <= tol for a requested time e)")
    cfg = SymObj("BackendConfig", None)
    cfg.fields.update(observables=SymSeq(n_obs, obs), is_time_in_evaluation_times=is_time_in_evaluation_times,
                      is_evaluation_time=is_evaluation_time,
                      krylov_tolerance=ctx.fresh("krylov_tolerance", "real"))
    w = dict(n_obs=n_obs, NT=nt, none=none, m_own=m_own, m_def=m_def, tt=tt, config=cfg, obs=obs,
             wants=lambda j, t: z3.If(none(j), m_def(t, TOLZ), m_own(j, t, TOLZ)))
    g["c14"] = w
    return w


def hamiltonian():
    return SymObj("Hamiltonian", None)


def sv_impl(I, name="self"):
    """an SVBackendImpl in an arbitrary protocol state"""
    w = world(I)
    ctx = I.ctx
    nt = w["NT"]
    obj = SymObj("SVBackendImpl", SV)
    state = SymObj("State", None)
    state.fields["data"] = ctx.fresh("state.data", "int")

    def rows(nm):
        def elem(k):
            o = Opaque(f"{nm}[{k}]")
            o.attrs["row"] = to_z3(k)
            return o
        return SymSeq(nt, elem)

    def apply(I2, dt, om, de, ph, imat, data, tol, lindblads):
        """monitor of stepper.apply: one solver step"""
        c = I2.ctx
        if c.speculative:
            raise NeedFork()
        f = obj.fields
        k = to_z3(f["g_ver"])
        tt = w["tt"].fn
        c.prove("evolve/drives-of-the-current-step",
                z3.And(*[to_z3(x.attrs["row"]) == k for x in (om, de, ph)]), "protocol")
        c.prove("evolve/over-the-interval-to-the-next-target-time",
                to_z3(dt) == (tt(k + 1) - tt(k)) * to_z3(COEFF), "protocol")
        c.prove("evolve/from-the-current-state", to_z3(data) == k, "protocol")
        c.prove("evolve/after-observing-the-current-time", to_z3(f["g_obs"]) == k + 1, "protocol")
        c.prove("evolve/within-the-sequence", z3.And(k >= 0, k < nt), "protocol")
        f["g_ver"] = k + 1
        c.log_write(obj.oid, "g_ver")
        return (k + 1, hamiltonian())

    def get_hamiltonian(I2, **kw):
        return hamiltonian()
    stepper = SymObj("Stepper", None)
    stepper.fields.update(apply=apply, get_hamiltonian=get_hamiltonian)
    obj.fields.update(
        target_times=w["tt"], nsteps=nt, _config=w["config"], state=state, stepper=stepper,
        omega=rows("omega"), delta=rows("delta"), phi=rows("phi"),
        interaction_matrix=lambda I2, t: Opaque("interaction_matrix(t)"),
        pulser_lindblads=Opaque("pulser_lindblads"),
        _current_H=OptV(ctx.fresh("H.is_none", "bool"), hamiltonian()),
        results=Opaque("results"), statistics=Opaque("statistics"), time=ctx.fresh("time", "real"),
        g_ver=ctx.fresh("g_ver", "int"), g_obs=ctx.fresh("g_obs", "int"),
        g_cb_last=ctx.fresh("g_cb_last", "int"),
        g_called=z3.Const(ctx.fresh_name("g_called"), z3.ArraySort(z3.IntSort(), z3.BoolSort())))
    w["impl"] = obj
    return obj


def callback_model(I, cb, config, t, state, ham, results):
    """monitor of an observable callback invoked by a backend"""
    ctx = I.ctx
    if ctx.speculative:
        raise NeedFork()
    w = _w(I)
    impl = w["impl"]
    f = impl.fields
    j = to_z3(cb.attrs["index"])
    cur = to_z3(f["g_obs"])                 # index of the target time being observed
    tt = w["tt"].fn
    ctx.prove("callback/at-the-current-target-time", to_z3(t) == tt(cur) / tt(w["NT"]), "protocol")
    ctx.prove("callback/on-the-state-produced-by-that-step",
              w["state_version"](I, state) == cur, "protocol")
    ctx.prove("callback/own-config-and-results", (config is w["config"]) and (results is f["results"]), "protocol")
    ctx.prove("callback/each-observable-at-most-once-in-order", j > to_z3(f["g_cb_last"]), "protocol")
    f["g_cb_last"] = j
    f["g_called"] = z3.Store(f["g_called"], j, True)
    ctx.log_write(impl.oid, "g_cb_last")
    ctx.log_write(impl.oid, "g_called")
    return None


# ---------------------------------------------------------------------------------------------
# ghost functions of the clauses
# ---------------------------------------------------------------------------------------------
def norm_time(I, impl, idx):
    w = _w(I)
    return w["tt"].fn(to_z3(idx)) / w["tt"].fn(w["NT"])


def wants(I, impl, observable, t):
    return _w(I)["wants"](to_z3(observable.attrs["index"]), to_z3(t))


def all_wanted_called(I, impl, idx):
    """every observable that wants the target time of index idx has been invoked (during the
    application that has just completed)"""
    w = _w(I)
    called = impl.fields["g_called"]
    t = norm_time(I, impl, idx)

    def schema(j):
        I.saw_index(j)
        FS.sync(I)
        return z3.Implies(z3.And(j >= 0, j < w["n_obs"], w["wants"](j, t)), z3.Select(called, j))
    # (same family as the loop invariant: its instances are needed at this statement's witness)
    return universal(I, "called", schema, (I.ctx.fresh("obs", "int"),))


def selected_called(I, impl, sel, k):
    """loop invariant: the first k selected observables have been invoked"""
    if not isinstance(sel, FS.FilteredSeq):
        raise Unsupported("the selected callbacks are not a filtered comprehension over config.observables")
    called = impl.fields["g_called"]
    m, item_pos, rk = sel.enumeration(I)
    kz = to_z3(k)

    def schema(j):
        I.saw_index(j)
        FS.sync(I)
        return z3.Implies(z3.And(j >= 0, j < to_z3(sel.n), to_z3(sel.keep(j)), rk(j) < kz), z3.Select(called, j))
    return universal(I, "called", schema, (I.ctx.fresh("obs", "int"),))


def last_pos(I, sel, k):
    """index (in config.observables) of the k-th selected observable's predecessor, -1 for none"""
    kz = to_z3(k)
    return z3.If(kz > 0, sel.position(kz - 1), -1)


def reset_application(I, impl):
    """ghost code at the entry of an application: nothing invoked yet"""
    impl.fields["g_called"] = z3.K(z3.IntSort(), z3.BoolVal(False))
    impl.fields["g_cb_last"] = z3.IntVal(-1)


# ---------------------------------------------------------------------------------------------
SV_INV = ["self.nsteps == len(self.target_times) - 1", "self.nsteps >= 1", "self.target_times[self.nsteps] > 0"]


def register(reg, prop="C14"):
    FS.install(reg)
    reg.external["method:callback"] = callback_model
    reg.ghost_funcs.update(all_wanted_called=all_wanted_called, selected_called=selected_called,
                           last_pos=last_pos, wants=wants, norm_time=norm_time)
    arr = lambda I, n: z3.Const(I.ctx.fresh_name(n), z3.ArraySort(z3.IntSort(), z3.BoolSort()))
    reg.add_class("State", module=None, fields={"data": "int"})
    reg.add_class("Stepper", module=None, fields={})
    reg.add_class("Hamiltonian", module=None, fields={})
    reg.add_class("BackendConfig", module=None, fields={})
    reg.add_class("SVBackendImpl", module=SV, fields={
        "g_ver": "int", "g_obs": "int", "g_cb_last": "int", "g_called": arr, "time": "real",
        "_current_H": lambda I, n: OptV(I.ctx.fresh("H.is_none", "bool"), hamiltonian())})

    def sv_world(I, name):
        o = sv_impl(I, name)
        _w(I)["state_version"] = lambda I2, st: to_z3(st.fields["data"]) if st is o.fields["state"] else z3.IntVal(-7)
        return o
    def iet_by_contract(I, impl, observable, t, tolerance=TOL):
        """call-site face of _is_evaluation_time (a pure function; its contract -- selected exactly
        when the observable wants the time -- is verified on its own): the specified value"""
        if not (tolerance == TOL):
            raise Unsupported("_is_evaluation_time with a non-default tolerance")
        I.session.note("_is_evaluation_time used through its contract (result == the observable wants the time)")
        return wants(I, impl, observable, t)
    iet_by_contract.pure = True
    inline_iet = {f"{SV}:SVBackendImpl._is_evaluation_time": iet_by_contract,
                  f"{MPSI}:MPSBackendImpl._is_evaluation_time": iet_by_contract}

    # ---- _compute_dt ---------------------------------------------------------------------------
    reg.add_contract(Contract(
        f"{SV}:SVBackendImpl._compute_dt", property=prop,
        params={"self": sv_world, "step_idx": "int"},
        requires=SV_INV + ["0 <= step_idx and step_idx < self.nsteps"],
        returns="real", raises={},
        ensures=["result == self.target_times[step_idx + 1] - self.target_times[step_idx]"],
    ))

    # ---- _is_evaluation_time ---------------------------------------------------------------------
    def an_observable(I, name, env):
        j = I.ctx.fresh("j", "int")
        I.ctx.assume(z3.And(j >= 0, j < _w(I)["n_obs"]))
        return _w(I)["obs"](j)
    reg.add_contract(Contract(
        f"{SV}:SVBackendImpl._is_evaluation_time", property=prop,
        params={"self": sv_world, "observable": an_observable, "t": "real",
                "tolerance": lambda I, n: TOL},
        returns="bool", raises={},
        ensures=[
            # an observable is selected at every time it wants ...
            "implies(wants(self, observable, t), result)",
            # ... and at no other time
            "implies(result, wants(self, observable, t))"],
        ensures_names=["selected-when-wanted", "selected-only-when-wanted"],
    ), callsite=False)

    # ---- _apply_observables ------------------------------------------------------------------------
    def ghost_entry(I, fr):
        reset_application(I, fr.locals["self"])

    def ghost_exit(I, fr):
        if "__frame__" in fr.locals:             # ghost code at the normal exit (verification only):
            s = fr.locals["self"]                # the application of this target time is complete
            s.fields["g_obs"] = to_z3(s.fields["g_obs"]) + 1
    reg.add_contract(Contract(
        f"{SV}:SVBackendImpl._apply_observables", property=prop,
        params={"self": sv_world, "step_idx": "int"}, setup=ghost_entry, post_setup=ghost_exit,
        requires=SV_INV + ["0 <= step_idx and step_idx <= self.nsteps",
                           "self.g_obs == step_idx", "self.g_ver == step_idx", "self.state.data == step_idx",
                           # (the Hamiltonian is rebuilt from the next interval only before the first step)
                           "implies(self._current_H is None, step_idx < self.nsteps)"],
        modifies=["self.g_obs", "self.g_called", "self.g_cb_last", "self._current_H"],
        policies=inline_iet, raises={},
        loops={0: dict(invariant=["selected_called(self, callbacks_for_current_time_step, _k)",
                                  "self.g_cb_last == last_pos(callbacks_for_current_time_step, _k)"],
                       modifies=["self.g_called", "self.g_cb_last"])},
        ensures=["self.g_obs == step_idx + 1",
                 "all_wanted_called(self, step_idx)",
                 "self.g_ver == old(self.g_ver) and self.state.data == old(self.state.data)",
                 "implies(old(self._current_H) is not None, self._current_H is not None)"],
        ensures_names=["application-complete", "every-wanting-observable-invoked", "no-step-taken",
                       "hamiltonian-kept"],
    ))

    # ---- step ------------------------------------------------------------------------------------
    reg.add_contract(Contract(
        f"{SV}:SVBackendImpl.step", property=prop,
        params={"self": sv_world, "step_idx": "int"},
        requires=SV_INV + ["0 <= step_idx and step_idx < self.nsteps",
                           "self.g_ver == step_idx", "self.g_obs == step_idx + 1", "self.state.data == step_idx"],
        modifies=["self.g_ver", "self.g_obs", "self.g_called", "self.g_cb_last", "self._current_H",
                  "self.state.data", "self.time"],
        policies={f"{SV}:SVBackendImpl._evolve_step": "inline",
                  f"{SV}:SVBackendImpl._save_statistics": "opaque"},
        raises={},
        ensures=["self.g_ver == step_idx + 1", "self.g_obs == step_idx + 2", "self.state.data == step_idx + 1",
                 "self._current_H is not None"],
        ensures_names=["one-solver-step", "next-target-time-observed", "state-of-the-step", "hamiltonian-set"],
    ))

    # ---- _run ----------------------------------------------------------------------------------------
    reg.add_contract(Contract(
        f"{SV}:SVBackendImpl._run", property=prop,
        params={"self": sv_world},
        requires=SV_INV + ["self.g_ver == 0", "self.g_obs == 0", "self.state.data == 0"],
        loops={0: dict(invariant=["self.g_ver == _k", "self.g_obs == _k + 1", "self.state.data == _k",
                                  "implies(_k > 0, self._current_H is not None)"],
                       modifies=["self.g_ver", "self.g_obs", "self.g_called", "self.g_cb_last",
                                 "self._current_H", "self.state.data", "self.time"])},
        raises={},
        ensures=[
            # one solver step per interval of the time grid, observables applied at every target time
            "self.g_ver == len(self.target_times) - 1",
            "self.g_obs == len(self.target_times)",
            "result is self.results"],
        ensures_names=["steps==len(target_times)-1", "every-target-time-observed", "returns-results"],
    ))
    keys = [f"{SV}:SVBackendImpl._compute_dt", f"{SV}:SVBackendImpl._is_evaluation_time",
            f"{SV}:SVBackendImpl._apply_observables", f"{SV}:SVBackendImpl.step", f"{SV}:SVBackendImpl._run"]
    return keys + register_mps(reg, prop, inline_iet, ghost_entry, ghost_exit, an_observable)


# ---------------------------------------------------------------------------------------------
# emu-mps
# ---------------------------------------------------------------------------------------------
class StateObj(SymObj):
    """An MPS: only its version (which step produced it) matters here.  `scalar * state` and the
    extension by dark qubits give a state of the same version."""

    def binop(self, I, op, other, reflected=False):
        import ast
        if op is ast.Mult:
            return derived_state(self)
        raise Unsupported(f"operator {op.__name__} on an MPS")


def derived_state(st):
    d = StateObj("MPS", None)
    d.fields.update(st.fields)
    d.fields["origin"] = st.fields.get("origin", st)
    return d


MPS_INV = ["self.timestep_count == len(self.target_times) - 1", "self.timestep_count >= 1",
           "self.target_times[self.timestep_count] > 0"]


def mps_impl(I, name="self"):
    w = world(I)
    ctx = I.ctx
    obj = SymObj("MPSBackendImpl", MPSI)
    st = StateObj("MPS", None)
    norm = ctx.fresh("norm", "real")
    ctx.assume(norm > 0)
    factors = Opaque("state.factors")
    factors.attrs["of"] = st
    st.fields.update(version=ctx.fresh("state.version", "int"), norm=lambda I2: norm, factors=factors,
                     orthogonality_center=ctx.fresh("orthogonality_center", "int"),
                     eigenstates=Opaque("eigenstates"))
    obj.fields.update(
        config=w["config"], target_times=w["tt"], timestep_count=w["NT"],
        _timestep_index=ctx.fresh("_timestep_index", "int"),
        current_time=ctx.fresh("current_time", "real"), target_time=ctx.fresh("target_time", "real"),
        state=st, hamiltonian=Opaque("hamiltonian"), current_interaction_matrix=Opaque("current_interaction_matrix"),
        well_prepared_qubits_filter=OptV(ctx.fresh("filter.is_none", "bool"), Opaque("well_prepared_qubits_filter")),
        results=Opaque("results"), statistics=Opaque("statistics"), time=ctx.fresh("time", "real"),
        hamiltonian_type=Opaque("hamiltonian_type"), dim=2, resolved_num_gpus=0,
        g_obs=ctx.fresh("g_obs", "int"), g_cb_last=ctx.fresh("g_cb_last", "int"),
        g_called=z3.Const(ctx.fresh_name("g_called"), z3.ArraySort(z3.IntSort(), z3.BoolSort())))
    w["impl"] = obj

    def version(I2, s):
        if isinstance(s, StateObj) and (s is st or s.fields.get("origin") is st):
            return to_z3(s.fields["version"])
        return z3.IntVal(-7)
    w["state_version"] = version
    return obj


def register_mps(reg, prop, iet_policy, ghost_entry, ghost_exit, an_observable):
    arr = lambda I, n: z3.Const(I.ctx.fresh_name(n), z3.ArraySort(z3.IntSort(), z3.BoolSort()))
    reg.add_class("MPS", module=None, fields={})
    reg.add_class("MPSBackendImpl", module=MPSI, fields={
        "g_obs": "int", "g_cb_last": "int", "g_called": arr, "time": "real", "_timestep_index": "int",
        "target_time": "real", "hamiltonian": "opaque", "current_interaction_matrix": "opaque"})

    def extended_factors(I, factors, filt):
        I.session.note("extended_mps_factors: the factors of the same state with the dark qubits re-inserted")
        return factors

    def new_mps(I, cref, args, kwargs):
        """MPS(factors of the normalised state ...): a state of the same step"""
        f = args[0]
        src = f.attrs.get("of") if isinstance(f, Opaque) else None
        if src is None:
            raise Unsupported("MPS(...) from factors of unknown origin")
        return derived_state(src)
    reg.class_policies["MPS"] = new_mps
    reg.class_policies["MPO"] = lambda I, cref, args, kwargs: Opaque("MPO(...)")
    opaque = {f"{MPSI}:MPSBackendImpl._get_interaction_matrix": "opaque",
              f"{MPSI}:MPSBackendImpl.update_H": "opaque", f"{MPSI}:MPSBackendImpl.init_baths": "opaque",
              "emu_mps.utils:extended_mps_factors": extended_factors}

    reg.add_contract(Contract(
        f"{MPSI}:MPSBackendImpl.is_finished", property=prop,
        params={"self": mps_impl}, returns="bool", raises={},
        ensures=["result == (self._timestep_index >= self.timestep_count)"],
    ))

    reg.add_contract(Contract(
        f"{MPSI}:MPSBackendImpl._is_evaluation_time", property=prop,
        params={"self": mps_impl, "observable": an_observable, "t": "real", "tolerance": lambda I, n: TOL},
        returns="bool", raises={},
        ensures=["implies(wants(self, observable, t), result)",
                 "implies(result, wants(self, observable, t))"],
        ensures_names=["selected-when-wanted", "selected-only-when-wanted"],
    ), callsite=False)

    reg.add_contract(Contract(
        f"{MPSI}:MPSBackendImpl.fill_results", property=prop,
        params={"self": mps_impl}, setup=ghost_entry, post_setup=ghost_exit,
        requires=MPS_INV + ["0 <= self.g_obs and self.g_obs <= self.timestep_count",
                            # called when the state has reached the target time to observe
                            "self.current_time == self.target_times[self.g_obs]",
                            "self.state.version == self.g_obs"],
        modifies=["self.g_obs", "self.g_called", "self.g_cb_last"],
        policies=dict(iet_policy, **opaque), raises={},
        loops={0: dict(invariant=["selected_called(self, callbacks_for_current_time_step, _k)",
                                  "self.g_cb_last == last_pos(callbacks_for_current_time_step, _k)"],
                       modifies=["self.g_called", "self.g_cb_last"])},
        ensures=["self.g_obs == old(self.g_obs) + 1",
                 "all_wanted_called(self, old(self.g_obs))",
                 "self.state.version == old(self.state.version) and self.current_time == old(self.current_time)"],
        ensures_names=["application-complete", "every-wanting-observable-invoked", "state-and-time-kept"],
    ))

    reg.add_contract(Contract(
        f"{MPSI}:MPSBackendImpl.timestep_complete", property=prop,
        params={"self": mps_impl},
        requires=MPS_INV + ["0 <= self._timestep_index and self._timestep_index < self.timestep_count",
                            # sweep_complete has just set current_time = target_time (end of this step)
                            "self.current_time == self.target_times[self._timestep_index + 1]",
                            "self.g_obs == self._timestep_index + 1",
                            "self.state.version == self._timestep_index + 1"],
        modifies=["self.g_obs", "self.g_called", "self.g_cb_last", "self._timestep_index", "self.target_time",
                  "self.hamiltonian", "self.current_interaction_matrix", "self.time"],
        policies=opaque, raises={},
        ensures=[
            # the end of step k is observed exactly once, then the index advances by one ...
            "self.g_obs == old(self.g_obs) + 1",
            "self._timestep_index == old(self._timestep_index) + 1",
            # ... and the next step ends at the next target time
            "implies(self._timestep_index < self.timestep_count,"
            " self.target_time == self.target_times[self._timestep_index + 1])",
            "self.current_time == old(self.current_time)"],
        ensures_names=["observed-once", "one-step-counted", "next-target-time", "time-kept"],
    ))
    return [f"{MPSI}:MPSBackendImpl.is_finished", f"{MPSI}:MPSBackendImpl._is_evaluation_time",
            f"{MPSI}:MPSBackendImpl.fill_results", f"{MPSI}:MPSBackendImpl.timestep_complete"]
