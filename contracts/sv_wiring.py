"""C01 / C16 (refinement clauses only): each emu-sv step is  state' = KExp(op_k, state)  with
op_k(x) = -i * (1e-3 * (t[k+1] - t[k])) * H(omega_k, delta_k, phi_k, U(t_k)[, L]) x,  the Krylov
tolerances of the configuration, `is_hermitian` true for state vectors and false for density
matrices.  KExp (krylov_exp) and the action of H are uninterpreted here: C07 (flags) and C06
(bounded: H x equals the dense Hamiltonian / Lindbladian) cover them."""
import ast

import z3

from pyvc import ops
from pyvc.registry import Contract
from pyvc.values import CplxV, Opaque, SymObj, Unsupported, to_z3

from . import common

TE = "emu_sv.time_evolution"
SVIMPL = "emu_sv.sv_backend_impl"


class AbsVec:
    """abstract vector:  coeff * A(base)  where A is the (uninterpreted) action of one operator
    object on a base vector; only scaling by scalars is modelled"""

    identity_semantics = True

    def __init__(self, base, applied=None, coeff=CplxV(1, 0)):
        self.base, self.applied, self.coeff = base, applied, CplxV.of(coeff)
        self.device = Opaque("device")

    def binop(self, I, op, other, reflected):
        if op is ast.Mult and not isinstance(other, (AbsVec, SymObj)):
            return AbsVec(self.base, self.applied, ops.mul(self.coeff, CplxV.of(other) if not isinstance(
                other, CplxV) else other))
        raise Unsupported("operation on an abstract vector")


def ham_binop(self_obj):
    def binop(I, op, other, reflected):
        if isinstance(other, AbsVec) and not reflected and other.applied is None and op in (ast.Mult, ast.MatMult):
            I.ctx.ghost.setdefault("ham_applications", []).append((self_obj, op.__name__))
            return AbsVec(other.base, self_obj, other.coeff)
        raise Unsupported("operator object used other than as  H * x  /  L @ x")
    return binop


def register(reg, prop="C01"):
    G = reg.ghost_funcs

    def ham_model(kind):
        def mk(I, cref, args, kwargs):
            o = SymObj(kind, None)
            o.fields.update(kwargs)
            o.fields["kind"] = kind
            o.binop = ham_binop(o)
            I.ctx.ghost.setdefault("hams", []).append(o)
            return o
        return mk
    reg.class_policies["emu_sv.hamiltonian:RydbergHamiltonian"] = ham_model("RydbergHamiltonian")
    reg.class_policies["emu_sv.lindblad_operator:RydbergLindbladian"] = ham_model("RydbergLindbladian")

    def krylov_exp_model(I, op, v, *a, **kw):
        names = ["exp_tolerance", "norm_tolerance", "is_hermitian", "max_krylov_dim"]
        for n, val in zip(names, a):
            kw[n] = val
        probe = AbsVec(Opaque("x"))
        out = I.call(op, [probe], {})
        I.ctx.ghost.setdefault("kexp_calls", []).append(dict(v=v, kw=kw, op_out=out, probe=probe))
        res = Opaque("krylov_exp_result")
        I.ctx.ghost["kexp_result"] = res
        return res
    reg.policies["emu_base.math.krylov_exp:krylov_exp"] = krylov_exp_model
    def hermitian_part_model(I, m):
        # (M + M^dagger)/2 of the exponentiated matrix (fix d112f14): abstract, the argument is recorded
        I.ctx.ghost.setdefault("herm_calls", []).append(m)
        res = Opaque("hermitian_part")
        I.ctx.ghost["herm_result"] = res
        return res
    reg.policies[f"{TE}:_hermitian_part"] = hermitian_part_model
    G["herm_args"] = lambda I: I.ctx.ghost.get("herm_calls", [])
    G["herm_result"] = lambda I: I.ctx.ghost["herm_result"]
    reg.policies[f"{TE}:EvolveStateVector.get_hamiltonian"] = "inline"
    reg.policies[f"{TE}:EvolveDensityMatrix.get_hamiltonian"] = "inline"

    def one_call(I):
        calls = I.ctx.ghost.get("kexp_calls", [])
        if len(calls) != 1:
            raise Unsupported(f"expected exactly one krylov_exp call, found {len(calls)}")
        return calls[0]
    G["kexp_vector"] = lambda I: one_call(I)["v"]
    G["kexp_kw"] = lambda I, name: one_call(I)["kw"].get(name, {"is_hermitian": True}.get(name))
    G["kexp_result"] = lambda I: I.ctx.ghost["kexp_result"]
    G["op_coeff_re"] = lambda I: one_call(I)["op_out"].coeff.re
    G["op_coeff_im"] = lambda I: one_call(I)["op_out"].coeff.im
    G["op_operator"] = lambda I: one_call(I)["op_out"].applied
    G["op_uses_probe"] = lambda I: one_call(I)["op_out"].base is one_call(I)["probe"].base
    G["n_ham_objects"] = lambda I: len(I.ctx.ghost.get("hams", []))

    params = {"dt": "real", "omegas": "opaque", "deltas": "opaque", "phis": "opaque",
              "interaction_matrix": "opaque", "state": lambda I, n: AbsVec(Opaque("state")),
              "krylov_tolerance": "real", "pulser_lindblads": "opaque"}
    common_ens = [
        # one operator object, built from exactly this step's parameters
        "n_ham_objects() == 1",
        "op_operator().omegas is omegas and op_operator().deltas is deltas and op_operator().phis is phis",
        # op(x) = -i * dt * (H x)
        "op_uses_probe() and op_coeff_re() == 0 and op_coeff_im() == -dt",
        # exponentiated once, applied to the incoming state, both tolerances = krylov_tolerance
        "kexp_vector() is state",
        "kexp_kw('norm_tolerance') == krylov_tolerance and kexp_kw('exp_tolerance') == krylov_tolerance",
        "result[0] is kexp_result() and result[1] is op_operator()",
    ]
    reg.add_contract(Contract(
        f"{TE}:EvolveStateVector.evolve", property=prop, params=dict(params),
        ensures=common_ens + ["op_operator().kind == 'RydbergHamiltonian'",
                              "op_operator().interaction_matrix is interaction_matrix",
                              "kexp_kw('is_hermitian') == True"],
    ))
    p2 = dict(params)
    p2["full_interaction_matrix"] = p2.pop("interaction_matrix")
    p2["density_matrix"] = p2.pop("state")
    ens2 = [e.replace("is state", "is density_matrix") for e in common_ens]
    # the Lindblad step returns the Hermitian part of the exponential (the generator is the Lindbladian only on
    # Hermitian matrices: known_findings F33), taken exactly once and of exactly the Krylov result
    ens2 = [e.replace("result[0] is kexp_result()",
                      "len(herm_args()) == 1 and herm_args()[0] is kexp_result() and result[0] is herm_result()")
            for e in ens2]
    reg.add_contract(Contract(
        f"{TE}:EvolveDensityMatrix.apply", property=prop, params=p2,
        ensures=ens2 + ["op_operator().kind == 'RydbergLindbladian'",
                        "op_operator().interaction_matrix is full_interaction_matrix",
                        "op_operator().pulser_lindblads is pulser_lindblads",
                        "kexp_kw('is_hermitian') == False"],
    ))

    # forward(ctx, ...) = evolve(...) with the arguments in the same order (torch.autograd.Function.apply
    # calls forward with a fresh ctx: A4)
    def evolve_model(I, *args):
        I.ctx.ghost["evolve_args"] = args
        r = (Opaque("evolved_state"), Opaque("hamiltonian"))
        I.ctx.ghost["evolve_result"] = r
        return r
    G["evolve_args"] = lambda I: I.ctx.ghost["evolve_args"]
    G["evolve_result"] = lambda I: I.ctx.ghost["evolve_result"]
    reg.add_contract(Contract(
        f"{TE}:EvolveStateVector.forward", property=prop,
        params=dict(params, ctx="opaque"),
        policies={f"{TE}:EvolveStateVector.evolve": evolve_model},
        ensures=["len(evolve_args()) == 8",
                 "evolve_args()[0] is dt and evolve_args()[1] is omegas and evolve_args()[2] is deltas"
                 " and evolve_args()[3] is phis and evolve_args()[4] is interaction_matrix"
                 " and evolve_args()[5] is state and evolve_args()[6] is krylov_tolerance"
                 " and evolve_args()[7] is pulser_lindblads",
                 "result[0] is evolve_result()[0] and result[1] is evolve_result()[1]"],
    ))

    # ---- SVBackendImpl._evolve_step: which numbers reach the stepper -----------------------------
    def impl(I, n):
        ctx = I.ctx
        data = common.sequence_data(I, "data")
        o = SymObj("SVBackendImpl", SVIMPL)
        rec = {}

        def stepper_apply(I2, *args):
            rec["args"] = args
            r = (Opaque("new_state_data"), Opaque("new_H"))
            rec["result"] = r
            return r
        stepper = SymObj("Stepper", None)
        stepper.fields["apply"] = stepper_apply
        mats = {}

        def imat(I2, t):
            m = Opaque("U(t)")
            rec["matrix_time"] = t
            rec["matrix"] = m
            return m
        state = SymObj("State", None)
        state.fields["data"] = Opaque("state.data")
        cfg = SymObj("SVConfig", "emu_sv.sv_config")
        cfg.fields["_backend_options"] = {"krylov_tolerance": ctx.fresh("krylov_tolerance", "real")}
        o.fields.update(stepper=stepper, omega=data.fields["omega"], delta=data.fields["delta"],
                        phi=data.fields["phi"], target_times=data.fields["target_times"],
                        interaction_matrix=imat, state=state, _config=cfg,
                        pulser_lindblads=Opaque("lindblads"), _current_H=None,
                        nsteps=data.fields["omega"].shape[0])
        ctx.ghost["svrec"] = rec
        return o
    reg.add_class("SVConfig", module="emu_sv.sv_config", getattr_dict="_backend_options", fields={})
    G["passed"] = lambda I, k: I.ctx.ghost["svrec"]["args"][k]
    G["matrix_time"] = lambda I: I.ctx.ghost["svrec"]["matrix_time"]
    G["matrix_used"] = lambda I: I.ctx.ghost["svrec"]["matrix"]
    G["stepper_result"] = lambda I: I.ctx.ghost["svrec"]["result"]
    reg.add_contract(Contract(
        f"{SVIMPL}:SVBackendImpl._evolve_step", property=prop,
        params={"self": impl, "dt": "real", "step_idx": "int"},
        requires=["0 <= step_idx and step_idx < self.nsteps"],
        raises={},
        ensures=[
            # rad/us * ns: the duration is converted with the factor 1e-3
            "passed(0) == dt * 0.001",
            # drives of THIS step, for every atom
            "forall(lambda q: passed(1)[q] == self.omega[step_idx, q] and passed(2)[q] == self.delta[step_idx, q]"
            " and passed(3)[q] == self.phi[step_idx, q], 0, self.omega.shape[1])",
            # interaction matrix queried at the start of the step
            "matrix_time() == self.target_times[step_idx] and passed(4) is matrix_used()",
            "passed(6) == self._config.krylov_tolerance and passed(7) is self.pulser_lindblads",
            # the state that goes in is the current one, the state that comes out is stored
            "passed(5) is old(self.state.data)",
            "self.state.data is stepper_result()[0] and self._current_H is stepper_result()[1]",
        ],
    ))

    # ---- SVBackendImpl.__init__: the evolving state owns its storage -------------------------------
    # krylov_exp normalises its input in place, so the tensor that becomes self.state.data must not be the
    # tensor held by config.initial_state (the user's object, reused by the next trajectory / the next run).
    # Model of storage identity: t.clone() is a new tensor; t.to(...) MAY return t itself (it does when dtype
    # and device already match), so it is modelled as returning t; a state constructor stores what it is given
    # (possibly through .to): `data is the argument`.
    def tensor_id(name, fresh_from=None):
        t = SymObj("Tensor", None)
        t.fields["origin"] = name
        t.fields["clone"] = lambda I2, *a, **k: tensor_id(name + ".clone()", fresh_from=t)
        t.fields["to"] = lambda I2, *a, **k: t
        t.fields["contiguous"] = lambda I2, *a, **k: t
        return t

    def state_ctor(kind):
        def mk(I, cref, args, kwargs):
            o = SymObj(kind, None)
            o.fields["data"] = args[0] if args else kwargs.get("data", kwargs.get("vector"))
            o.fields["kind"] = kind
            return o
        return mk

    def state_make(kind):
        def mk(I, *args, **kwargs):
            o = SymObj(kind, None)
            o.fields["data"] = tensor_id("make()")
            o.fields["kind"] = kind
            return o
        return mk
    own_policies = {
        "emu_sv.state_vector:StateVector.make": state_make("StateVector"),
        "emu_sv.density_matrix_state:DensityMatrix.make": state_make("DensityMatrix"),
        f"{SVIMPL}:SVBackendImpl.init_dark_qubits": lambda I, *a, **k: None,
    }

    def setup_init(with_state, noisy):
        def _setup(I, fr):
            ctx = I.ctx
            data = common.sequence_data(I, "data")
            n_ops = data.fields["lindblad_ops"].length
            ctx.assume(to_z3(n_ops) >= 1 if noisy else to_z3(n_ops) == 0)
            cfg = SymObj("SVConfig", "emu_sv.sv_config")
            opts = {"gpu": False, "krylov_tolerance": ctx.fresh("krylov_tolerance", "real")}
            if with_state:
                st = SymObj("DensityMatrix" if noisy else "StateVector",
                            "emu_sv.density_matrix_state" if noisy else "emu_sv.state_vector")
                st.fields["data"] = tensor_id("config.initial_state.data")
                st.fields["n_qudits"] = data.fields["omega"].shape[1]
                opts["initial_state"] = st
            else:
                opts["initial_state"] = None
            cfg.fields["_backend_options"] = opts
            o = SymObj("SVBackendImpl", SVIMPL)
            fr.locals.update(self=o, config=cfg, data=data)
        return _setup
    G["is_new_storage"] = lambda I, a, b: a is not b
    G["class_name"] = lambda I, c: getattr(c, "name", None) or str(c)
    for with_state in (True, False):
        for noisy in (False, True):
            label = f"SVBackendImpl.__init__[{'initial state' if with_state else 'default state'},{'noisy' if noisy else 'noiseless'}]"
            reg.class_policies["emu_sv.state_vector:StateVector"] = state_ctor("StateVector")
            reg.class_policies["emu_sv.density_matrix_state:DensityMatrix"] = state_ctor("DensityMatrix")
            reg.add_contract(Contract(
                f"{SVIMPL}:SVBackendImpl.__init__", property=prop, label=label,
                params={"self": lambda I, n: None, "config": lambda I, n: None, "data": lambda I, n: None},
                setup=setup_init(with_state, noisy), policies=dict(own_policies),
                # a configured initial state cannot be combined with state-preparation errors
                raises=({"NotImplementedError": "data.state_prep_error > 0"} if with_state else {}),
                ensures=[f"self.state.kind == {'DensityMatrix' if noisy else 'StateVector'!r}",
                         f"class_name(self.stepper) == {'EvolveDensityMatrix' if noisy else 'EvolveStateVector'!r}"]
                + (["is_new_storage(self.state.data, config.initial_state.data)"] if with_state else []),
                ensures_names=["state-representation-matches-noise", "stepper-matches-noise"]
                + (["evolving-state-does-not-share-storage-with-the-configured-initial-state"] if with_state else []),
            ), callsite=False)


INIT_LABELS = [f"SVBackendImpl.__init__[{a},{b}]" for a in ("initial state", "default state") for b in ("noiseless", "noisy")]

