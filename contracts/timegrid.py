"""Contracts for the simulation time grid: emu_base.pulser_adapter._get_target_times and
_unique_observable_times (C21, and the separation clause of C14).

Floats are exact reals (A1).  The sequence duration is an arbitrary real D > 0, dt an arbitrary
real > 0 (with dt > 2e-10 * D: fewer than 5e9 steps), the requested evaluation times an arbitrary
set E of reals in [0, 1] (uninterpreted predicate).  Sets of floats are predicates, sorted() and
bisect_left() come with their trusted specifications (pyvc/floatsets.py)."""
from fractions import Fraction

import z3

from pyvc import floatsets as FS, ops
from pyvc.paths import NeedFork
from pyvc.registry import Contract
from pyvc.values import Opaque, SymObj, SymSeq, Unsupported, to_z3

ADAPTER = "emu_base.pulser_adapter"
TOL = Fraction(1, 10 ** 10)          # the matcher tolerance of the backends (_is_evaluation_time)
TOLZ = to_z3(TOL)


TRUSTED = [
    "sorted() of a set of distinct reals returns the strictly increasing enumeration of exactly its members; "
    "bisect.bisect_left(sorted list, v) is the number of entries < v (pyvc/floatsets.py)",
    "set comprehensions, set.add and | have their mathematical meaning on sets of reals (floats as reals, A1)",
    "pulser validates evaluation times to lie in [0, 1]; sequence.get_duration(...) > 0; "
    "domain: dt > 2e-10 * duration (fewer than 5e9 steps)",
    "`s |= t` on a local set that has no alias is `s = s | t`",
    "a local list built by appends in a loop is modelled by its length, its last element and the set of its "
    "elements (`not xs`, `xs[-1]`, `xs.append(t)`, `set(xs)`; contracts/timegrid.py: KeptList); universally "
    "quantified loop invariants about its members are instantiated at the terms the obligations name",
    "_get_target_times sees the result of _unique_observable_times only as 'a set of requested times in "
    "[0, 1]' (its own contract is verified separately)",
]
NOT_DECIDED_C21 = [
    "floating-point rounding inside _get_target_times (proved over the reals; the overshoot of the pinned "
    "tree, (i*dt/D)*D > D, is demonstrated by the native replay and the bounded float side check only)",
    "'each noise trajectory is simulated as many times as Pulser requests' is C34 (get_sequences)",
]
BOUNDED_C21 = [
    "floating-point side obligations fp/* (first == 0, last == duration exactly, strictly increasing, within "
    "[0, D], requested times matched): concrete IEEE-double execution of the function's source on a fixed grid "
    "of ~1250 (duration, dt) pairs (durations 1..10000, dt 0.1..12345), not a proof",
    "_unique_observable_times[default=Full]: only that a ValueError may be raised and that a normal return "
    "collects exactly the observables' own times",
]
TRUSTED_C14 = [
    "pulser's matcher (A4): is_time_in_evaluation_times(t, times, tol) / is_evaluation_time(t, tol) hold iff "
    "0 <= t <= 1 and |t - e| <= tol for some requested time e (uninterpreted predicates M_own, M_def)",
    "Observable.__call__ stores a value iff the time matches one of the observable's own times (its default "
    "times if it has none) within 0.5/duration >= 1e-10: invoked at a matching time => exactly one stored value",
    "opaque callees (stepper.apply, get_hamiltonian, _save_statistics, update_H, init_baths, make_H, "
    "_get_interaction_matrix, the observables) do not touch target_times, the step counters or the state "
    "except as modelled (stepper.apply returns the next state); SequenceData has omega.shape[0] == "
    "len(target_times) - 1 (C22 shape clause) and target_times[-1] > 0 (C21)",
    "[x for x in seq if c(x)] is the sub-sequence of the elements satisfying c, in order (pyvc/floatsets.py)",
]
NOT_DECIDED_C14 = [
    "MPSBackendImpl.progress / sweep_complete and the noisy / DMRG variants (that timestep_complete is called "
    "exactly when the sweep has brought the state to target_time: the precondition of timestep_complete here) -- "
    "the quantum-jump root finding moves target_time between target times and is not under contract",
    "separation (exactly one target time per requested time e) is proved under H(e): the requested times and grid "
    "times (multiples of dt, the duration) within the tolerance 1e-10 of e are within the tolerance of ONE ANOTHER "
    "-- this covers requests within the tolerance of each other (merged: one target time serves them all) and holds "
    "whenever any two requested/grid times are within the tolerance of each other or more than twice the tolerance "
    "apart.  EXCLUDED residual regime: a request e in a chain p ~ e ~ p' (p, p' requested or grid times within the "
    "tolerance of e) with |p - p'| in (tol, 2 tol]; no grid made of requested times can serve such chains exactly "
    "once in general and none is attempted.  The repaired code does NOT record exactly once there (native, "
    "`replay/c14.py --residual`, both backends): duration 1000, dt 7, three observables at 0.3, 0.3+0.8e-10, "
    "0.3+1.6e-10 -> target times 300 and 300.00000016, the middle observable is stored twice; duration 1000, dt 10, "
    "observables at 0.3+0.5e-10 (on the grid time 300) and 0.3+1.2e-10 -> the first is stored twice (at 300 and at "
    "300.00000012).  Every request is still recorded at least once there (coverage is unconditional).  pulser itself "
    "rejects times closer than 1e-12 within one observable",
    "that the value stored is numerically the observable of the state (C15/C16 territory)",
    "floating-point rounding of target_times[k] / target_times[-1] in the matcher (reals here; the bounded "
    "float side check fp/one-target-time-per-requested-time and the native replay exercise it)",
]
BOUNDED_C14 = [
    "fp/one-target-time-per-requested-time: concrete IEEE-double execution of _get_target_times on ~1250 "
    "(duration, dt) pairs with numpy.linspace(0,1,101) / thirds as requested times, plus 9 inputs with requested "
    "times within the tolerance of each other (0.3 and 0.1+0.2; 0.45 and 0.45+5e-11; 0.6, +4e-11, +9e-11)",
]
EXPLANATION_C14 = (
    "C14 is assembled from (a) _get_target_times: every requested time is matched by a target time, nothing "
    "but grid points and requested times is in the grid, and no two target times match one requested time "
    "(separation, also for requested times within the tolerance of each other: the de-duplication loop is verified "
    "with invariants -- kept times are off-grid requested times, more than the tolerance apart, and every off-grid "
    "requested time is within the tolerance above a kept one); (b) the backends' protocol, verified with monitors (ghost counters on the implementation "
    "object checked at every call of the stepper and of an observable): len(target_times)-1 solver steps, each "
    "over [t_k, t_k+1] from the current state with the drives of step k; observables applied at index 0 before "
    "the first step and after step k at t_{k+1}/t_last on the state produced by that step, each target index "
    "exactly once in increasing order, every observable that wants the time invoked exactly once; "
    "(c) _is_evaluation_time selects an observable exactly at the times it wants.")
EXPLANATION_C21 = (
    "_get_target_times is executed symbolically on a duration D > 0, a step dt > 2e-10*D and an arbitrary set "
    "of requested times in [0,1]; the result list is characterised by the trusted specification of sorted(). "
    "Clause 'contains every requested time' is stated up to the matcher tolerance: together with 'contains every "
    "multiple of dt' and separation it is unsatisfiable exactly (a request within 1e-10 of a grid point).  It holds "
    "for EVERY set of requested times, also for requests within the tolerance of each other, which the "
    "de-duplication loop merges (loop invariant: every off-grid requested time seen so far is within the tolerance "
    "above a kept one); the exactly-once side is C14's separation clause (excluded regime stated there).")


def extra_targets(reg, prop):
    return list(reg.hooks.get("timegrid_extra_targets", []))


def _g(I):
    return I.ctx.ghost["timegrid"]


def _absz(x):
    return z3.If(x >= 0, x, -x)


# ---------------------------------------------------------------------------------------------
# lemmas (pure real arithmetic, proved once; instances are used as hypotheses)
# ---------------------------------------------------------------------------------------------
def stmt_scale_unit(e, D):
    """0 <= e <= 1 and D > 0  ==>  0 <= e*D <= D"""
    return z3.And(e >= 0, e <= 1, D > 0), z3.And(e * D >= 0, e * D <= D)


def stmt_scale_gap(e, x, D):
    """gaps scale with the duration"""
    return D > 0, z3.And(z3.Implies(x - e > TOLZ, x * D - e * D > TOLZ * D),
                         z3.Implies(e - x > TOLZ, e * D - x * D > TOLZ * D),
                         z3.Implies(x == e, x * D == e * D))


def stmt_match_abs(y, e, D):
    """the matcher |y/D - e| <= tol is |y - e*D| <= tol*D"""
    return D > 0, (_absz(y / D - e) <= TOLZ) == z3.And(y - e * D <= TOLZ * D, e * D - y <= TOLZ * D)


def stmt_scale_close(x, e, D):
    """being within the tolerance scales with the duration: |x - e| <= tol  <=>  |x*D - e*D| <= tol*D"""
    return D > 0, (_absz(x - e) <= TOLZ) == z3.And(x * D - e * D <= TOLZ * D, e * D - x * D <= TOLZ * D)


def stmt_int_gap(i, j, dt):
    """distinct integer multiples of dt > 0 are at least dt apart"""
    ri, rj = z3.ToReal(i), z3.ToReal(j)
    return dt > 0, z3.And(z3.Implies(i < j, rj * dt - ri * dt >= dt),
                          z3.Implies(j < i, ri * dt - rj * dt >= dt))


def _lemma(stmt, names):
    def body(I, ctx):
        vs = [ctx.fresh(n[4:], "int") if n.startswith("int:") else ctx.fresh(n, "real") for n in names]
        hyp, concl = stmt(*vs)
        ctx.assume(hyp)
        ctx.prove("holds", concl, "lemma")
    return body


LEMMAS = [("scale_unit", _lemma(stmt_scale_unit, ("e", "D"))),
          ("scale_gap", _lemma(stmt_scale_gap, ("e", "x", "D"))),
          ("match_abs", _lemma(stmt_match_abs, ("y", "e", "D"))),
          ("scale_close", _lemma(stmt_scale_close, ("x", "e", "D"))),
          ("int_gap", _lemma(stmt_int_gap, ("int:i", "int:j", "dt")))]


def _use(I, stmt, *args):
    hyp, concl = stmt(*args)
    I.ctx.assume(z3.Implies(hyp, concl))


# ---------------------------------------------------------------------------------------------
# the de-duplication loop of _get_target_times:
#     extra_times = []
#     for t in off_grid:                       # sorted off-grid requested times
#         if not extra_times or t - extra_times[-1] > tolerance:
#             extra_times.append(t)
# `extra_times` is a KeptList: its length n, its last element and the SET of its elements (an
# uninterpreted predicate K for the state at the loop head, plus what has been appended since).
# The loop invariants are universally quantified statements about the members of K; a statement is
# represented by its value at fresh witnesses (goal: Skolem constants; hypothesis: a counterexample
# if there is one -- Hilbert choice, cf. `universal`) and, when it speaks of the loop-head state, is
# instantiated at every term K is applied to (AbsPred axioms hook) -- quantifier-free throughout.
# ---------------------------------------------------------------------------------------------
class KeptList:
    def __init__(self, I, name):
        ctx = I.ctx
        self.name = name
        self.n = ctx.fresh(name + ".len", "int")
        ctx.assume(self.n >= 0)
        self.last = ctx.fresh(name + ".last", "real")
        self.terms: dict = {}
        self.unary: list = []
        self.binary: list = []
        self.covers: list = []
        self.origin = None                  # the sorted list the loop runs over
        self.pred = FS.AbsPred(I, name, axioms=self._on_term)
        self.pred.kept = self
        self.set = FS.FloatSet(I, [FS.AbsComp(self.pred)])
        FS.lazy(I, "loop invariants over the members of a list built by appends")

    # -- the interpreter's view ------------------------------------------------------------------
    @property
    def length(self):
        return self.n

    def truth(self, I):
        return self.n > 0

    def getitem(self, I, idx):
        if not (isinstance(idx, int) and idx == -1):
            raise Unsupported("only [-1] is read from the list of kept times")
        if I.ctx.speculative:
            raise NeedFork()
        if not I.ctx.branch(self.n > 0):
            from pyvc.interp import RaiseSig
            raise RaiseSig("IndexError", "list index out of range", I.ctx.cur_line)
        return self.last

    def call_method(self, I, name, args, kwargs):
        if name != "append" or len(args) != 1 or kwargs:
            raise Unsupported(f"list method .{name}() on the list of kept times")
        if I.ctx.speculative:
            raise NeedFork()
        x = FS._real(args[0])
        self.set.comps = self.set.comps + [FS.Single(x)]
        self.set.version += 1
        self.set.note_term(I, x)
        self.n = self.n + 1
        self.last = x
        return None

    def as_set(self, I):
        return self.set.copy(I)

    def havoc(self, I, name):
        return KeptList(I, name)

    # -- members and statements about all members -------------------------------------------------
    def pure(self):
        """the loop-head state: nothing appended since the havoc (only then a statement is a hypothesis)"""
        return len(self.set.comps) == 1

    def _on_term(self, I, x):
        self.note(I, x)
        return []

    def note(self, I, x):
        x = FS._real(x)
        key = FS._key(x)
        if key in self.terms:
            return
        others = list(self.terms.values())
        self.terms[key] = x
        for phi, schema in list(self.unary):
            I.ctx.assume(z3.Implies(phi, schema(x)))
        for phi, schema in list(self.binary):
            I.ctx.assume(z3.Implies(phi, schema(x, x)))
            for y in others:
                I.ctx.assume(z3.Implies(phi, z3.And(schema(x, y), schema(y, x))))

    def forall(self, I, arity, schema):
        ws = [I.ctx.fresh("kept", "real") for _ in range(arity)]
        phi = to_z3(schema(*ws))
        for w in ws:
            self.note(I, w)
        if self.pure():
            terms = list(self.terms.values())
            if arity == 1:
                self.unary.append((phi, schema))
                for x in terms:
                    I.ctx.assume(z3.Implies(phi, schema(x)))
            else:
                self.binary.append((phi, schema))
                for x in terms:
                    for y in terms:
                        I.ctx.assume(z3.Implies(phi, schema(x, y)))
        return phi


def _kept_state(I, kept):
    """(membership test, length, last) of the list as it is now (a snapshot: the list is mutated later)"""
    if isinstance(kept, list):
        if kept:
            raise Unsupported("a non-empty concrete list of kept times")
        return None
    if not isinstance(kept, KeptList):
        raise Unsupported("the kept times are not the list built by the de-duplication loop")
    comps = list(kept.set.comps)

    def mem(x):
        return to_z3(ops.b_or(*[c.member(I, x) for c in comps]))
    return mem, kept.n, kept.last


def _off(off):
    if not isinstance(off, FS.SortedSeq):
        raise Unsupported("the de-duplication loop does not run over the sorted() of a set of floats")
    return off


def kept_from(I, kept, off, k):
    """invariant: every kept time is one of the first k times of the sorted list `off`"""
    st = _kept_state(I, kept)
    if st is None:
        return True
    mem, _, _ = st
    off = _off(off)
    kept.origin = off
    kz = to_z3(k)

    def schema(y):
        r = off.rank(y)
        g = I.ctx.ghost
        g["fs_depth"] = g.get("fs_depth", 0) + 1      # (the set's filter stays folded for these instances)
        try:
            off._read(I, r)
        finally:
            g["fs_depth"] -= 1
        return z3.Implies(mem(y), z3.And(r >= 0, r < kz, off.T(r) == y))
    return kept.forall(I, 1, schema)


def kept_last(I, kept):
    """invariant: a non-empty list's last element is a member, and the greatest one"""
    st = _kept_state(I, kept)
    if st is None:
        return True
    mem, n, last = st

    def schema(y):
        return z3.Implies(mem(y), z3.And(n > 0, y <= last))
    phi = kept.forall(I, 1, schema)
    kept.note(I, last)
    return z3.And(z3.Implies(n > 0, mem(last)), phi)


def kept_apart(I, kept):
    """invariant: two distinct kept times are more than the tolerance apart"""
    st = _kept_state(I, kept)
    if st is None:
        return True
    mem, _, _ = st
    D = _g(I)["D"]

    def schema(y, z):
        return z3.Implies(z3.And(mem(y), mem(z), y < z), z - y > TOLZ * D)
    return kept.forall(I, 2, schema)


def kept_covers(I, kept, off, k):
    """invariant: each of the first k times of `off` lies within the tolerance above (or at) a kept time.
    forall j < k exists y: truth value phi with  phi ==> P(j, W(j)) for a witness function W (instances: the
    index terms named by the other statements / the clauses) and  not phi ==> not P(j0, c) for a fresh j0 < k
    and the candidate witnesses c (the other statements' witnesses at j0, the last element)."""
    off = _off(off)
    kz = to_z3(k)
    if _kept_state(I, kept) is None:
        return kz <= 0
    mem, n, last = _kept_state(I, kept)
    ctx = I.ctx
    D = _g(I)["D"]
    phi = ctx.fresh("covered", "bool")
    W = z3.Function(ctx.fresh_name("kept_below"), z3.IntSort(), z3.RealSort())
    j0 = ctx.fresh("j", "int")

    def P(j, y):
        off._read(I, j, derived=True)
        return z3.And(mem(y), off.T(j) >= y, off.T(j) - y <= TOLZ * D)

    def inst(j):
        j = to_z3(j)
        return z3.Implies(z3.And(phi, j >= 0, j < kz), P(j, W(j)))
    cands = [last]
    for _, inst2, W2, j2 in kept.covers:
        cands.append(W2(j0))
        ctx.assume(inst2(j0))
        ctx.assume(inst(j2))
    for c in kept.set.comps:
        if isinstance(c, FS.Single):
            cands.append(to_z3(c.value))
    ctx.assume(z3.Implies(z3.Not(phi), z3.And(j0 >= 0, j0 < kz, *[z3.Not(P(j0, c)) for c in cands])))
    kept.covers.append((phi, inst, W, j0))
    return phi


def _kept_comps(T):
    """the components of the result's set that are lists built by the de-duplication loop"""
    out = []
    for c in T.source.comps:
        kept = getattr(getattr(c, "pred", None), "kept", None)
        if isinstance(c, FS.AbsComp) and kept is not None:
            if kept.origin is None:
                raise Unsupported("the loop invariant kept_from(...) of the de-duplication loop is missing")
            out.append(kept)
    return out


def _requested_preimages(I, kept, y, E, unfold=True):
    """y is a kept time  ==>  y == off[r] == q * D for a requested time q that is off the grid (instances of
    the invariant kept_from and of sorted()'s 'every element is a member'): the candidate terms q"""
    off = kept.origin
    kept.note(I, y)
    r = off.rank(y)
    g = I.ctx.ghost
    depth = g.get("fs_depth", 0)
    g["fs_depth"] = 0 if unfold else depth + 1
    try:
        off._read(I, r)
        off.source.member(I, off.T(r), note=False)
    finally:
        g["fs_depth"] = depth
    return [c.pre(off.T(r)) for c in off.source.comps
            if isinstance(c, FS.AbsComp) and c.pre is not None and c.pred is E]


# ---------------------------------------------------------------------------------------------
# ghost functions of the clauses
# ---------------------------------------------------------------------------------------------
def _sorted_result(T):
    if not isinstance(T, FS.SortedSeq):
        raise Unsupported("the result is not the sorted() of a set of floats: the time-grid clauses "
                          "are stated on that representation")
    return T


def has(I, T, v):
    """v occurs in the list T"""
    return _sorted_result(T).has(I, v)


def every_requested_matched(I, T):
    """for every requested evaluation time e some target time matches it: |t - e*D| <= tol*D.
    (Skolemised universal: a fresh requested time; witnesses: the two neighbours of e*D in T)"""
    T = _sorted_result(T)
    g = _g(I)
    E, D = g["E"], g["D"]
    e = I.ctx.fresh("requested", "real")
    E.holds(I, e, primary=True)
    v = e * D
    T.source.member(I, v, note=True)
    pos = T.bisect_left(I, v)
    hi, lo = T.fn(pos), T.fn(pos - 1)
    # times that went through the de-duplication loop: e*D is on the grid or one of the sorted off-grid times,
    # off[r]; the loop's invariant kept_covers at r names the kept time just below it (a member of the result)
    for kept in _kept_comps(T):
        off = kept.origin
        off.source.member(I, v, note=True)
        r = off.rank(v)
        for _, inst, W, _ in kept.covers:
            I.ctx.assume(inst(r))
            T.source.member(I, W(r), note=True)
    matched = z3.Or(z3.And(pos < T.length, hi - v <= TOLZ * D), z3.And(pos > 0, v - lo <= TOLZ * D))
    return z3.Implies(E.P(e), matched)


def only_grid_or_requested(I, T):
    """every target time is a multiple of dt, the duration, or e*D for a requested e
    (witnesses of the existentials: the Skolem pre-images of the set's membership predicate)"""
    T = _sorted_result(T)
    g = _g(I)
    E, D, dt = g["E"], g["D"], g["dt"]
    k = I.ctx.fresh("k", "int")
    I.saw_index(k)
    y = T.fn(k)
    T.source.member(I, y, note=True)
    alts = [y == D]
    for c in T.source.comps:
        if isinstance(c, FS.RangeComp) and c.idx is not None:
            j = c.idx(y)
            alts.append(z3.And(j >= 0, y == z3.ToReal(j) * dt))
        elif isinstance(c, FS.AbsComp) and c.pre is not None and c.pred is E:
            q = c.pre(y)
            alts.append(z3.And(E.P(q), y == q * D))
        elif isinstance(c, FS.Single):
            v = to_z3(c.value)
            alts.append(z3.And(y == v, v == D))
    for kept in _kept_comps(T):
        # a time kept by the de-duplication loop is one of the off-grid requested times (invariant kept_from)
        for q in _requested_preimages(I, kept, y, E, unfold=False):
            alts.append(z3.And(E.P(q), y == q * D))
    return z3.Implies(T.inrange(k), z3.Or(*alts))


def separated(I, T, with_hypothesis=True):
    """No requested evaluation time e is matched by two distinct target times (matcher of the backends:
    |t/D - e| <= 1e-10) -- also when other requested times lie within the tolerance of e (they are the same
    request to the matcher) -- provided the neighbourhood of e is consistent for a tolerance matcher:

        H(e): the requested times and the grid times (multiples of dt, the duration) that lie within the
              tolerance of e lie within the tolerance of ONE ANOTHER.

    H(e) holds in particular when any two of the requested / grid times are either within the tolerance of
    each other or more than twice the tolerance apart (then 'within the tolerance' is transitive).  It fails
    exactly when e sits in a chain  p ~ e ~ p'  with |p - p'| > tolerance: no subset of the requested times
    can then serve p, e and p' exactly once each in general (NOT_DECIDED_C14).
    The universally quantified H(e) is used at the pre-images of the two target times (its only relevant
    instances: the two target times are requested or grid times and both match e)."""
    T = _sorted_result(T)
    g = _g(I)
    E, D, dt = g["E"], g["D"], g["dt"]
    ctx = I.ctx
    e = ctx.fresh("requested", "real")
    a, b = ctx.fresh("a", "int"), ctx.fresh("b", "int")
    E.holds(I, e, primary=True)
    I.saw_index(a)
    I.saw_index(b)
    ya, yb = T.fn(a), T.fn(b)
    T.source.member(I, e * D, note=True)
    kepts = _kept_comps(T)
    # what a target time y can be: a grid time, or q * D for a requested time q (candidates q)
    ys, is_grid, reqs, js = (ya, yb), [], [], []
    for y in ys:
        alts, qs = [], []
        for c in T.source.comps:
            if isinstance(c, FS.RangeComp) and c.idx is not None:
                j = c.idx(y)
                js.append(j)
                alts.append(z3.And(j >= 0, y == z3.ToReal(j) * dt))
            elif isinstance(c, FS.Single):
                alts.append(z3.And(y == to_z3(c.value), to_z3(c.value) == D))
            elif isinstance(c, FS.AbsComp) and c.pre is not None and c.pred is E:
                qs.append(c.pre(y))
        for kept in kepts:
            qs += _requested_preimages(I, kept, y, E, unfold=True)
        is_grid.append(z3.Or(*alts))
        reqs.append(qs)
    near = lambda x: z3.And(E.P(x), _absz(x - e) <= TOLZ)
    pr = []
    for n, m in ((0, 1), (1, 0)):
        for q in reqs[n]:
            _use(I, stmt_scale_close, q, e, D)
            # H(e), two requested times
            for q2 in reqs[m]:
                if n == 0:
                    pr.append(z3.Implies(z3.And(near(q), near(q2)), _absz(q - q2) <= TOLZ))
                    _use(I, stmt_scale_close, q, q2, D)
            # H(e), a grid time and a requested time
            pr.append(z3.Implies(z3.And(is_grid[m], _absz(ys[m] - e * D) <= TOLZ * D, near(q)),
                                 _absz(ys[m] - q * D) <= TOLZ * D))
    for y in (ya, yb):
        _use(I, stmt_match_abs, y, e, D)
    # distinct multiples of dt are at least dt apart (instances for the Skolem indices of ya, yb)
    for n, i in enumerate(js):
        for j in js[n + 1:]:
            _use(I, stmt_int_gap, i, j, dt)
    match = lambda y: _absz(y / D - e) <= TOLZ
    base = z3.And(E.P(e), a >= 0, a < b, b < T.length)
    concl = z3.Not(z3.And(match(ya), match(yb)))
    if not with_hypothesis:
        # the instances of H(e) are kept for the region of the known finding (same Skolem e, a, b)
        I.ctx.ghost["separation_H_instances"] = pr
        return z3.Implies(base, concl)
    return z3.Implies(z3.And(base, *pr), concl)


def separated_everywhere(I, T):
    """Separation for EVERY requested time e, without the hypothesis H(e) of `separated`.  It does not hold:
    known finding F20 (region `in_chain`)."""
    return separated(I, T, with_hypothesis=False)


def in_chain(I, T):
    """Region of known finding F20 = not H(e) for the requested time e of `separated_everywhere` (shared Skolem
    constant): e lies in a chain p ~ e ~ p' -- p, p' requested or grid times within the tolerance of e -- with
    |p - p'| > tolerance (hence in (tol, 2 tol]).  not H(e) is an existential statement; it is represented by the
    disjunction of its instances at the only candidates that matter (p, p' among the two target times that match
    e, resp. their requested pre-images): every such instance is a genuine chain at e, so 'the clause can only
    fail where this disjunction holds' implies 'it can only fail inside the region'."""
    pr = I.ctx.ghost.get("separation_H_instances")
    if pr is None:
        raise Unsupported("in_chain(...) is the region of separated_everywhere(...): evaluate that clause first")
    return z3.Not(z3.And(*pr)) if pr else False


# ---------------------------------------------------------------------------------------------
# models
# ---------------------------------------------------------------------------------------------
def requested_set(I, config):
    """A4/C21: the value of _unique_observable_times(config): the set of requested evaluation
    times (its contract is verified separately)"""
    return FS.FloatSet(I, [FS.AbsComp(config.fields["__requested__"])])


# ---------------------------------------------------------------------------------------------
# _unique_observable_times: arbitrarily many observables, each with its own evaluation times
# (an arbitrary set of reals in [0,1]) or None (-> the configuration's default times)
# ---------------------------------------------------------------------------------------------
class TimesV(Opaque):
    """An evaluation-times collection (list / array of floats) of which only the set of values
    matters: set(v) is the abstract set given by `pred`; `v is None` is attrs['__is_none__']."""

    def as_set(self, I):
        return FS.FloatSet(I, [FS.AbsComp(self.pred)])


def _member(I, S, x):
    return to_z3(FS.to_floatset(I, S).member(I, x))


def universal(I, family, schema, witness):
    """The truth value of  `forall args. schema(args)`  usable in both polarities: it is
    schema(witness) for fresh witness constants (a counterexample if there is one -- Hilbert
    choice), and implies its instances at the witnesses of the other statements of the family
    (the goal's Skolem constants are the terms the hypotheses are needed at)."""
    st = I.ctx.ghost.setdefault("universals", {}).setdefault(family, {"stmts": [], "wits": []})
    FS.lazy(I, "universal ghost statements instantiated at each other's witnesses")
    phi = schema(*witness)
    for w in st["wits"]:
        I.ctx.assume(z3.Implies(phi, schema(*w)))
    for phi2, schema2 in st["stmts"]:
        I.ctx.assume(z3.Implies(phi2, schema2(*witness)))
    st["stmts"].append((phi, schema))
    st["wits"].append(witness)
    return phi


def all_requested_in(I, S, k):
    """every time requested by one of the first k observables is a member of S"""
    u = I.ctx.ghost["uot"]
    kz = to_z3(k)

    def schema(j, x):
        return z3.Implies(z3.And(j >= 0, j < kz, u["req"](j, x)), _member(I, S, x))
    w = (I.ctx.fresh("obs", "int"), I.ctx.fresh("time", "real"))
    return universal(I, "all_requested_in", schema, w)


def only_requested(I, S, k):
    """every member of S is requested by some observable (J: a choice function for 'some')"""
    u = I.ctx.ghost["uot"]
    J, n, req = u["J"], u["n"], u["req"]
    ks = [to_z3(k), to_z3(k) - 1]

    def schema(x):
        good = z3.And(J(x) >= 0, J(x) < n, req(J(x), x))
        for j in ks:      # choice: if observable j requests x then J(x) is an observable requesting x
            I.ctx.assume(z3.Implies(z3.And(j >= 0, j < n, req(j, x)), good))
        return z3.Implies(_member(I, S, x), good)
    return universal(I, "only_requested", schema, (I.ctx.fresh("time", "real"),))


def members_in_unit(I, S):
    def schema(x):
        return z3.Implies(_member(I, S, x), z3.And(x >= 0, x <= 1))
    return universal(I, "members_in_unit", schema, (I.ctx.fresh("time", "real"),))


def _setup_unique(default_full):
    def setup(I, fr):
        ctx = I.ctx
        n = ctx.fresh("n_observables", "int")
        ctx.assume(n >= 0)
        none = z3.Function(ctx.fresh_name("times_is_none"), z3.IntSort(), z3.BoolSort())
        Eown = z3.Function(ctx.fresh_name("own_times"), z3.IntSort(), z3.RealSort(), z3.BoolSort())
        Edef = z3.Function(ctx.fresh_name("default_times"), z3.RealSort(), z3.BoolSort())
        unit = lambda I2, x: [x >= 0, x <= 1]          # pulser validates evaluation times
        cache = {}

        def elem(k):
            key = str(k)
            if key not in cache:
                kz = to_z3(k)
                tv = TimesV(f"observables[{k}].evaluation_times")
                tv.attrs["__is_none__"] = none(kz)
                tv.pred = FS.AbsPred(I, "own", unit, P=lambda x, kz=kz: Eown(kz, x))
                o = SymObj("Observable", None)
                o.fields["evaluation_times"] = tv
                cache[key] = o
            return cache[key]
        cfg = SymObj("EmulationConfig", None)
        cfg.fields["observables"] = SymSeq(n, elem)
        if default_full:
            cfg.fields["default_evaluation_times"] = "Full"
            dreq = lambda x: z3.BoolVal(False)
        else:
            dv = TimesV("default_evaluation_times")
            dv.pred = FS.AbsPred(I, "default", unit, P=Edef)
            dv.attrs["tolist"] = lambda I2: dv
            cfg.fields["default_evaluation_times"] = dv
            dreq = Edef
        fr.locals["config"] = cfg
        ctx.ghost["uot"] = dict(
            n=n, J=z3.Function(ctx.fresh_name("requester"), z3.RealSort(), z3.IntSort()),
            req=lambda j, x: z3.If(none(j), dreq(x), Eown(j, x)))
    return setup


def register_unique_observable_times(reg, prop):
    reg.add_class("Observable", module=None, fields={})
    reg.ghost_funcs.update(all_requested_in=all_requested_in, only_requested=only_requested,
                           members_in_unit=members_in_unit)
    none = lambda I, n: None
    keys = []
    for full in (False, True):
        label = "_unique_observable_times" + ("[default=Full]" if full else "")
        reg.add_contract(Contract(
            f"{ADAPTER}:_unique_observable_times", property=prop, label=label,
            params={"config": none}, setup=_setup_unique(full),
            # default_evaluation_times == "Full" is refused as soon as an observable relies on it
            raises={"ValueError": None} if full else {},
            loops={0: dict(invariant=["all_requested_in(observable_times, _k)",
                                      "only_requested(observable_times, _k)",
                                      "members_in_unit(observable_times)"],
                           locals={"observable_times": lambda I, n: FS.FloatSet(I, [FS.AbsComp(FS.AbsPred(I, n))])})},
            ensures=[
                # exactly the requested times: those of every observable (its own ones, or the
                # configuration's default ones when it has none) and nothing else
                "all_requested_in(result, len(config.observables))",
                "only_requested(result, len(config.observables))",
                "members_in_unit(result)",
            ],
            ensures_names=["every-requested-time-collected", "only-requested-times", "times-in-[0,1]"],
        ), callsite=False)
        keys.append(f"{ADAPTER}:{label}")
    return keys


def _setup_target_times(I, fr):
    ctx = I.ctx
    D = ctx.fresh("D", "real")
    dt = ctx.fresh("dt", "real")
    wm = ctx.fresh("with_modulation", "bool")
    ctx.assume(z3.And(D > 0, dt > 0))

    def axioms(I2, x):
        _use(I2, stmt_scale_unit, x, D)
        return [x >= 0, x <= 1]
    E = FS.AbsPred(I, "requested", axioms)
    seq = SymObj("Sequence", None)

    def get_duration(I2, include_fall_time=False):
        # the duration is asked for with the configuration's modulation flag
        if not I2.ctx.speculative:
            I2.ctx.prove("duration-uses-config-modulation", to_z3(include_fall_time) == wm, "safety")
        return D
    seq.fields["get_duration"] = get_duration
    cfg = SymObj("EmulationConfig", None)
    cfg.fields["with_modulation"] = wm
    cfg.fields["__requested__"] = E
    fr.locals.update(sequence=seq, config=cfg, dt=dt, D=D, N=z3.ToInt(D / dt), TOL=TOL)
    ctx.ghost["timegrid"] = dict(E=E, D=D, dt=dt)
    # counterexample search only (pyvc/session.py): with a fixed duration and step the products e*D, i*dt are linear
    ctx.ghost["sat_hints"] = [D == 1, dt == to_z3(Fraction(1, 4))]


def register(reg, prop="C21"):
    FS.install(reg)
    reg.add_class("Sequence", module=None, fields={})
    reg.add_class("EmulationConfig", module=None, fields={})
    reg.ghost_funcs.update(has=has, every_requested_matched=every_requested_matched,
                           only_grid_or_requested=only_grid_or_requested, separated=separated,
                           separated_everywhere=separated_everywhere, in_chain=in_chain,
                           kept_from=kept_from, kept_last=kept_last, kept_apart=kept_apart,
                           kept_covers=kept_covers)
    none = lambda I, n: None
    extra = []
    if prop == "C21":
        extra += register_unique_observable_times(reg, prop)
    reg.hooks["timegrid_extra_targets"] = extra

    # One verification run per group of clauses (the runs are independent and go in parallel;
    # every run executes the whole function).
    for label, clauses in TARGET_TIME_CLAUSES.items():
        if prop not in clauses["props"]:
            continue
        reg.add_contract(Contract(
            f"{ADAPTER}:_get_target_times", property=prop, label=f"_get_target_times[{label}]",
            params={"sequence": none, "config": none, "dt": none}, setup=_setup_target_times,
            requires=["dt > 2 * TOL * D"],
            policies={f"{ADAPTER}:_unique_observable_times": requested_set},
            raises={},
            # the de-duplication loop over the sorted off-grid requested times (each group of clauses carries
            # the invariants it needs; a tree without the loop simply does not use them)
            loops={0: dict(invariant=[DEDUPE_INVARIANTS[n] for n in clauses.get("invariants", ("from",))],
                           locals={"extra_times": lambda I, n: KeptList(I, n)})},
            ensures=[c for _, c in clauses["ensures"]],
            ensures_names=[n for n, _ in clauses["ensures"]],
        ), callsite=False)


DEDUPE_INVARIANTS = {
    # every kept time is one of the off-grid requested times seen so far
    "from": "kept_from(extra_times, _iter, _k)",
    # the last element is the greatest kept time
    "last": "kept_last(extra_times)",
    # kept times are more than the tolerance apart
    "apart": "kept_apart(extra_times)",
    # every off-grid requested time seen so far is within the tolerance above a kept time
    "covers": "kept_covers(extra_times, _iter, _k)",
}

TARGET_TIME_CLAUSES = {
    "start": dict(props=("C21",), ensures=[
        ("contains-0", "has(result, 0)"),
        ("strictly-increasing", "forall(lambda k: result[k] < result[k + 1], 0, len(result) - 1)"),
        ("starts-at-0", "result[0] == 0"),
    ]),
    "end": dict(props=("C21",), ensures=[
        ("contains-duration", "has(result, D)"),
        ("ends-at-duration", "result[len(result) - 1] == D"),
    ]),
    "steps": dict(props=("C21",), ensures=[
        ("contains-0", "has(result, 0)"),
        ("contains-duration", "has(result, D)"),
        # (the number of solver steps is len - 1 >= 1)
        ("at-least-one-step", "len(result) >= 2"),
    ]),
    "range": dict(props=("C21",), ensures=[
        ("within-[0,D]", "forall(lambda k: 0 <= result[k] and result[k] <= D, 0, len(result))"),
    ]),
    "multiples": dict(props=("C21",), ensures=[
        # every multiple of dt up to the duration (one that is within twice the matcher tolerance
        # of the end is represented by the duration itself)
        ("contains-multiples-of-dt",
         "forall(lambda i: has(result, i * dt) or D - i * dt <= 2 * TOL * D, 0, N + 1)"),
    ]),
    "requested": dict(props=("C21", "C14"), invariants=("from", "last", "covers"), ensures=[
        # every requested evaluation time is matched by a target time
        ("requested-times-matched", "every_requested_matched(result)"),
    ]),
    "nothing-else": dict(props=("C21", "C14"), ensures=[
        ("only-grid-or-requested", "only_grid_or_requested(result)"),
    ]),
    "separation": dict(props=("C14",), invariants=("from", "last", "apart"), ensures=[
        # no requested time is matched by two target times
        ("separation", "separated(result)"),
    ]),
    "separation-all": dict(props=("C14",), invariants=("from", "last", "apart"), ensures=[
        # ... for EVERY requested time (no hypothesis): fails only inside the region in_chain(result) of the open
        # known finding F20 (known_findings.json); a failure outside it is a violation as usual
        ("separation-without-chain-hypothesis", "separated_everywhere(result)"),
    ]),
}


def target_time_keys(prop):
    return [f"{ADAPTER}:_get_target_times[{label}]" for label, c in TARGET_TIME_CLAUSES.items()
            if prop in c["props"]]
