"""Contracts for the simulation time grid: emu_base.pulser_adapter._get_target_times and
_unique_observable_times (C21, and the separation clause of C14).

Floats are exact reals (A1).  The sequence duration is an arbitrary real D > 0, dt an arbitrary
real > 0 (with dt > 2e-10 * D: fewer than 5e9 steps), the requested evaluation times an arbitrary
set E of reals in [0, 1] (uninterpreted predicate).  Sets of floats are predicates, sorted() and
bisect_left() come with their trusted specifications (pyvc/floatsets.py)."""
from fractions import Fraction

import z3

from pyvc import floatsets as FS, ops
from pyvc.registry import Contract
from pyvc.values import Opaque, SymObj, SymSeq, Unsupported, to_z3

ADAPTER = "emu_base.pulser_adapter"
TOL = Fraction(1, 10 ** 10)          # the matcher tolerance of the backends (_is_evaluation_time)
TOLZ = to_z3(TOL)


TRUSTED = [
    "sorted() of a set of distinct reals returns the strictly increasing enumeration of exactly its members; "
    "bisect.bisect_left(sorted list, v) is the number of entries < v (pyvc/floatsets.py)",
    "set comprehensions, set.add and | have their mathematical meaning on sets of reals (floats as reals, A1)",
    "pulser validates evaluation times to lie in [0, 1]; sequence.get_duration(...) > 0; "
    "domain: dt > 2e-10 * duration (fewer than 5e9 steps)",
    "`s |= t` on a local set that has no alias is `s = s | t`",
    "_get_target_times sees the result of _unique_observable_times only as 'a set of requested times in "
    "[0, 1]' (its own contract is verified separately)",
]
NOT_DECIDED_C21 = [
    "floating-point rounding inside _get_target_times (proved over the reals; the overshoot of the pinned "
    "tree, (i*dt/D)*D > D, is demonstrated by the native replay and the bounded float side check only)",
    "requested evaluation times that are distinct but closer than the matcher tolerance 1e-10 to each other "
    "(the separation clause is proved under the hypothesis that distinct requests differ by more than it)",
    "'each noise trajectory is simulated as many times as Pulser requests' is C34 (get_sequences)",
]
BOUNDED_C21 = [
    "floating-point side obligations fp/* (first == 0, last == duration exactly, strictly increasing, within "
    "[0, D], requested times matched): concrete IEEE-double execution of the function's source on a fixed grid "
    "of ~1250 (duration, dt) pairs (durations 1..10000, dt 0.1..12345), not a proof",
    "_unique_observable_times[default=Full]: only that a ValueError may be raised and that a normal return "
    "collects exactly the observables' own times",
]
TRUSTED_C14 = [
    "pulser's matcher (A4): is_time_in_evaluation_times(t, times, tol) / is_evaluation_time(t, tol) hold iff "
    "0 <= t <= 1 and |t - e| <= tol for some requested time e (uninterpreted predicates M_own, M_def)",
    "Observable.__call__ stores a value iff the time matches one of the observable's own times (its default "
    "times if it has none) within 0.5/duration >= 1e-10: invoked at a matching time => exactly one stored value",
    "opaque callees (stepper.apply, get_hamiltonian, _save_statistics, update_H, init_baths, make_H, "
    "_get_interaction_matrix, the observables) do not touch target_times, the step counters or the state "
    "except as modelled (stepper.apply returns the next state); SequenceData has omega.shape[0] == "
    "len(target_times) - 1 (C22 shape clause) and target_times[-1] > 0 (C21)",
    "[x for x in seq if c(x)] is the sub-sequence of the elements satisfying c, in order (pyvc/floatsets.py)",
]
NOT_DECIDED_C14 = [
    "MPSBackendImpl.progress / sweep_complete and the noisy / DMRG variants (that timestep_complete is called "
    "exactly when the sweep has brought the state to target_time: the precondition of timestep_complete here) -- "
    "the quantum-jump root finding moves target_time between target times and is not under contract",
    "requested evaluation times that are distinct but within 1e-10 of each other (see C21); pulser itself "
    "rejects times closer than 1e-12 within one observable",
    "that the value stored is numerically the observable of the state (C15/C16 territory)",
    "floating-point rounding of target_times[k] / target_times[-1] in the matcher (reals here; the bounded "
    "float side check fp/one-target-time-per-requested-time and the native replay exercise it)",
]
BOUNDED_C14 = [
    "fp/one-target-time-per-requested-time: concrete IEEE-double execution of _get_target_times on ~1250 "
    "(duration, dt) pairs with numpy.linspace(0,1,101) / thirds as requested times",
]
EXPLANATION_C14 = (
    "C14 is assembled from (a) _get_target_times: every requested time is matched by a target time, nothing "
    "but grid points and requested times is in the grid, and no two target times match one requested time "
    "(separation); (b) the backends' protocol, verified with monitors (ghost counters on the implementation "
    "object checked at every call of the stepper and of an observable): len(target_times)-1 solver steps, each "
    "over [t_k, t_k+1] from the current state with the drives of step k; observables applied at index 0 before "
    "the first step and after step k at t_{k+1}/t_last on the state produced by that step, each target index "
    "exactly once in increasing order, every observable that wants the time invoked exactly once; "
    "(c) _is_evaluation_time selects an observable exactly at the times it wants.")
EXPLANATION_C21 = (
    "_get_target_times is executed symbolically on a duration D > 0, a step dt > 2e-10*D and an arbitrary set "
    "of requested times in [0,1]; the result list is characterised by the trusted specification of sorted(). "
    "Clause 'contains every requested time' is stated up to the matcher tolerance: together with 'contains every "
    "multiple of dt' and separation it is unsatisfiable exactly (a request within 1e-10 of a grid point).")


def extra_targets(reg, prop):
    return list(reg.hooks.get("timegrid_extra_targets", []))


def _g(I):
    return I.ctx.ghost["timegrid"]


def _absz(x):
    return z3.If(x >= 0, x, -x)


# ---------------------------------------------------------------------------------------------
# lemmas (pure real arithmetic, proved once; instances are used as hypotheses)
# ---------------------------------------------------------------------------------------------
def stmt_scale_unit(e, D):
    """0 <= e <= 1 and D > 0  ==>  0 <= e*D <= D"""
    return z3.And(e >= 0, e <= 1, D > 0), z3.And(e * D >= 0, e * D <= D)


def stmt_scale_gap(e, x, D):
    """gaps scale with the duration"""
    return D > 0, z3.And(z3.Implies(x - e > TOLZ, x * D - e * D > TOLZ * D),
                         z3.Implies(e - x > TOLZ, e * D - x * D > TOLZ * D),
                         z3.Implies(x == e, x * D == e * D))


def stmt_match_abs(y, e, D):
    """the matcher |y/D - e| <= tol is |y - e*D| <= tol*D"""
    return D > 0, (_absz(y / D - e) <= TOLZ) == z3.And(y - e * D <= TOLZ * D, e * D - y <= TOLZ * D)


def stmt_int_gap(i, j, dt):
    """distinct integer multiples of dt > 0 are at least dt apart"""
    ri, rj = z3.ToReal(i), z3.ToReal(j)
    return dt > 0, z3.And(z3.Implies(i < j, rj * dt - ri * dt >= dt),
                          z3.Implies(j < i, ri * dt - rj * dt >= dt))


def _lemma(stmt, names):
    def body(I, ctx):
        vs = [ctx.fresh(n[4:], "int") if n.startswith("int:") else ctx.fresh(n, "real") for n in names]
        hyp, concl = stmt(*vs)
        ctx.assume(hyp)
        ctx.prove("holds", concl, "lemma")
    return body


LEMMAS = [("scale_unit", _lemma(stmt_scale_unit, ("e", "D"))),
          ("scale_gap", _lemma(stmt_scale_gap, ("e", "x", "D"))),
          ("match_abs", _lemma(stmt_match_abs, ("y", "e", "D"))),
          ("int_gap", _lemma(stmt_int_gap, ("int:i", "int:j", "dt")))]


def _use(I, stmt, *args):
    hyp, concl = stmt(*args)
    I.ctx.assume(z3.Implies(hyp, concl))


# ---------------------------------------------------------------------------------------------
# ghost functions of the clauses
# ---------------------------------------------------------------------------------------------
def _sorted_result(T):
    if not isinstance(T, FS.SortedSeq):
        raise Unsupported("the result is not the sorted() of a set of floats: the time-grid clauses "
                          "are stated on that representation")
    return T


def has(I, T, v):
    """v occurs in the list T"""
    return _sorted_result(T).has(I, v)


def every_requested_matched(I, T):
    """for every requested evaluation time e some target time matches it: |t - e*D| <= tol*D.
    (Skolemised universal: a fresh requested time; witnesses: the two neighbours of e*D in T)"""
    T = _sorted_result(T)
    g = _g(I)
    E, D = g["E"], g["D"]
    e = I.ctx.fresh("requested", "real")
    E.holds(I, e, primary=True)
    v = e * D
    T.source.member(I, v, note=True)
    pos = T.bisect_left(I, v)
    hi, lo = T.fn(pos), T.fn(pos - 1)
    matched = z3.Or(z3.And(pos < T.length, hi - v <= TOLZ * D), z3.And(pos > 0, v - lo <= TOLZ * D))
    return z3.Implies(E.P(e), matched)


def only_grid_or_requested(I, T):
    """every target time is a multiple of dt, the duration, or e*D for a requested e
    (witnesses of the existentials: the Skolem pre-images of the set's membership predicate)"""
    T = _sorted_result(T)
    g = _g(I)
    E, D, dt = g["E"], g["D"], g["dt"]
    k = I.ctx.fresh("k", "int")
    I.saw_index(k)
    y = T.fn(k)
    T.source.member(I, y, note=True)
    alts = [y == D]
    for c in T.source.comps:
        if isinstance(c, FS.RangeComp) and c.idx is not None:
            j = c.idx(y)
            alts.append(z3.And(j >= 0, y == z3.ToReal(j) * dt))
        elif isinstance(c, FS.AbsComp) and c.pre is not None and c.pred is E:
            q = c.pre(y)
            alts.append(z3.And(E.P(q), y == q * D))
        elif isinstance(c, FS.Single):
            v = to_z3(c.value)
            alts.append(z3.And(y == v, v == D))
    return z3.Implies(T.inrange(k), z3.Or(*alts))


def separated(I, T):
    """two distinct target times never match the same requested evaluation time (matcher of the
    backends: |t/D - e| <= 1e-10), provided distinct requested times differ by more than that
    tolerance (two requests within the tolerance are one request to the matcher)."""
    T = _sorted_result(T)
    g = _g(I)
    E, D = g["E"], g["D"]
    ctx = I.ctx
    e = ctx.fresh("requested", "real")
    a, b = ctx.fresh("a", "int"), ctx.fresh("b", "int")
    E.holds(I, e, primary=True)
    I.saw_index(a)
    I.saw_index(b)
    ya, yb = T.fn(a), T.fn(b)
    T.source.member(I, e * D, note=True)
    pr = []
    for x in E.all_terms():
        if x.eq(e):
            continue
        pr.append(z3.Implies(z3.And(E.P(x), x != e), _absz(x - e) > TOLZ))
        _use(I, stmt_scale_gap, e, x, D)
    for y in (ya, yb):
        _use(I, stmt_match_abs, y, e, D)
    # distinct multiples of dt are at least dt apart (instances for the Skolem indices of ya, yb)
    js = []
    for c in T.source.comps:
        if isinstance(c, FS.RangeComp) and c.idx is not None:
            js += [c.idx(ya), c.idx(yb)]
    for n, i in enumerate(js):
        for j in js[n + 1:]:
            _use(I, stmt_int_gap, i, j, g["dt"])
    match = lambda y: _absz(y / D - e) <= TOLZ
    hyp = z3.And(E.P(e), a >= 0, a < b, b < T.length, *pr)
    return z3.Implies(hyp, z3.Not(z3.And(match(ya), match(yb))))


# ---------------------------------------------------------------------------------------------
# models
# ---------------------------------------------------------------------------------------------
def requested_set(I, config):
    """A4/C21: the value of _unique_observable_times(config): the set of requested evaluation
    times (its contract is verified separately)"""
    return FS.FloatSet(I, [FS.AbsComp(config.fields["__requested__"])])


# ---------------------------------------------------------------------------------------------
# _unique_observable_times: arbitrarily many observables, each with its own evaluation times
# (an arbitrary set of reals in [0,1]) or None (-> the configuration's default times)
# ---------------------------------------------------------------------------------------------
class TimesV(Opaque):
    """An evaluation-times collection (list / array of floats) of which only the set of values
    matters: set(v) is the abstract set given by `pred`; `v is None` is attrs['__is_none__']."""

    def as_set(self, I):
        return FS.FloatSet(I, [FS.AbsComp(self.pred)])


def _member(I, S, x):
    return to_z3(FS.to_floatset(I, S).member(I, x))


def universal(I, family, schema, witness):
    """The truth value of  `forall args. schema(args)`  usable in both polarities: it is
    schema(witness) for fresh witness constants (a counterexample if there is one -- Hilbert
    choice), and implies its instances at the witnesses of the other statements of the family
    (the goal's Skolem constants are the terms the hypotheses are needed at)."""
    st = I.ctx.ghost.setdefault("universals", {}).setdefault(family, {"stmts": [], "wits": []})
    FS.lazy(I, "universal ghost statements instantiated at each other's witnesses")
    phi = schema(*witness)
    for w in st["wits"]:
        I.ctx.assume(z3.Implies(phi, schema(*w)))
    for phi2, schema2 in st["stmts"]:
        I.ctx.assume(z3.Implies(phi2, schema2(*witness)))
    st["stmts"].append((phi, schema))
    st["wits"].append(witness)
    return phi


def all_requested_in(I, S, k):
    """every time requested by one of the first k observables is a member of S"""
    u = I.ctx.ghost["uot"]
    kz = to_z3(k)

    def schema(j, x):
        return z3.Implies(z3.And(j >= 0, j < kz, u["req"](j, x)), _member(I, S, x))
    w = (I.ctx.fresh("obs", "int"), I.ctx.fresh("time", "real"))
    return universal(I, "all_requested_in", schema, w)


def only_requested(I, S, k):
    """every member of S is requested by some observable (J: a choice function for 'some')"""
    u = I.ctx.ghost["uot"]
    J, n, req = u["J"], u["n"], u["req"]
    ks = [to_z3(k), to_z3(k) - 1]

    def schema(x):
        good = z3.And(J(x) >= 0, J(x) < n, req(J(x), x))
        for j in ks:      # choice: if observable j requests x then J(x) is an observable requesting x
            I.ctx.assume(z3.Implies(z3.And(j >= 0, j < n, req(j, x)), good))
        return z3.Implies(_member(I, S, x), good)
    return universal(I, "only_requested", schema, (I.ctx.fresh("time", "real"),))


def members_in_unit(I, S):
    def schema(x):
        return z3.Implies(_member(I, S, x), z3.And(x >= 0, x <= 1))
    return universal(I, "members_in_unit", schema, (I.ctx.fresh("time", "real"),))


def _setup_unique(default_full):
    def setup(I, fr):
        ctx = I.ctx
        n = ctx.fresh("n_observables", "int")
        ctx.assume(n >= 0)
        none = z3.Function(ctx.fresh_name("times_is_none"), z3.IntSort(), z3.BoolSort())
        Eown = z3.Function(ctx.fresh_name("own_times"), z3.IntSort(), z3.RealSort(), z3.BoolSort())
        Edef = z3.Function(ctx.fresh_name("default_times"), z3.RealSort(), z3.BoolSort())
        unit = lambda I2, x: [x >= 0, x <= 1]          # pulser validates evaluation times
        cache = {}

        def elem(k):
            key = str(k)
            if key not in cache:
                kz = to_z3(k)
                tv = TimesV(f"observables[{k}].evaluation_times")
                tv.attrs["__is_none__"] = none(kz)
                tv.pred = FS.AbsPred(I, "own", unit, P=lambda x, kz=kz: Eown(kz, x))
                o = SymObj("Observable", None)
                o.fields["evaluation_times"] = tv
                cache[key] = o
            return cache[key]
        cfg = SymObj("EmulationConfig", None)
        cfg.fields["observables"] = SymSeq(n, elem)
        if default_full:
            cfg.fields["default_evaluation_times"] = "Full"
            dreq = lambda x: z3.BoolVal(False)
        else:
            dv = TimesV("default_evaluation_times")
            dv.pred = FS.AbsPred(I, "default", unit, P=Edef)
            dv.attrs["tolist"] = lambda I2: dv
            cfg.fields["default_evaluation_times"] = dv
            dreq = Edef
        fr.locals["config"] = cfg
        ctx.ghost["uot"] = dict(
            n=n, J=z3.Function(ctx.fresh_name("requester"), z3.RealSort(), z3.IntSort()),
            req=lambda j, x: z3.If(none(j), dreq(x), Eown(j, x)))
    return setup


def register_unique_observable_times(reg, prop):
    reg.add_class("Observable", module=None, fields={})
    reg.ghost_funcs.update(all_requested_in=all_requested_in, only_requested=only_requested,
                           members_in_unit=members_in_unit)
    none = lambda I, n: None
    keys = []
    for full in (False, True):
        label = "_unique_observable_times" + ("[default=Full]" if full else "")
        reg.add_contract(Contract(
            f"{ADAPTER}:_unique_observable_times", property=prop, label=label,
            params={"config": none}, setup=_setup_unique(full),
            # default_evaluation_times == "Full" is refused as soon as an observable relies on it
            raises={"ValueError": None} if full else {},
            loops={0: dict(invariant=["all_requested_in(observable_times, _k)",
                                      "only_requested(observable_times, _k)",
                                      "members_in_unit(observable_times)"],
                           locals={"observable_times": lambda I, n: FS.FloatSet(I, [FS.AbsComp(FS.AbsPred(I, n))])})},
            ensures=[
                # exactly the requested times: those of every observable (its own ones, or the
                # configuration's default ones when it has none) and nothing else
                "all_requested_in(result, len(config.observables))",
                "only_requested(result, len(config.observables))",
                "members_in_unit(result)",
            ],
            ensures_names=["every-requested-time-collected", "only-requested-times", "times-in-[0,1]"],
        ), callsite=False)
        keys.append(f"{ADAPTER}:{label}")
    return keys


def _setup_target_times(I, fr):
    ctx = I.ctx
    D = ctx.fresh("D", "real")
    dt = ctx.fresh("dt", "real")
    wm = ctx.fresh("with_modulation", "bool")
    ctx.assume(z3.And(D > 0, dt > 0))

    def axioms(I2, x):
        _use(I2, stmt_scale_unit, x, D)
        return [x >= 0, x <= 1]
    E = FS.AbsPred(I, "requested", axioms)
    seq = SymObj("Sequence", None)

    def get_duration(I2, include_fall_time=False):
        # the duration is asked for with the configuration's modulation flag
        if not I2.ctx.speculative:
            I2.ctx.prove("duration-uses-config-modulation", to_z3(include_fall_time) == wm, "safety")
        return D
    seq.fields["get_duration"] = get_duration
    cfg = SymObj("EmulationConfig", None)
    cfg.fields["with_modulation"] = wm
    cfg.fields["__requested__"] = E
    fr.locals.update(sequence=seq, config=cfg, dt=dt, D=D, N=z3.ToInt(D / dt), TOL=TOL)
    ctx.ghost["timegrid"] = dict(E=E, D=D, dt=dt)


def register(reg, prop="C21"):
    FS.install(reg)
    reg.add_class("Sequence", module=None, fields={})
    reg.add_class("EmulationConfig", module=None, fields={})
    reg.ghost_funcs.update(has=has, every_requested_matched=every_requested_matched,
                           only_grid_or_requested=only_grid_or_requested, separated=separated)
    none = lambda I, n: None
    extra = []
    if prop == "C21":
        extra += register_unique_observable_times(reg, prop)
    reg.hooks["timegrid_extra_targets"] = extra

    # One verification run per group of clauses (the runs are independent and go in parallel;
    # every run executes the whole function).
    for label, clauses in TARGET_TIME_CLAUSES.items():
        if prop not in clauses["props"]:
            continue
        reg.add_contract(Contract(
            f"{ADAPTER}:_get_target_times", property=prop, label=f"_get_target_times[{label}]",
            params={"sequence": none, "config": none, "dt": none}, setup=_setup_target_times,
            requires=["dt > 2 * TOL * D"],
            policies={f"{ADAPTER}:_unique_observable_times": requested_set},
            raises={},
            ensures=[c for _, c in clauses["ensures"]],
            ensures_names=[n for n, _ in clauses["ensures"]],
        ), callsite=False)


TARGET_TIME_CLAUSES = {
    "start": dict(props=("C21",), ensures=[
        ("contains-0", "has(result, 0)"),
        ("strictly-increasing", "forall(lambda k: result[k] < result[k + 1], 0, len(result) - 1)"),
        ("starts-at-0", "result[0] == 0"),
    ]),
    "end": dict(props=("C21",), ensures=[
        ("contains-duration", "has(result, D)"),
        ("ends-at-duration", "result[len(result) - 1] == D"),
    ]),
    "steps": dict(props=("C21",), ensures=[
        ("contains-0", "has(result, 0)"),
        ("contains-duration", "has(result, D)"),
        # (the number of solver steps is len - 1 >= 1)
        ("at-least-one-step", "len(result) >= 2"),
    ]),
    "range": dict(props=("C21",), ensures=[
        ("within-[0,D]", "forall(lambda k: 0 <= result[k] and result[k] <= D, 0, len(result))"),
    ]),
    "multiples": dict(props=("C21",), ensures=[
        # every multiple of dt up to the duration (one that is within twice the matcher tolerance
        # of the end is represented by the duration itself)
        ("contains-multiples-of-dt",
         "forall(lambda i: has(result, i * dt) or D - i * dt <= 2 * TOL * D, 0, N + 1)"),
    ]),
    "requested": dict(props=("C21", "C14"), ensures=[
        # every requested evaluation time is matched by a target time
        ("requested-times-matched", "every_requested_matched(result)"),
    ]),
    "nothing-else": dict(props=("C21", "C14"), ensures=[
        ("only-grid-or-requested", "only_grid_or_requested(result)"),
    ]),
    "separation": dict(props=("C14",), ensures=[
        # no requested time is matched by two target times
        ("separation", "separated(result)"),
    ]),
}


def target_time_keys(prop):
    return [f"{ADAPTER}:_get_target_times[{label}]" for label, c in TARGET_TIME_CLAUSES.items()
            if prop in c["props"]]
