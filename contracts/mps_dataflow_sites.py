"""Data flow, part 2: what each MPS site is given -- interaction matrix, bad-atom filter, drives,
initial state (MPSBackendImpl._get_interaction_matrix, init_dark_qubits, update_H,
update_H_no_noise, init_initial_state).  See contracts/mps_dataflow.py for the conventions."""
import ast

import z3

from pyvc import maskidx, ops, symstr, tensor as T
from pyvc.registry import Contract
from pyvc.values import ForallV, Opaque, SymObj, SymSeq, Unsupported, to_z3

from . import config as cfgc, mps_dataflow as D, permutations as P

IMPL, HAM, MPSMOD = D.IMPL, D.HAM, D.MPSMOD
DRIVES = D.DRIVES


def impl_obj(I, N=None, Tn=None, mask=False, drives=True):
    """an MPSBackendImpl after __init__ (and, with mask=True, with an arbitrary per-site filter)"""
    ctx = I.ctx
    data = D.sequence_data(I, N, Tn)
    N, Tn = data.ghost_N, data.ghost_T
    o = SymObj("MPSBackendImpl", IMPL)
    o.fields.update(
        pulser_data=data, config=cfgc.mps_config_obj(I, "config"),
        qubit_permutation=P.perm_tensor(I, "qubit_permutation", N), qubit_count=N,
        current_time=ctx.fresh("current_time", "real"), target_time=ctx.fresh("target_time", "real"),
        target_times=data.fields["target_times"], _timestep_index=ctx.fresh("timestep_index", "int"),
        hamiltonian=Opaque("hamiltonian"), lindblad_noise=Opaque("lindblad_noise"), dim=2,
        hamiltonian_type=data.fields["hamiltonian_type"], eigenstates=data.fields["eigenstates"],
        resolved_num_gpus=None, well_prepared_qubits_filter=None,
    )
    if drives:
        for d in DRIVES:
            o.fields[d] = I.reg.sym_tensor(I, "site_" + d, (Tn, N))
    if mask:
        o.fields["well_prepared_qubits_filter"] = I.reg.sym_tensor(I, "site_filter", (N,), "bool")
        o.fields["qubit_count"] = ctx.fresh("qubit_count", "int")
    o.ghost_N, o.ghost_T = N, Tn
    return o


# ---- ghost views ---------------------------------------------------------------------------------
def g_well_prepared(I, impl):
    """per-site Boolean: no filter means every atom is well prepared"""
    f = impl.fields.get("well_prepared_qubits_filter")
    if f is None:
        return T.const_tensor((impl.fields["qubit_permutation"].shape[0],), True, "bool")
    return f


def g_good_count(I, impl):
    f = impl.fields.get("well_prepared_qubits_filter")
    if f is None:
        return impl.fields["qubit_permutation"].shape[0]
    return maskidx.enumeration(I, f)[0]


def g_full_site(I, impl):
    """reduced site a -> site of the full chain (identity without a filter)"""
    f = impl.fields.get("well_prepared_qubits_filter")
    if f is None:
        return T.arange(impl.fields["qubit_permutation"].shape[0])
    return maskidx.enumeration(I, f)[1]


def g_site_atom(I, impl):
    """reduced site a -> register atom perm[full_site[a]]"""
    s = g_full_site(I, impl)
    p = impl.fields["qubit_permutation"]
    return T.LamTensor(s.shape, lambda a: p.fn(s.fn(a)), "int")


def register(reg, prop):
    none = lambda I, n: None
    reg.ghost_funcs.update(well_prepared=g_well_prepared, good_count=g_good_count, full_site=g_full_site,
                           site_atom=g_site_atom)
    mid = "0.5 * (self.current_time + self.target_time)"

    # ==== _get_interaction_matrix =================================================================
    def setup_jm(mask):
        def _setup(I, fr):
            o = impl_obj(I, mask=mask, drives=False)
            fr.locals["self"] = o
            fr.locals["N"] = o.ghost_N
        return _setup

    reg.add_contract(Contract(
        f"{IMPL}:MPSBackendImpl._get_interaction_matrix", property=prop,
        label="MPSBackendImpl._get_interaction_matrix[no filter]",
        params={"self": none}, setup=setup_jm(False),
        requires=["isperm(self.qubit_permutation)"], raises={},
        ensures=["result.shape == (N, N)",
                 # the matrix handed to make_H couples sites i, j with the strength of atoms perm[i], perm[j]
                 f"forall(lambda i: forall(lambda j: result[i, j] == J(self.pulser_data, {mid})"
                 "[self.qubit_permutation[i], self.qubit_permutation[j]], 0, N), 0, N)"],
    ), callsite=False)
    reg.add_contract(Contract(
        f"{IMPL}:MPSBackendImpl._get_interaction_matrix", property=prop,
        label="MPSBackendImpl._get_interaction_matrix[filter]",
        params={"self": none}, setup=setup_jm(True),
        requires=["isperm(self.qubit_permutation)"], raises={},
        ensures=["result.shape[0] == good_count(self) and result.shape[1] == good_count(self)",
                 # reduced sites a, b are atoms perm[sel[a]], perm[sel[b]]: exactly the rows/columns of
                 # the well-prepared *sites* survive
                 f"forall(lambda a: forall(lambda b: result[a, b] == J(self.pulser_data, {mid})"
                 "[site_atom(self)[a], site_atom(self)[b]], 0, good_count(self)), 0, good_count(self))",
                 "forall(lambda a: well_prepared(self)[full_site(self)[a]], 0, good_count(self))"],
    ), callsite=False)

    # ==== init_dark_qubits ==========================================================================
    def setup_dark(N=None, Tn=None):
        def _setup(I, fr):
            o = impl_obj(I, N, Tn)
            fr.locals["self"] = o
            fr.locals["N"], fr.locals["NT"] = o.ghost_N, o.ghost_T
            fr.locals["bad"] = o.fields["pulser_data"].fields["bad_atoms"]
            fr.locals["perm"] = o.fields["qubit_permutation"]
            fr.locals["spe"] = o.fields["pulser_data"].fields["state_prep_error"]
        return _setup

    filter_clause = ("forall(lambda k: well_prepared(self)[k] == (not (spe > 0 and bad[perm[k]])), 0, N)")
    # NOTE post#12 below ("only well-prepared atoms survive") restates the consequence of the
    # filter clause for the reduced chain; on a wrong filter both fail (two replays)
    reg.add_contract(Contract(
        f"{IMPL}:MPSBackendImpl.init_dark_qubits", property=prop, label="MPSBackendImpl.init_dark_qubits",
        params={"self": none}, setup=setup_dark(),
        requires=["isperm(self.qubit_permutation)", "N >= 1"] + [
            # after __init__ (C02): the drive of site k is the drive of atom perm[k]
            f"forall(lambda t: forall(lambda k: self.{d}[t, k] == self.pulser_data.{d}[t, perm[k]], 0, N), 0, NT)"
            for d in DRIVES],
        raises={},
        ensures=[
            "(self.well_prepared_qubits_filter is None) == (not (spe > 0))",
            # the filter is per SITE: site k is kept iff register atom perm[k] is well prepared
            filter_clause,
            "self.qubit_count == good_count(self)",
        ] + [f"self.{d}.shape[0] == NT and self.{d}.shape[1] == good_count(self)" for d in DRIVES] + [
            # the reduced drives are those of the surviving sites, in order ...
            f"forall(lambda t: forall(lambda a: self.{d}[t, a] == old(self.{d})[t, full_site(self)[a]],"
            " 0, good_count(self)), 0, NT)" for d in DRIVES] + [
            # ... i.e. of well-prepared atoms only, each with its own register drive
            f"forall(lambda t: forall(lambda a: self.{d}[t, a] == self.pulser_data.{d}[t, site_atom(self)[a]],"
            " 0, good_count(self)), 0, NT)" for d in DRIVES] + [
            "forall(lambda a: not (spe > 0 and bad[site_atom(self)[a]]), 0, good_count(self))",
        ],
    ), callsite=False)
    reg.add_contract(Contract(
        f"{IMPL}:MPSBackendImpl.init_dark_qubits", property=prop, label="MPSBackendImpl.init_dark_qubits[N=4]",
        params={"self": none}, setup=setup_dark(4, 2),
        requires=["isperm(self.qubit_permutation)"], raises={},
        ensures=[filter_clause],
    ), callsite=False)

    # ==== update_H / update_H_no_noise ================================================================
    def update_H_model(I, **kw):
        I.ctx.ghost.setdefault("update_H_calls", []).append(kw)
        return None

    def handed(I, name):
        calls = I.ctx.ghost.get("update_H_calls", [])
        if len(calls) != 1:
            raise Unsupported(f"expected exactly one call of hamiltonian.update_H, found {len(calls)}")
        if name not in calls[0]:
            raise Unsupported(f"hamiltonian.update_H was not given {name!r} by keyword")
        return calls[0][name]
    reg.ghost_funcs["handed"] = handed

    def setup_upd(I, fr):
        o = impl_obj(I)
        q = I.ctx.fresh("Q", "int")            # sites of the (possibly reduced) chain
        tt = o.ghost_T
        I.ctx.assume(q >= 0)
        for d in DRIVES:
            o.fields[d] = I.reg.sym_tensor(I, "site_" + d, (tt, q))
        o.fields["qubit_count"] = q
        o.fields["site_atom"] = I.reg.sym_tensor(I, "site_atom", (q,), "int")     # ghost: site -> register atom
        fr.locals["self"] = o
        fr.locals["Q"], fr.locals["NT"] = q, tt
        fr.locals["step"] = o.fields["_timestep_index"]

    for fn in ("update_H", "update_H_no_noise"):
        reg.add_contract(Contract(
            f"{IMPL}:MPSBackendImpl.{fn}", property=prop, label=f"MPSBackendImpl.{fn}",
            params={"self": none}, setup=setup_upd,
            policies={f"{HAM}:update_H": update_H_model},
            requires=["0 <= step and step < NT"] + [
                # representation: the stored drive of site k is the register drive of atom site_atom[k]
                f"forall(lambda t: forall(lambda k: self.{d}[t, k] == self.pulser_data.{d}[t, self.site_atom[k]],"
                " 0, Q), 0, NT)" for d in DRIVES],
            raises={},
            ensures=["handed('hamiltonian') is self.hamiltonian"] + [
                f"handed('{d}').ndim == 1 and len(handed('{d}')) == Q" for d in DRIVES] + [
                # what hamiltonian.update_H receives for site k at this step
                f"forall(lambda k: handed('{d}')[k] == self.{d}[step, k], 0, Q)" for d in DRIVES] + [
                f"forall(lambda k: handed('{d}')[k] == self.pulser_data.{d}[step, self.site_atom[k]], 0, Q)"
                for d in DRIVES] + (
                ["handed('noise') is self.lindblad_noise"] if fn == "update_H" else
                ["handed('noise').shape == (2, 2)"]),
        ), callsite=False)

    # ==== init_initial_state ============================================================================
    def amplitudes_model(I, st):
        return {"eigenstates": st.fields["eigenstates"], "amplitudes": st.fields["amplitudes"]}

    def from_amplitudes_model(I, *a, eigenstates=None, amplitudes=None, **kw):
        I.ctx.ghost.setdefault("from_state_amplitudes", []).append({"eigenstates": eigenstates,
                                                                   "amplitudes": amplitudes})
        m = SymObj("MPS", MPSMOD)
        m.fields.update(factors=[Opaque("permuted_factor")], eigenstates=eigenstates, amplitudes=amplitudes)
        return m

    def mps_class(I, cref, args, kwargs):
        return Opaque(I.ctx.fresh_name("MPS"))
    reg.external["MPS.from_state_amplitudes"] = from_amplitudes_model
    reg.external["MPS.make"] = lambda I, *a, **k: Opaque(I.ctx.fresh_name("MPS.make"))
    reg.class_policies["MPS"] = mps_class
    reg.add_class("MPS", module=MPSMOD, fields={})

    def setup_state(I, fr):
        o = impl_obj(I, drives=False)
        n = o.ghost_N
        key = symstr.sym_str(I, "bitstring", n)
        amp = I.ctx.fresh("amplitude", "real")
        st = SymObj("MPS", MPSMOD)
        st.fields.update(factors=[Opaque("factor")], eigenstates=["r", "g"], amplitudes={key: amp},
                         _to_abstract_repr=lambda I2: amplitudes_model(I2, st))
        fr.locals.update(self=o, initial_state=st, N=n, KEY=key, AMP=amp)

    def ghost_state(I, fr):
        def rekeyed(I2):
            calls = I2.ctx.ghost.get("from_state_amplitudes", [])
            if len(calls) != 1 or len(calls[0]["amplitudes"]) != 1:
                raise Unsupported("expected one call of MPS.from_state_amplitudes with the one generic entry")
            return calls[0]["amplitudes"]
        fr.locals["rekeyed"] = lambda I2: next(iter(rekeyed(I2).keys()))
        fr.locals["rekeyed_amp"] = lambda I2: next(iter(rekeyed(I2).values()))
        fr.locals["rebuilt"] = lambda I2: len(I2.ctx.ghost.get("from_state_amplitudes", [])) == 1
        fr.locals["is_identity"] = lambda I2: I2.ctx.ghost.get("init_state_identity")

    # torch.equal(perm, eye): recorded so that the clauses can speak about the branch taken
    def tensor_equal_rec(I, a, b, same_shape=True):
        e = P.tensor_equal(I, a, b, same_shape)
        I.ctx.ghost["init_state_identity"] = e
        return e

    def setup_state2(I, fr):
        setup_state(I, fr)
        ghost_state(I, fr)
        I.reg.tensor_equal = tensor_equal_rec

    reg.add_contract(Contract(
        f"{IMPL}:MPSBackendImpl.init_initial_state", property=prop,
        label="MPSBackendImpl.init_initial_state[given state]",
        params={"self": none, "initial_state": none}, setup=setup_state2, post_setup=ghost_state,
        requires=["isperm(self.qubit_permutation)"], raises={},
        ensures=[
            # an arbitrary basis string of the given state: unless perm is the identity, the state is
            # rebuilt with site k carrying the character of register atom perm[k], same amplitude
            "implies(not is_identity(), rebuilt())",
            "implies(rebuilt(), len(rekeyed()) == N and rekeyed_amp() == AMP)",
            "implies(rebuilt(), forall(lambda k: rekeyed()[k] == KEY[self.qubit_permutation[k]], 0, N))",
            "implies(is_identity(), forall(lambda k: self.qubit_permutation[k] == k, 0, N))",
        ],
    ), callsite=False)

    # ==== fill_results: what the observables are given ====================================================
    UTILS = "emu_mps.utils"

    class Rec:
        """record of a constructor / helper call (compared by identity)"""
        def __init__(self, kind, args, kwargs):
            self.kind, self.args, self.kwargs = kind, args, kwargs

    def recorder(kind):
        return lambda I, *a, **k: Rec(kind, a, k)

    def setup_fill(mask):
        def _setup(I, fr):
            o = impl_obj(I, mask=mask, drives=False)
            # the evolving state: an abstract MPS  coeff * base  (noisy trajectories are NOT normalised: the norm
            # decays until the next jump); `scalar * state` scales coeff, `.factors / .orthogonality_center /
            # .eigenstates` are records that remember which (scaled) state they were read from
            nrm = I.ctx.fresh("state_norm", "real")
            I.ctx.assume(to_z3(nrm) > 0)

            def mk_state(coeff, base=None):
                sm = SymObj("MPS", "emu_mps.mps")
                sm.fields["coeff"] = coeff
                sm.fields["base"] = base if base is not None else sm
                for part in ("factors", "orthogonality_center", "eigenstates"):
                    sm.fields[part] = Rec(part, (sm,), {})
                sm.fields["norm"] = lambda I2: nrm

                def binop(I2, op, other, reflected):
                    if op is ast.Mult and not isinstance(other, (SymObj, Rec)):
                        return mk_state(ops.mul(sm.fields["coeff"], other), sm.fields["base"])
                    raise Unsupported("operation on the abstract state other than scalar * state")
                sm.binop = binop
                return sm
            st = mk_state(1)
            o.fields["state"] = st
            I.ctx.ghost["fill_norm"] = nrm
            o.fields["results"] = Opaque("results")
            calls = []

            def observable(tag):
                def cb(I2, *a, **k):
                    calls.append((tag, a))
                    return None
                cb.tag = tag
                return cb
            obs = [observable("obs0"), observable("obs1")]
            o.fields["config"].fields["_backend_options"]["observables"] = obs
            due = {}

            def is_eval_time(I2, self_, callback, t, tolerance=None):
                if callback.tag not in due:
                    due[callback.tag] = I2.ctx.fresh("due_" + callback.tag, "bool")
                return due[callback.tag]
            fr.locals.update(self=o, CALLS=calls, DUE=due, EVAL=is_eval_time)
            I.ctx.ghost["fill_calls"], I.ctx.ghost["fill_due"] = calls, due
        return _setup

    def ghost_fill(I, fr):
        calls = I.ctx.ghost["fill_calls"]
        due = I.ctx.ghost["fill_due"]
        fr.locals["called"] = lambda I2, tag: any(t == tag for t, _ in calls)
        fr.locals["times_called"] = lambda I2, tag: sum(1 for t, _ in calls if t == tag)
        fr.locals["due"] = lambda I2, tag: due.get(tag, False)
        fr.locals["arg"] = lambda I2, tag, k: [a for t, a in calls if t == tag][0][k]
        fr.locals["kind"] = lambda I2, v: getattr(v, "kind", None)
        fr.locals["made_from"] = lambda I2, v, k: v.args[k] if k < len(v.args) else None
        fr.locals["kw"] = lambda I2, v, name: v.kwargs.get(name)
        fr.locals["same"] = lambda I2, a, b: a is b
        # `v` (a state, or a record read from a state) belongs to the NORMALISED evolving state: it is
        # coeff * self.state with coeff * |state| == 1
        nrm = I.ctx.ghost["fill_norm"]

        def of_normalised_state(I2, v, impl):
            owner = v.args[0] if isinstance(v, Rec) and v.kind in ("factors", "orthogonality_center", "eigenstates") else v
            if not isinstance(owner, SymObj) or "coeff" not in owner.fields:
                return False
            if owner.fields["base"] is not impl.fields["state"]:
                return False
            return to_z3(ops.mul(owner.fields["coeff"], nrm)) == 1
        fr.locals["of_normalised_state"] = of_normalised_state

    fill_policies = {
        f"{IMPL}:MPSBackendImpl._is_evaluation_time":
            lambda I, self_, cb, t, tolerance=None: I.ctx.ghost["fill_eval"](I, self_, cb, t),
        f"{UTILS}:extended_mps_factors": recorder("extended_mps_factors"),
        f"{UTILS}:extended_mpo_factors": recorder("extended_mpo_factors"),
        f"{UTILS}:get_extended_site_index": recorder("get_extended_site_index"),
    }

    def setup_fill2(mask):
        inner = setup_fill(mask)

        def _setup(I, fr):
            inner(I, fr)
            I.ctx.ghost["fill_eval"] = fr.locals["EVAL"]
            I.reg.class_policies["MPS"] = lambda I2, cref, args, kwargs: Rec("MPS", tuple(args), dict(kwargs))
            I.reg.class_policies["MPO"] = lambda I2, cref, args, kwargs: Rec("MPO", tuple(args), dict(kwargs))
            ghost_fill(I, fr)
        return _setup

    for mask in (False, True):
        per_obs = []
        for tag in ("obs0", "obs1"):
            per_obs += [
                # an observable is called exactly when it is due, with this impl's config and results
                f"called({tag!r}) == due({tag!r})",
                f"implies(called({tag!r}), times_called({tag!r}) == 1 and same(arg({tag!r}, 0), self.config)"
                f" and same(arg({tag!r}, 4), self.results))",
            ]
            # every observable is evaluated on the NORMALISED state (C13): directly, or padded from its factors
            if mask:
                per_obs += [
                    f"implies(called({tag!r}), of_normalised_state(made_from(made_from(arg({tag!r}, 2), 0), 0), self)"
                    f" and of_normalised_state(kw(arg({tag!r}, 2), 'eigenstates'), self)"
                    f" and of_normalised_state(made_from(kw(arg({tag!r}, 2), 'orthogonality_center'), 1), self))"]
            else:
                per_obs += [f"implies(called({tag!r}), of_normalised_state(arg({tag!r}, 2), self))"]
            if mask:
                per_obs += [
                    # with dark qubits it is given the state / Hamiltonian padded at the False SITES of the filter
                    f"implies(called({tag!r}), kind(arg({tag!r}, 2)) == 'MPS'"
                    f" and kind(made_from(arg({tag!r}, 2), 0)) == 'extended_mps_factors'"
                    f" and same(made_from(made_from(arg({tag!r}, 2), 0), 1), self.well_prepared_qubits_filter)"
                    f" and kind(kw(arg({tag!r}, 2), 'orthogonality_center')) == 'get_extended_site_index'"
                    f" and same(made_from(kw(arg({tag!r}, 2), 'orthogonality_center'), 0), self.well_prepared_qubits_filter))",
                    f"implies(called({tag!r}), kind(arg({tag!r}, 3)) == 'MPO'"
                    f" and kind(made_from(arg({tag!r}, 3), 0)) == 'extended_mpo_factors'"
                    f" and same(made_from(made_from(arg({tag!r}, 3), 0), 1), self.well_prepared_qubits_filter))",
                ]
            else:
                per_obs += [f"implies(called({tag!r}), same(arg({tag!r}, 3), self.hamiltonian))"]
        reg.add_contract(Contract(
            f"{IMPL}:MPSBackendImpl.fill_results", property=prop,
            label="MPSBackendImpl.fill_results" + ("[filter]" if mask else "[no filter]"),
            params={"self": none}, setup=setup_fill2(mask), post_setup=ghost_fill, policies=fill_policies,
            requires=["self.target_times[len(self.target_times) - 1] > 0"], raises={},
            ensures=per_obs,
        ), callsite=False)
