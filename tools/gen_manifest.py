#!/usr/bin/env python3
"""Regenerates /verif/MANIFEST.json from the table below (keeps it schema-valid)."""
import json, os
HERE = os.path.dirname(os.path.dirname(os.path.abspath(__file__)))
PROPS = [json.loads(l)["id"] for l in open(os.path.join(HERE, "properties.jsonl"))]

TECH = "contract-based deductive verification: AST->VC generator (pyvc) over the real source, z3/cvc5"
TRUST = ("z3/cvc5 soundness; pyvc's encoding of the Python subset (floats as reals, no aliasing of distinct "
         "parameters, opaque callees return and leave arguments unchanged); sidecar contracts state the property")

CLAIMED = {
 "C19": dict(cat="proof", ref="DESIGN.md section 4, C19",
             text="Every path of BrentsRootFinder.__init__/get_next_abscissa/provide_ordinate/is_converged and "
                  "find_root_brents is checked against contracts (class invariant, bracket nesting, queries inside "
                  "the interval, result at a sign change within tolerance, no ZeroDivisionError/AssertionError) for all "
                  "real inputs and all iterations (loop invariant). Termination is not decided. Bounded complement (labelled "
                  "bounded-float): the real source run concretely on 10 function shapes whose ordinates span 1e-300..1e300 "
                  "(products of ordinates under/overflow in doubles), plus the native falsifier as a side check.",
             note=TRUST + "; f is a mathematical function"),
}
NA_REASON = {}

def main():
    extra = {}
    p = os.path.join(HERE, "tools", "manifest_table.json")
    if os.path.exists(p):
        extra = json.load(open(p))
    claimed = dict(CLAIMED)
    claimed.update(extra.get("claimed", {}))
    na = dict(NA_REASON)
    na.update(extra.get("not_applicable", {}))
    checks = []
    for pid in PROPS:
        if pid not in claimed:
            continue
        c = claimed[pid]
        checks.append({
            "property_id": pid,
            "quick_cmd": f"./check {pid} --tier quick",
            "thorough_cmd": f"./check {pid} --tier thorough",
            "evidence_file": f"/verif/evidence/{pid}.json",
            "replay_cmd_template": "./check --replay {path}",
            "engine": c.get("engine", "pyvc"),
            "level_claimed": {"category": c["cat"], "text": c["text"], "design_ref": c["ref"]},
            "level_note": c["note"],
            "technique": c.get("technique", TECH),
        })
    not_app = [{"property_id": pid, "reason": na.get(pid, "check not built yet in this session (see DESIGN.md); not claimed")}
               for pid in PROPS if pid not in claimed]
    m = {
        "version": 1,
        "setup_cmd": "python3-vt -c \"import z3, numpy, sympy; print('pyvc tooling ok', z3.get_version_string())\" && /venv/bin/python -c \"import torch, pulser; print('native replay ok')\"",
        "hooks": {"guard": "PASQAL_IO_EMULATORS_VERIF", "enable": "no hooks: contracts are sidecar files under /verif/contracts, /repo is read as-is",
                  "baseline_off_cmd": "cd /repo && /venv/bin/python -m pytest -ra -q -p no:cacheprovider --timeout=900 --continue-on-collection-errors",
                  "source_commits": [], "add_only": True},
        "engines": [
            {"name": "pyvc", "path": "/verif/pyvc", "serves_properties": [c["property_id"] for c in checks if c["engine"] == "pyvc"],
             "kind_free_text": "deductive verifier built here: symbolic execution of the real Python AST into verification conditions, modular by contract, discharged by z3 5.1 with cvc5 1.0.3 taking unknowns"},
            {"name": "symtorch", "path": "/verif/symtorch", "serves_properties": [c["property_id"] for c in checks if c["engine"] == "symtorch"],
             "kind_free_text": "bounded stand-in: the unmodified repo modules imported over a torch shim whose tensor entries are exact polynomials; result compared with a dense specification at small sizes (never counted as proved)"},
            {"name": "conform", "path": "/verif/conform", "serves_properties": [c["property_id"] for c in checks if c["engine"] == "conform"],
             "kind_free_text": "interface conformance of call sites against signatures extracted from the installed dependency"},
        ],
        "checks": checks,
        "not_applicable": not_app,
        "notes": "Exit codes of ./check: 0 held, 1 violation (VIOLATION line), 2 undecided (solver unknown / construct outside the verified subset / contract target not found), 3 checker crash. Known findings: /verif/known_findings.json.",
    }
    json.dump(m, open(os.path.join(HERE, "MANIFEST.json"), "w"), indent=1)
    print(f"{len(checks)} checks, {len(not_app)} not_applicable")

if __name__ == "__main__":
    main()
