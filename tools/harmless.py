#!/usr/bin/env python3
"""Robustness of the checks against harmless edits: a scratch copy of the repository whose every
source file in emu_base/emu_mps/emu_sv is re-printed from its AST (comments dropped, layout and
line numbers changed, quotes/parentheses normalised) plus a few blank lines and a no-op statement
at the top of each module.  Every property holds on that copy exactly as on /repo, so every check
must exit 0 on it.  usage: harmless.py [Cxx ...]   (default: all claimed checks)"""
import ast, json, os, shutil, subprocess, sys, tempfile
VERIF = os.path.dirname(os.path.dirname(os.path.abspath(__file__)))
REPO = os.environ.get("PYVC_REPO", "/repo")

def main():
    ids = sys.argv[1:] or [c["property_id"] for c in json.load(open(os.path.join(VERIF, "MANIFEST.json")))["checks"]]
    tmp = tempfile.mkdtemp(prefix="harmless_")
    try:
        for d in ("emu_base", "emu_mps", "emu_sv"):
            shutil.copytree(os.path.join(REPO, d), os.path.join(tmp, d), ignore=shutil.ignore_patterns("__pycache__"))
        for f in ("pyproject.toml",):
            shutil.copy(os.path.join(REPO, f), tmp)
        n = 0
        for root, _, files in os.walk(tmp):
            for f in files:
                if f.endswith(".py"):
                    p = os.path.join(root, f)
                    src = open(p).read()
                    tree = ast.parse(src)
                    out = ast.unparse(tree)
                    # keep a module docstring first / __future__ imports first: prepend only blank lines,
                    # append a no-op
                    open(p, "w").write("\n\n\n" + out + "\n\n_harmless_noop = None\n")
                    n += 1
        print(f"rewrote {n} files in {tmp}")
        bad = 0
        for i in ids:
            p = subprocess.run([os.path.join(VERIF, "check"), i, "--repo", tmp], capture_output=True, text=True, cwd=VERIF)
            last = (p.stdout.strip().splitlines() or [""])[-1][:160]
            print(f"{i} exit={p.returncode} {last}")
            if p.returncode != 0:
                bad += 1
                print("\n".join((p.stdout + p.stderr).splitlines()[-12:]))
        return 1 if bad else 0
    finally:
        shutil.rmtree(tmp, ignore_errors=True)

if __name__ == "__main__":
    sys.exit(main())
