#!/usr/bin/env python3
"""Negative control: apply a textual mutation to a scratch copy of the repo sources and run a check.
usage: control.py <Cxx> <relative file> <old text> <new text> [--tier quick]
Prints the check's verdict; exit 0 iff the check reported a violation (exit 1) on the mutant."""
import os, shutil, subprocess, sys, tempfile
prop, rel, old, new = sys.argv[1:5]
repo = os.environ.get("PYVC_REPO", "/repo")
tmp = tempfile.mkdtemp(prefix="pyvc_ctl_")
try:
    for d in ("emu_base", "emu_mps", "emu_sv"):
        shutil.copytree(os.path.join(repo, d), os.path.join(tmp, d), ignore=shutil.ignore_patterns("__pycache__"))
    for f in ("pyproject.toml",):
        shutil.copy(os.path.join(repo, f), tmp)
    p = os.path.join(tmp, rel)
    s = open(p).read()
    if old not in s:
        print("CONTROL-ERROR: text to mutate not found"); sys.exit(3)
    open(p, "w").write(s.replace(old, new, 1))
    r = subprocess.run([os.path.join(os.path.dirname(os.path.dirname(os.path.abspath(__file__))), "check"),
                        prop, "--repo", tmp] + sys.argv[5:], capture_output=True, text=True)
    lines = [l for l in r.stdout.splitlines() if l.startswith(("VIOLATION", "UNDECIDED", "  failed", "KNOWN"))]
    print(f"exit={r.returncode}", *lines[:6], sep="\n  ")
    sys.exit(0 if r.returncode == 1 else 1)
finally:
    shutil.rmtree(tmp, ignore_errors=True)
