#!/usr/bin/env python3
"""Re-run every stored seeded change (seeded/<id>/patch.diff) against the checks that should catch it.
For each seed: scratch copy of /repo + patch, `./check <prop> --repo <copy>` for the property it breaks
(and any extra property named in meta.json "also_check"); expected exit 1.  Writes seeded/RESULTS.json.
usage: seed_regress.py [seed-id ...]   (default: all)   -- nothing is applied to /repo itself"""
import json, os, shutil, subprocess, sys, tempfile, time
VERIF = os.path.dirname(os.path.dirname(os.path.abspath(__file__)))
REPO = "/repo"

def main():
    ids = sys.argv[1:] or sorted(d for d in os.listdir(os.path.join(VERIF, "seeded")) if os.path.isdir(os.path.join(VERIF, "seeded", d)))
    out = {}
    resf = os.path.join(VERIF, "seeded", "RESULTS.json")
    if os.path.exists(resf) and sys.argv[1:]:
        out = json.load(open(resf))
    for sid in ids:
        d = os.path.join(VERIF, "seeded", sid)
        if not os.path.exists(os.path.join(d, "meta.json")):
            continue
        meta = json.load(open(os.path.join(d, "meta.json")))
        props = [meta["breaks_property"]] + list(meta.get("also_check", []))
        tmp = tempfile.mkdtemp(prefix="seedreg_")
        try:
            for x in ("emu_base", "emu_mps", "emu_sv"):
                shutil.copytree(os.path.join(REPO, x), os.path.join(tmp, x), ignore=shutil.ignore_patterns("__pycache__"))
            shutil.copy(os.path.join(REPO, "pyproject.toml"), tmp)
            p = subprocess.run(["patch", "-p1", "-s", "-i", os.path.join(d, "patch.diff")], cwd=tmp, capture_output=True, text=True)
            if p.returncode != 0:
                out[sid] = {"error": "patch does not apply to the current tree: " + (p.stdout + p.stderr)[-300:]}
                print(sid, "PATCH-FAILED")
                continue
            res = {}
            for prop in props:
                t0 = time.time()
                r = subprocess.run([os.path.join(VERIF, "check"), prop, "--repo", tmp], cwd=VERIF, capture_output=True, text=True)
                viol = [l for l in r.stdout.splitlines() if l.startswith("VIOLATION")]
                res[prop] = {"exit": r.returncode, "violations": len(viol),
                             "reproduced_natively": any("no-failing-input-found" not in l for l in viol),
                             "first": (viol[0].split("replay=")[1].split("/")[-1] if viol else None), "wall_s": round(time.time() - t0, 1)}
            out[sid] = res
            print(sid, {k: (v["exit"], "reproduced" if v["reproduced_natively"] else "-") for k, v in res.items()})
        finally:
            shutil.rmtree(tmp, ignore_errors=True)
        json.dump(out, open(resf, "w"), indent=1, sort_keys=True)
    return 0

if __name__ == "__main__":
    sys.exit(main())
