#!/bin/bash
# usage: seed_eval.sh <seed dir with patch.diff and demo.py> <Cxx> [more Cxx ...]
# Applies the seeded change to a scratch copy of /repo, runs the demonstration with and without it,
# then runs the given checks against the changed copy.  Cleans up.
d=$(realpath $1); shift
tmp=$(mktemp -d /tmp/seedeval_XXXX)
for x in emu_base emu_mps emu_sv pyproject.toml ci test; do cp -r /repo/$x $tmp/ 2>/dev/null; done
echo "== demo on unchanged copy"; (cd $tmp && PYTHONPATH=$tmp timeout 1500 /venv/bin/python $d/demo.py > $tmp/demo0.log 2>&1; echo "exit=$?"; tail -2 $tmp/demo0.log)
(cd $tmp && patch -p1 -s < $d/patch.diff) || { echo "PATCH FAILED"; rm -rf $tmp; exit 3; }
echo "== demo on changed copy"; (cd $tmp && PYTHONPATH=$tmp timeout 1500 /venv/bin/python $d/demo.py > $tmp/demo1.log 2>&1; echo "exit=$?"; tail -3 $tmp/demo1.log)
for p in "$@"; do
  echo "== ./check $p --repo <changed copy>"
  (cd /verif && timeout 1800 ./check $p --repo $tmp 2>&1 | grep -E "^VIOLATION|^UNDECIDED|^KNOWN|failed obligation|^C[0-9]+:" | head -8; echo "exit=${PIPESTATUS[0]}")
done
rm -rf $tmp
