import sys, traceback
sys.path.insert(0,'/verif')
from pyvc.repo import Repo
from pyvc.registry import Registry
from pyvc.session import Session
from pyvc import verify
from pyvc.values import Unsupported
import importlib
prop, key = sys.argv[1], sys.argv[2]
mod = importlib.import_module('props.'+prop)
reg=Registry(Repo(sys.argv[3] if len(sys.argv)>3 else '/repo')); plan=mod.build(reg)
ses=Session(10000)
# make Unsupported propagate with traceback
import pyvc.verify as V
c=[c for k,c in reg.all.items() if key in k][0]
orig=V.explore
def ex(*a,**k):
    try: return orig(*a,**k)
    except Unsupported: traceback.print_exc(); raise
V.explore=ex
r=V.verify_function(reg,ses,c)
print(r.error, r.crash, r.paths, r.outcomes)
for o in r.obligations:
    print(o.status, o.name, o.lineno, (o.model if o.status!='discharged' else ''))
