#!/usr/bin/env python3
"""./check --replay <replay.json> [--repo DIR]

Replays one reported violation natively against the real code (real torch / pulser, /venv/bin/python):
dispatches on the record to the property's native falsifier (Engine A: props/<ID>.py REPLAY),
to the Engine-B replay (replay/engineb.py, or replay/engineb_probe.py for a case the shim left
undecided) or, for C31, re-runs the conformance check.  Prints the falsifier's output; exit 1 when the
violation reproduces (REPRODUCED), 0 when it does not, 3 on a harness error."""
import importlib
import json
import os
import subprocess
import sys

VERIF = os.path.dirname(os.path.dirname(os.path.abspath(__file__)))
NATIVE = "/venv/bin/python"


def main(argv):
    if not argv:
        print(__doc__)
        return 3
    path = os.path.abspath(argv[0])
    repo = os.path.realpath(argv[argv.index("--repo") + 1]) if "--repo" in argv else os.environ.get("PYVC_REPO", "/repo")
    with open(path) as f:
        rec = json.load(f)
    prop = rec.get("property")
    print(f"replaying {os.path.basename(path)} (property {prop}, obligation {rec.get('obligation') or rec.get('case')}) on {repo}")
    env = dict(os.environ, PYTHONPATH=repo, PYTHONDONTWRITEBYTECODE="1")
    if str(rec.get("engine", "")).startswith("symtorch"):
        script = "replay/engineb_probe.py" if rec.get("status") == "undecided" else "replay/engineb.py"
        cmd = [NATIVE, os.path.join(VERIF, script), path, repo]
        cwd = VERIF
    elif prop == "C31":
        cmd = [os.path.join(VERIF, "check"), "C31", "--repo", repo]
        cwd, env = VERIF, dict(os.environ, PYVC_NO_EVIDENCE="1")
    else:
        sys.path.insert(0, VERIF)
        mod = importlib.import_module(f"props.{prop}")
        prog = getattr(mod, "REPLAY", None)
        if not prog:
            print(f"property {prop} has no native falsifier")
            return 3
        cmd = [NATIVE, os.path.join(VERIF, prog), path, repo]
        cwd = repo
    p = subprocess.run(cmd, cwd=cwd, env=env, capture_output=True, text=True)
    out = "\n".join(l for l in (p.stdout + p.stderr).splitlines() if "conda" not in l.lower())
    print(out[-6000:])
    if prop == "C31":
        return 1 if p.returncode == 1 else (0 if p.returncode == 0 else 3)
    if "REPRODUCED" in p.stdout and "NOT-REPRODUCED" not in p.stdout.replace("KNOWN-FINDING", "") and p.returncode == 1:
        return 1
    return 0 if p.returncode in (0, 1) else 3


if __name__ == "__main__":
    sys.exit(main(sys.argv[1:]))
