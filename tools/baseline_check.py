#!/usr/bin/env python3
"""Runs the repository's baseline suite (guard off: there are no hooks) and compares with BASELINE.json."""
import json, subprocess, sys, tempfile, os, xml.etree.ElementTree as ET
b = json.load(open("/root/.vp/BASELINE.json"))
out = tempfile.mktemp(suffix=".xml")
cmd = b["cmd"].replace("<file>", out) + " -n 8"
p = subprocess.run(cmd, shell=True, capture_output=True, text=True)
passed = set()
for tc in ET.parse(out).getroot().iter("testcase"):
    if not any(c.tag in ("failure", "error", "skipped") for c in tc):
        passed.add(f"{tc.get('classname')}::{tc.get('name')}")
os.remove(out)
missing = sorted(set(b["stable_pass"]) - passed)
print(f"stable_pass={len(b['stable_pass'])} passed_now={len(passed)} missing={len(missing)}")
for m in missing[:40]:
    print("  MISSING", m)
sys.exit(1 if missing else 0)
