"""C08 native replay / falsifier (run with /venv/bin/python, cwd = repo, PYTHONPATH = repo).

Random Hermitian operators (degenerate, clustered, gapped spectra; block structure and eigenvector
starts for happy breakdowns; tiny Krylov dimensions / restart counts for non-convergence) against
the REAL functions of krylov_energy_min.py.  Clauses (the same as contracts/krylov.py):

  happy_breakdown => converged
  converged & not happy_breakdown => residual_norm < residual_tolerance   (the code's residual estimate)
  the returned vector has unit norm (it is q0 or a _ritz_vector result)
  a restart starts from the previous cycle's ground_state
  krylov_energy_minimization returns iff converged or happy_breakdown (RecursionError otherwise)
  _ritz_vector returns a unit vector or raises ValueError
"""
import importlib
import json
import os
import random
import sys

import torch

dt = torch.complex128


def rand_herm(rnd, n):
    kind = rnd.choice(["random", "degenerate", "clustered", "gapped"])
    q, _ = torch.linalg.qr(torch.randn(n, n, dtype=dt))
    if kind == "random":
        ev = torch.randn(n, dtype=torch.float64)
    elif kind == "degenerate":
        ev = torch.tensor([float(rnd.randint(0, 2)) for _ in range(n)], dtype=torch.float64)
    elif kind == "clustered":
        ev = torch.tensor([1e-6 * rnd.random() + (i % 2) for i in range(n)], dtype=torch.float64)
    else:
        ev = torch.tensor([-5.0] + [1.0 + rnd.random() for _ in range(n - 1)], dtype=torch.float64)
    return (q * ev.to(dt)) @ q.mH, kind


def main():
    rec = json.load(open(sys.argv[1])) if len(sys.argv) > 1 and os.path.exists(sys.argv[1]) else {}
    seed = int(os.environ.get("VERIF_SEED", "0"))
    rnd = random.Random(seed)
    torch.manual_seed(seed)
    importlib.import_module("emu_base.math.krylov_energy_min")
    mod = sys.modules["emu_base.math.krylov_energy_min"]

    # _ritz_vector
    for _ in range(50):
        k, n = rnd.randint(1, 5), rnd.randint(1, 6)
        basis = [torch.randn(n, dtype=dt) for _ in range(k)]
        y = torch.randn(k, dtype=torch.float64) * rnd.choice([1.0, 1e-3, 0.0])
        try:
            r = mod._ritz_vector(y, basis)
        except ValueError:
            continue
        if abs(float(r.norm()) - 1) > 1e-9:
            print(f"REPRODUCED: _ritz_vector returned a vector of norm {float(r.norm())}")
            return 1

    real_cycle = mod._lowest_eigenvector_krylov_method
    stats = {"happy": 0, "conv": 0, "noconv": 0, "restarted": 0}
    for trial in range(150):
        n = rnd.choice([1, 2, 3, 5, 8, 16, 32])
        h, kind = rand_herm(rnd, n)
        psi = torch.randn(n, dtype=dt) * rnd.choice([1.0, 3.0, 0.1])
        if rnd.random() < 0.15:
            psi = torch.linalg.eigh(h)[1][:, rnd.randrange(n)].clone()
        rtol = rnd.choice([1e-3, 1e-6, 1e-10])
        ntol = rnd.choice([1e-6, 1e-10, 1e-12])
        kdim = rnd.choice([1, 2, 3, n, 30])
        restarts = rnd.choice([0, 1, 3, 100])
        where = f"n={n} spectrum={kind} residual_tol={rtol} norm_tol={ntol} max_krylov_dim={kdim} max_restarts={restarts} seed={seed} trial={trial}"
        op = lambda x: h @ x
        log = []

        def cycle(*a, **k):
            r = real_cycle(*a, **k)
            log.append((k.get("v_init", a[1] if len(a) > 1 else None), r))
            return r
        mod._lowest_eigenvector_krylov_method = cycle
        try:
            res = mod.krylov_energy_minimization_impl(op, psi.clone(), residual_tolerance=rtol, norm_tolerance=ntol,
                                                      max_krylov_dim=kdim, max_restarts=restarts)
        except ValueError as e:
            continue
        except Exception as e:
            print(f"REPRODUCED: krylov_energy_minimization_impl raised {type(e).__name__}: {e} ({where})")
            return 1
        finally:
            mod._lowest_eigenvector_krylov_method = real_cycle
        bad = None
        for v_init, r in log:
            if r.happy_breakdown and not r.converged:
                bad = "a Lanczos cycle reports happy_breakdown without converged"
            elif r.converged and not r.happy_breakdown and not (float(r.residual_norm) < rtol):
                bad = f"a Lanczos cycle reports converged with residual_norm {float(r.residual_norm)} >= residual_tolerance"
            elif abs(float(r.ground_state.norm()) - 1) > 1e-8:
                bad = f"a Lanczos cycle returned a vector of norm {float(r.ground_state.norm())}"
        for k in range(1, len(log)):
            if log[k][0] is not log[k - 1][1].ground_state:
                bad = f"restart {k} does not start from the previous cycle's ground_state"
        if res.happy_breakdown and not res.converged:
            bad = "happy_breakdown without converged"
        elif res.converged and not res.happy_breakdown and not (float(res.residual_norm) < rtol):
            bad = f"converged with residual_norm {float(res.residual_norm)} >= residual_tolerance"
        elif abs(float(res.ground_state.norm()) - 1) > 1e-8:
            bad = f"returned vector has norm {float(res.ground_state.norm())}"
        if not bad:
            gs = res.ground_state
            rq = torch.vdot(gs, h @ gs).real.item()
            en = float(torch.as_tensor(res.ground_energy).real)
            tr = float((h @ gs - en * gs).norm())
            if abs(en - rq) > 1e-8 * (1 + abs(rq)):
                bad = (f"returned energy {en!r} is not the Rayleigh quotient {rq!r} of the returned vector "
                       f"(converged={res.converged}, happy_breakdown={res.happy_breakdown})")
            elif abs(float(res.residual_norm) - tr) > 1e-6 * (1 + tr):
                bad = (f"reported residual_norm {float(res.residual_norm):.6g} is not |H psi - E psi| = {tr:.6g} of the "
                       f"returned pair (converged={res.converged})")
        if bad:
            print(f"REPRODUCED: {bad} ({where})")
            return 1
        stats["happy" if res.happy_breakdown else ("conv" if res.converged else "noconv")] += 1
        stats["restarted"] += len(log) > 1
        # public entry (default max_restarts)
        ref = mod.krylov_energy_minimization_impl(op, psi.clone(), residual_tolerance=rtol, norm_tolerance=ntol,
                                                  max_krylov_dim=kdim)
        try:
            state, energy = mod.krylov_energy_minimization(op, psi.clone(), norm_tolerance=ntol,
                                                           residual_tolerance=rtol, max_krylov_dim=kdim)
            if not (ref.converged or ref.happy_breakdown):
                print(f"REPRODUCED: krylov_energy_minimization returned although the solver reports neither "
                      f"convergence nor breakdown ({where})")
                return 1
            if abs(float(state.norm()) - 1) > 1e-8 or not torch.allclose(state, ref.ground_state):
                print(f"REPRODUCED: krylov_energy_minimization returned a vector that is not the solver's unit "
                      f"ground_state ({where})")
                return 1
        except RecursionError:
            if ref.converged or ref.happy_breakdown:
                print(f"REPRODUCED: krylov_energy_minimization raised RecursionError although the solver "
                      f"succeeded ({where})")
                return 1
    # ---- the property's own clauses on the TRUE residual, incl. spaces smaller than max_krylov_dim with a tight low
    # cluster under a few large, well separated eigenvalues (Lanczos loses orthogonality there: holding n vectors does
    # not mean the Ritz pair is an eigenpair)
    gen = torch.Generator().manual_seed(seed + 77)
    for n, top in ((40, 3), (48, 4), (64, 5), (12, 2), (5, 1)):
        ev = torch.cat([1e-3 * torch.rand(n - top, generator=gen, dtype=torch.float64),
                        torch.tensor([50.0 * (k + 1) for k in range(top)], dtype=torch.float64)])
        q, _ = torch.linalg.qr(torch.randn(n, n, generator=gen, dtype=dt))
        h = (q * ev.to(dt)) @ q.mH
        h = (h + h.mH) / 2
        psi = torch.randn(n, generator=gen, dtype=dt)
        for rtol in (1e-9, 1e-6):
            res = mod.krylov_energy_minimization_impl(lambda x: h @ x, psi.clone(), residual_tolerance=rtol,
                                                      norm_tolerance=1e-12, max_krylov_dim=100)
            gs = res.ground_state
            e = res.ground_energy if hasattr(res, "ground_energy") else torch.vdot(gs, h @ gs).real
            true_res = float((h @ gs - e * gs).norm())
            lam = float(torch.linalg.eigvalsh(h)[0])
            where = f"n={n}, {top} large eigenvalues over a cluster of width 1e-3, residual_tol={rtol}, max_krylov_dim=100"
            if res.converged and not res.happy_breakdown and true_res > 3 * rtol:
                print(f"REPRODUCED: converged without breakdown but |H psi - E psi| = {true_res:.3g} > residual_tolerance "
                      f"{rtol} ({where})")
                return 1
            if float(e) < lam - 1e-9 * (1 + abs(lam)):
                print(f"REPRODUCED: energy {float(e)} below the lowest eigenvalue {lam} ({where})")
                return 1
    print(f"NOT-REPRODUCED: random runs ({stats}) satisfy the flag / residual / unit-norm / restart clauses")
    return 0


if __name__ == "__main__":
    sys.exit(main())
