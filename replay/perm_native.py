"""Shared native scenarios for the permutation data-flow properties (C03, C02, C25): a 4-atom
register whose interaction graph is the chain 0-2-1-3, so that minimize_bandwidth reorders the
atoms (perm = [3, 1, 2, 0] or [0, 2, 1, 3]...), with a different drive on every atom."""
import os
import sys
import tempfile

import torch

HERE = os.path.dirname(os.path.abspath(__file__))
sys.path.insert(0, HERE)

STEPS = 4


def setup():
    from native_util import patch_pulser_observable
    if patch_pulser_observable():
        print("harness: pulser Observable.__init__ wrapped to supply default_aggregation_method (C31)")


def chain_matrix(weights=(5.0, 6.0, 7.0)):
    m = torch.zeros(4, 4, dtype=torch.float64)
    for (a, b), w in zip([(0, 2), (2, 1), (1, 3)], weights):
        m[a, b] = m[b, a] = w
    return m


def local_drives(steps=STEPS):
    om = torch.tensor([[1.0, 2.0, 3.0, 4.0]] * steps, dtype=torch.complex128)
    de = torch.tensor([[0.1, 0.2, 0.3, 0.4]] * steps, dtype=torch.complex128)
    ph = torch.tensor([[0.01, 0.02, 0.03, 0.04]] * steps, dtype=torch.complex128)
    return om, de, ph


def make_impl(optimize, bad_atoms=None, observables=None, steps=STEPS, autosave_dt=None):
    from native_util import make_sequence_data
    from emu_mps import MPSConfig
    import emu_mps.mps_backend_impl as M
    from pulser.backend import Occupation
    om, de, ph = local_drives(steps)
    sd = make_sequence_data(4, steps, matrix=chain_matrix(), omega=om, delta=de, phi=ph,
                            bad_atoms=bad_atoms, state_prep_error=0.1 if bad_atoms is not None else 0.0)
    kw = {} if autosave_dt is None else {"autosave_dt": autosave_dt}
    cfg = MPSConfig(observables=observables if observables is not None else [Occupation(evaluation_times=[1.0])],
                    optimize_qubit_ordering=optimize, log_level=50, **kw)
    return M.create_impl(sd, cfg), sd, cfg


def handed_drives(impl):
    """the vectors hamiltonian.update_H receives during init()"""
    import emu_mps.mps_backend_impl as M
    calls = []
    orig = M.update_H

    def spy(**kw):
        calls.append({k: kw[k].clone() for k in ("omega", "delta", "phi")})
        return orig(**kw)
    M.update_H = spy
    try:
        impl.init()
    finally:
        M.update_H = orig
    return calls


def run(optimize, bad_atoms=None):
    from emu_mps import MPSBackend
    impl, sd, cfg = make_impl(optimize, bad_atoms)
    impl.init()
    res = MPSBackend._run(impl)
    return impl, impl.permute_results(res, optimize)


def in_tmp_dir():
    d = tempfile.mkdtemp(prefix="perm_native_")
    os.chdir(d)
    return d
