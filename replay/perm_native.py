"""Shared native scenarios for the permutation data-flow properties (C03, C02, C25): a 4-atom
register whose interaction graph is the chain 0-2-1-3, so that minimize_bandwidth reorders the
atoms (perm = [3, 1, 2, 0] or [0, 2, 1, 3]...), with a different drive on every atom."""
import os
import sys
import tempfile

import torch

HERE = os.path.dirname(os.path.abspath(__file__))
sys.path.insert(0, HERE)

STEPS = 4


def setup():
    from native_util import patch_pulser_observable
    if patch_pulser_observable():
        print("harness: pulser Observable.__init__ wrapped to supply default_aggregation_method (C31)")


def chain_matrix(weights=(5.0, -6.0, 7.0)):        # mixed signs: |U| and U must not be confused
    m = torch.zeros(4, 4, dtype=torch.float64)
    for (a, b), w in zip([(0, 2), (2, 1), (1, 3)], weights):
        m[a, b] = m[b, a] = w
    return m


def local_drives(steps=STEPS, n=4):
    # different on every atom AND at every step (STEPS == 4 == number of atoms of the chain scenario, so a
    # helper that treats the (steps, atoms) table as a square matrix would also shuffle the time axis)
    om = torch.tensor([[6.0 * (1.0 + k) * (1 + 0.25 * t) for k in range(n)] for t in range(steps)], dtype=torch.complex128)   # strong enough for double excitations (the interaction's SIGN matters)
    de = torch.tensor([[0.1 * (k + 1) * (1 + 0.5 * t) for k in range(n)] for t in range(steps)], dtype=torch.complex128)
    ph = torch.tensor([[0.01 * (k + 1) * (1 + t) for k in range(n)] for t in range(steps)], dtype=torch.complex128)
    return om, de, ph


def grid_matrix(rows=2, cols=3, c6=5.0):
    """row-major rows x cols grid, 1/r^6 couplings: the bandwidth optimiser returns a permutation that is
    NOT its own inverse (2x3: [5, 2, 4, 1, 3, 0]), which tells perm from inv_perm apart"""
    n = rows * cols
    m = torch.zeros(n, n, dtype=torch.float64)
    for a in range(n):
        for b in range(a + 1, n):
            d2 = (a // cols - b // cols) ** 2 + (a % cols - b % cols) ** 2
            m[a, b] = m[b, a] = c6 / d2 ** 3
    return m


def make_impl(optimize, bad_atoms=None, observables=None, steps=STEPS, autosave_dt=None, matrix=None):
    from native_util import make_sequence_data
    from emu_mps import MPSConfig
    import emu_mps.mps_backend_impl as M
    from pulser.backend import Occupation
    matrix = chain_matrix() if matrix is None else matrix
    n = matrix.shape[0]
    om, de, ph = local_drives(steps, n)
    sd = make_sequence_data(n, steps, matrix=matrix, omega=om, delta=de, phi=ph,
                            bad_atoms=bad_atoms, state_prep_error=0.1 if bad_atoms is not None else 0.0)
    kw = {} if autosave_dt is None else {"autosave_dt": autosave_dt}
    cfg = MPSConfig(observables=observables if observables is not None else [Occupation(evaluation_times=[1.0])],
                    optimize_qubit_ordering=optimize, log_level=50, precision=1e-9, **kw)    # truncation far below the 1e-6 comparisons
    return M.create_impl(sd, cfg), sd, cfg


def handed_drives(impl):
    """the vectors hamiltonian.update_H receives during init()"""
    import emu_mps.mps_backend_impl as M
    calls = []
    orig = M.update_H

    def spy(**kw):
        calls.append({k: kw[k].clone() for k in ("omega", "delta", "phi")})
        return orig(**kw)
    M.update_H = spy
    try:
        impl.init()
    finally:
        M.update_H = orig
    return calls


def run(optimize, bad_atoms=None, matrix=None):
    from emu_mps import MPSBackend
    impl, sd, cfg = make_impl(optimize, bad_atoms, matrix=matrix)
    impl.init()
    res = MPSBackend._run(impl)
    return impl, impl.permute_results(res, optimize)


def cached(name, main, repo_root, ttl=900):
    """One property check replays the same native scenario once per failed obligation; the scenario
    depends only on the sources, so its outcome is reused for `ttl` seconds, keyed by a hash of
    every python file of emu_mps/emu_base under repo_root and of the replay scripts themselves."""
    import hashlib, io, json, time, contextlib
    h = hashlib.sha256()
    for base in (os.path.join(repo_root, "emu_mps"), os.path.join(repo_root, "emu_base"),
                 os.path.join(repo_root, "emu_sv"), HERE):
        for dp, _, files in sorted(os.walk(base)):
            for fn in sorted(files):
                if fn.endswith(".py"):
                    with open(os.path.join(dp, fn), "rb") as f:
                        h.update(fn.encode() + f.read())
    h.update(os.environ.get("VERIF_SEED", "0").encode())
    d = os.path.join(tempfile.gettempdir(), "verif_replay_cache")
    os.makedirs(d, exist_ok=True)
    path = os.path.join(d, f"{name}_{h.hexdigest()[:24]}.json")
    try:
        with open(path) as f:
            rec = json.load(f)
        if time.time() - rec["time"] < ttl:
            print(rec["stdout"], end="")
            print(f"(native result of {int(time.time() - rec['time'])} s ago reused: same sources, same scenario)")
            return rec["exit"]
    except Exception:
        pass
    buf = io.StringIO()
    with contextlib.redirect_stdout(buf):
        rc = main()
    print(buf.getvalue(), end="")
    with open(path + ".tmp", "w") as f:
        json.dump({"time": time.time(), "stdout": buf.getvalue(), "exit": rc}, f)
    os.replace(path + ".tmp", path)
    return rc


def in_tmp_dir():
    d = tempfile.mkdtemp(prefix="perm_native_")
    os.chdir(d)
    import atexit, shutil
    atexit.register(lambda: (os.chdir("/"), shutil.rmtree(d, ignore_errors=True)))
    return d
