"""C24 native replay / falsifier (run with /venv/bin/python, cwd = repo, PYTHONPATH = repo).

Random concrete noise models against the REAL functions of the working tree.  The oracle is built
from the REAL pulser code: `HamiltonianData._build_local_collapse_operators` (pulser-core) gives
Pulser's collapse operators in Pulser's basis order (r, g[, x]) / (u, d[, x]); they are transported
to the emulator order (g, r[, x]) / (u, d[, x]) and compared

  * eff_noise: operator by operator, entry by entry,
  * relaxation / dephasing / depolarizing: as dissipators (superoperator matrices on the matrix units),
  * compute_noise_from_lindbladians: against -i/2 sum L^+ L; wrong shapes must raise AssertionError,
  * _get_all_lindblad_noise_operators: concatenation of get_lindblad_operators over the Lindbladian types.

usage: c24.py <replay.json> <repo>   -> REPRODUCED ... (exit 1) | NOT-REPRODUCED ... (exit 0)
"""
import json
import math
import os
import random
import sys

import torch

dt = torch.complex128


def pulser_collapse_ops(nm, interact_type, dim):
    """Pulser's operators as dense matrices in Pulser's basis order, from pulser's own code."""
    from pulser._hamiltonian_data.hamiltonian_data import HamiltonianData
    eig = (["r", "g"] if interact_type == "ising" else ["u", "d"]) + (["x"] if dim == 3 else [])
    names = HamiltonianData._get_projectors(eig)
    basis_name = ("ground-rydberg" if interact_type == "ising" else "XY") + ("_with_error" if dim == 3 else "")
    ops, paulis = HamiltonianData._build_local_collapse_operators(None, nm, basis_name, eig, names)

    def sigma(name):
        a, b = name[len("sigma_")], name[len("sigma_") + 1]
        m = torch.zeros(dim, dim, dtype=dt)
        m[eig.index(a), eig.index(b)] = 1
        return m

    out = []
    for coeff, op in ops:
        if isinstance(op, str):
            if op in paulis:
                m = sum(c * sigma(n) for c, n in paulis[op])
            else:
                m = sigma(op)
        else:
            m = torch.as_tensor(op, dtype=dt)
        out.append(complex(coeff) * m)
    return out


def to_emulator(m, interact_type):
    dim = m.shape[0]
    pi = ([1, 0] + list(range(2, dim))) if interact_type == "ising" else list(range(dim))
    return m[pi][:, pi]


def superop(Ls, dim):
    S = torch.zeros(dim * dim, dim * dim, dtype=dt)
    for a in range(dim):
        for b in range(dim):
            E = torch.zeros(dim, dim, dtype=dt)
            E[a, b] = 1
            out = torch.zeros(dim, dim, dtype=dt)
            for L in Ls:
                out = out + L @ E @ L.mH - 0.5 * (L.mH @ L @ E + E @ L.mH @ L)
            S[:, a * dim + b] = out.reshape(-1)
    return S


def random_model(rnd, dim, noise_type, n_eff):
    from pulser import NoiseModel
    kw = {}
    if noise_type == "relaxation":
        kw["relaxation_rate"] = rnd.choice([0.3, 1.0, rnd.uniform(0.01, 3)])
    if noise_type == "dephasing":
        kw["dephasing_rate"] = rnd.choice([0.3, 1.0, rnd.uniform(0.01, 3)])
    if noise_type == "depolarizing":
        kw["depolarizing_rate"] = rnd.choice([0.3, 1.0, rnd.uniform(0.01, 3)])
    opers, rates = [], []
    if noise_type == "eff_noise" or dim == 3:
        for _ in range(max(n_eff, 1)):
            if rnd.random() < 0.4:          # a single matrix unit: the sharpest test of the basis order
                m = torch.zeros(dim, dim, dtype=dt)
                m[rnd.randrange(dim), rnd.randrange(dim)] = 1
            else:
                m = torch.randn(dim, dim, dtype=dt)
            opers.append(m)
            rates.append(rnd.choice([0.0, 0.5, 1.0, 2.0, rnd.uniform(0.01, 3)]))   # a zero rate is legal in pulser
        kw.update(eff_noise_opers=tuple(opers), eff_noise_rates=tuple(rates))
    if dim == 3:
        kw["with_leakage"] = True
    return NoiseModel(**kw)


KNOWN = {}


def check_get_lindblad_operators(rnd, trials, only=None):
    from emu_base.jump_lindblad_operators import get_lindblad_operators
    for t in range(trials):
        dim = rnd.choice([2, 3])
        it = rnd.choice(["ising", "XY"])
        nt = rnd.choice(["relaxation", "dephasing", "depolarizing", "eff_noise"])
        if only:
            nt, it, dim = only[0], only[1] or it, only[2] or dim
        if nt == "relaxation" and it == "XY":
            continue
        nm = random_model(rnd, dim, nt, rnd.randint(1, 2))
        got = get_lindblad_operators(noise_type=nt, noise_model=nm, interact_type=it, dim=dim)
        # the result is a function of the arguments: a second construction from the same model (as in a second
        # run or a parameter sweep), and one for the other interaction type in between, must give the same
        if t % 3 == 0:
            other = "XY" if it == "ising" else "ising"
            if not (nt == "relaxation" and other == "XY"):
                try:
                    get_lindblad_operators(noise_type=nt, noise_model=nm, interact_type=other, dim=dim)
                except Exception:
                    pass
            again = get_lindblad_operators(noise_type=nt, noise_model=nm, interact_type=it, dim=dim)
            if len(again) != len(got) or any(not torch.equal(torch.as_tensor(a), torch.as_tensor(b)) for a, b in zip(again, got)):
                print(f"REPRODUCED: get_lindblad_operators({nt}, {it}, dim={dim}) called again with the same noise model "
                      f"returns different operators:\nfirst call: {list(got)}\nlater call: {list(again)}")
                return 1
        want_all = [to_emulator(m, it) for m in pulser_collapse_ops(nm, it, dim)]
        if nt == "eff_noise":
            want = want_all[-len(nm.eff_noise_opers):]
            if len(got) != len(want):
                print(f"REPRODUCED: get_lindblad_operators(eff_noise, {it}, dim={dim}) with rates "
                      f"{tuple(nm.eff_noise_rates)} returns {len(got)} operators for {len(want)} pulser operators")
                return 1
            for k, (g, w) in enumerate(zip(got, want)):
                if not torch.allclose(g, w, atol=1e-12):
                    op = torch.as_tensor(nm.eff_noise_opers[k], dtype=dt)
                    if it == "ising" and dim == 3 and (op[2, :2].abs().sum() + op[:2, 2].abs().sum()) > 0 \
                            and torch.allclose(g[:2, :2], w[:2, :2], atol=1e-12) and torch.allclose(g[2, 2], w[2, 2], atol=1e-12):
                        # open known finding F12 (entries coupling g/r to the leakage level keep pulser's order):
                        # listed in known_findings.json, not a new violation
                        KNOWN["F12"] = KNOWN.get("F12", 0) + 1
                        continue
                    print(f"REPRODUCED: get_lindblad_operators(eff_noise, {it}, dim={dim}) operator {k}:\n"
                          f"pulser operator (pulser basis {'r,g,x' if it == 'ising' else 'u,d,x'}) * sqrt(rate) =\n"
                          f"{(math.sqrt(nm.eff_noise_rates[k]) * torch.as_tensor(nm.eff_noise_opers[k], dtype=dt))}\n"
                          f"expected in the emulator basis ({'g,r,x' if it == 'ising' else 'u,d,x'}):\n{w}\ngot:\n{g}")
                    return 1
        else:
            n_eff = len(nm.eff_noise_opers)
            want = want_all[:len(want_all) - n_eff] if n_eff else want_all
            d = (superop(list(got), dim) - superop(want, dim)).abs().max().item()
            if d > 1e-9:
                S1, S2 = superop(list(got), dim), superop(want, dim)
                lv = (["g", "r", "x"] if it == "ising" else ["u", "d", "x"])[:dim]
                names = [a + b for a in lv for b in lv]
                i, j = (S1 - S2).abs().argmax().item() // (dim * dim), (S1 - S2).abs().argmax().item() % (dim * dim)
                print(f"REPRODUCED: get_lindblad_operators({nt}, {it}, dim={dim}), rates {nm}: the dissipator differs "
                      f"from Pulser's by {d:.4g}: d rho_{names[i]}/dt from rho_{names[j]}: emulator "
                      f"{S1[i, j].item():.4g}, pulser {S2[i, j].item():.4g}\nemulator operators: {list(got)}\n"
                      f"pulser operators (emulator basis): {want}")
                return 1
    return 0


def check_compute_noise(rnd, trials):
    from emu_base.jump_lindblad_operators import compute_noise_from_lindbladians
    for t in range(trials):
        dim = rnd.choice([2, 3])
        Ls = [torch.randn(dim, dim, dtype=dt) for _ in range(rnd.randint(0, 3))]
        got = compute_noise_from_lindbladians(Ls, dim=dim)
        want = -0.5j * sum((L.mH @ L for L in Ls), start=torch.zeros(dim, dim, dtype=dt))
        if got.shape != (dim, dim) or not torch.allclose(got, want, atol=1e-12):
            print(f"REPRODUCED: compute_noise_from_lindbladians != -i/2 sum L^+L for {Ls}: {got} vs {want}")
            return 1
        bad = Ls + [torch.randn(dim + 1, dim + rnd.choice([0, 1]), dtype=dt)]
        try:
            compute_noise_from_lindbladians(bad, dim=dim)
            print(f"REPRODUCED: compute_noise_from_lindbladians accepted an operator of shape {tuple(bad[-1].shape)} "
                  f"for dim={dim}")
            return 1
        except AssertionError:
            pass
    return 0


def check_adapter(rnd, trials):
    from emu_base.pulser_adapter import _get_all_lindblad_noise_operators
    from emu_base.jump_lindblad_operators import get_lindblad_operators
    from pulser import NoiseModel
    if _get_all_lindblad_noise_operators(None) != []:
        print("REPRODUCED: _get_all_lindblad_noise_operators(None) != []")
        return 1
    for t in range(trials):
        dim = rnd.choice([2, 3])
        it = rnd.choice(["ising", "XY"])
        kw = dict(dephasing_rate=rnd.uniform(0.1, 1), depolarizing_rate=rnd.uniform(0.1, 1),
                  eff_noise_opers=(torch.randn(dim, dim, dtype=dt),), eff_noise_rates=(rnd.uniform(0.1, 1),),
                  # every non-Lindbladian noise type pulser knows is switched on as well
                  state_prep_error=0.1, p_false_pos=0.05, amp_sigma=0.1, detuning_sigma=0.1, temperature=50.0,
                  trap_waist=1.0, trap_depth=150.0, dmm_sigma=0.1, detuning_map_spot_waist=5.0,
                  runs=3, samples_per_run=1, with_leakage=(dim == 3))
        if it == "ising":
            kw["relaxation_rate"] = rnd.uniform(0.1, 1)
        nm = NoiseModel(**kw)
        got = _get_all_lindblad_noise_operators(nm, dim=dim, interact_type=it)
        want = [op for nt in nm.noise_types if nt in ("relaxation", "dephasing", "depolarizing", "eff_noise", "leakage")
                for op in get_lindblad_operators(noise_type=nt, noise_model=nm, dim=dim, interact_type=it)]
        if len(got) != len(want) or not all(torch.equal(a, b) for a, b in zip(got, want)):
            print(f"REPRODUCED: _get_all_lindblad_noise_operators(dim={dim}, {it}) for noise types {nm.noise_types} "
                  f"returned {len(got)} operators; expected the {len(want)} operators of the Lindbladian types in order")
            return 1
    return 0


def main():
    rec = json.load(open(sys.argv[1])) if len(sys.argv) > 1 and os.path.exists(sys.argv[1]) else {}
    ob = rec.get("obligation", "")
    seed = int(os.environ.get("VERIF_SEED", "0"))
    rnd = random.Random(seed)
    torch.manual_seed(seed)
    only = None
    if "get_lindblad_operators[" in ob:
        parts = ob.split("get_lindblad_operators[")[1].split("]")[0].split(",")
        nt = parts[0]
        it = parts[1] if len(parts) > 1 and parts[1] in ("ising", "XY") else None
        dim = next((int(p.split("=")[1]) for p in parts if p.startswith("dim=")), None)
        if nt in ("relaxation", "dephasing", "depolarizing", "eff_noise"):
            only = (nt, it, dim)
    try:
        if "compute_noise" in ob:
            rc = check_compute_noise(rnd, 300)
        elif "_get_all_lindblad" in ob:
            rc = check_adapter(rnd, 40)
        elif only:
            rc = check_get_lindblad_operators(rnd, 300, only)
        else:
            rc = (check_get_lindblad_operators(rnd, 600) or check_compute_noise(rnd, 200) or check_adapter(rnd, 20))
    except Exception as e:          # an exception the contract does not allow on valid inputs
        import traceback
        traceback.print_exc()
        print(f"REPRODUCED: unexpected {type(e).__name__}: {e}")
        return 1
    if KNOWN:
        print(f"  KNOWN-FINDING-F12-INPUT-FAILS: {KNOWN['F12']} sampled 3-level effective-noise operators with g/r <-> x "
              "entries (open known finding, not counted)")
    if rc == 0:
        print("NOT-REPRODUCED: random noise models agree with pulser's collapse operators (emulator basis), "
              "-i/2 sum L^+L, and the adapter's concatenation")
    return rc


if __name__ == "__main__":
    sys.exit(main())
