"""Native replay of an Engine-B (symtorch) finding -- run with /venv/bin/python (real torch).

usage: engineb.py <replay.json> <repo_root>

The replay file names one case of the bounded symbolic check (sizes, sparsity pattern, which
entry differs, the two polynomials) and a numeric assignment `env` of every symbol at which
the two polynomials differ.  This program rebuilds the same inputs with real torch tensors,
runs the real code from <repo_root> and compares with the same independent dense
specification (float tolerance 1e-9 relative).  Prints REPRODUCED and exits 1 when the real
code disagrees with the specification (or raises); NOT-REPRODUCED / exit 0 otherwise.
"""
import importlib
import json
import os
import sys


def main():
    path, repo_root = sys.argv[1], os.path.realpath(sys.argv[2])
    sys.path.insert(0, repo_root)
    sys.path.insert(0, "/verif/symtorch/harness")
    with open(path) as f:
        rec = json.load(f)
    from symharness.core import NumBackend, execute
    mod = importlib.import_module("symharness." + rec["property"].lower())
    for p in mod.PACKAGES:
        m = importlib.import_module(p)
        f = os.path.realpath(m.__file__)
        if not f.startswith(repo_root + os.sep):
            print(f"replay error: {p} imported from {f}, not from {repo_root}")
            return 3
    case = dict(rec["case"])
    B = NumBackend(rec["env"])
    r = execute(B, case, mod.KINDS[case["kind"]])
    print(f"case: {json.dumps(rec['case'])}")
    print(f"symbolic verdict: {rec['status']}")
    print(f"native status: {r['status']}")
    if r["status"] == "mismatch":
        for m in r["mismatches"][:3]:
            print(f"  {m.get('check')} index {m.get('index')}: real code {m.get('got')}  specification {m.get('want')}")
        print("REPRODUCED")
        return 1
    if r["status"] == "raised":
        print(f"  real code raised {r['exception']['type']}: {r['exception']['message']}")
        print(r["exception"]["traceback"][-1200:])
        print("REPRODUCED")
        return 1
    if r["status"] == "crash":
        print(r.get("traceback", ""))
        return 3
    print("NOT-REPRODUCED")
    return 0


if __name__ == "__main__":
    sys.exit(main())
