"""C18 native replay: the real NoisyMPSBackendImpl.sweep_complete driven by scripted norm histories
(including a gap that is exactly zero at a step boundary); evolution, jumps and observables are stubs."""
import math, os, random, sys
from types import SimpleNamespace as NS


def run_case(rnd, exact_zero):
    from emu_mps.mps_backend_impl import NoisyMPSBackendImpl
    impl = object.__new__(NoisyMPSBackendImpl)
    T = [0.0]
    for _ in range(rnd.randint(2, 5)):
        T.append(T[-1] + rnd.choice([1.0, 2.5, 10.0]))
    impl.target_times = T
    impl.timestep_count = len(T) - 1
    impl._timestep_index = 0
    impl.current_time = 0.0
    impl.target_time = T[1]
    impl.root_finder = None
    decay = rnd.uniform(0.002, 0.3)
    st = {"t0": 0.0, "thr": rnd.uniform(0.05, 0.95)}
    if exact_zero:
        # threshold chosen so that the squared norm equals it exactly at the end of the first step
        st["thr"] = math.exp(-decay * (T[1] - 0.0))
    events = []

    def norm2(t):
        return math.exp(-decay * (t - st["t0"]))
    impl.state = NS(norm=lambda: NS(item=lambda: math.sqrt(norm2(impl.current_time))))
    impl.jump_threshold = st["thr"]
    impl.norm_gap_before_jump = 1.0 - st["thr"]

    def timestep_complete():
        events.append(("complete", impl._timestep_index, impl.current_time))
        impl._timestep_index += 1
        if impl._timestep_index < impl.timestep_count:
            impl.target_time = T[impl._timestep_index + 1]

    def jump():
        events.append(("jump", impl._timestep_index, impl.current_time, impl.root_finder.a, impl.root_finder.b))
        st["t0"] = impl.current_time
        st["thr"] = rnd.uniform(0.05, 0.95)
        impl.jump_threshold = st["thr"]
        impl.norm_gap_before_jump = 1.0 - st["thr"]
    impl.timestep_complete = timestep_complete
    impl.do_random_quantum_jump = jump
    for it in range(20000):
        if impl._timestep_index >= impl.timestep_count:
            break
        impl.sweep_complete()
    else:
        return f"no termination within 20000 sweeps (T={T}, decay={decay})", events
    done = [e for e in events if e[0] == "complete"]
    if [e[1] for e in done] != list(range(len(T) - 1)) or any(abs(e[2] - T[e[1] + 1]) > 1e-9 for e in done):
        return f"time steps not completed once, in order, at their end times: {done} for T={T}", events
    for e in events:
        if e[0] == "jump":
            _, k, t, a, b = e
            if not (T[k] - 1e-9 <= min(a, b) and max(a, b) <= T[k + 1] + 1e-9 and abs(b - a) < 1 and
                    (abs(t - a) < 1e-12 or abs(t - b) < 1e-12)):
                return f"jump at {t} with bracket [{a},{b}] outside step {k} = [{T[k]},{T[k+1]}] or wider than 1 ns", events
    return None, events


def main():
    rnd = random.Random(int(os.environ.get("VERIF_SEED", "0")))
    for trial in range(400):
        try:
            bad, ev = run_case(rnd, exact_zero=(trial % 4 == 0))
        except Exception as e:
            print(f"REPRODUCED: sweep_complete raised {type(e).__name__}: {e} (trial {trial}, "
                  f"{'gap exactly 0 at a step boundary' if trial % 4 == 0 else 'random norm history'})")
            return 1
        if bad:
            print("REPRODUCED:", bad)
            return 1
    print("NOT-REPRODUCED: 400 scripted norm histories (100 with an exactly-zero gap at a boundary): steps complete "
          "once in order, jumps inside their step within 1 ns")
    return 0


if __name__ == "__main__":
    sys.exit(main())
