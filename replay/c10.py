"""C10 native replay / falsifier.

Searches for a concrete input on which the real code breaks the clause named by the failed
obligation:
  * cutoff index / split_matrix (arithmetic of one split, which factor is the isometry);
  * truncate_impl, MPS.truncate, MPS.orthogonalize, MPS.norm, MPS.apply (and `+`, scalar `*`):
    random small MPS -- including UNNORMALISED states (norm 0.05 .. 25) with a tail of small
    singular values -- checked by dense reconstruction:
      - no bond exceeds max_bond_dim,
      - canonical form: every factor left (right) of the declared centre contracted with its
        conjugate gives the identity,
      - per-bond discarded weight in ABSOLUTE units: with P_j the projector on the right basis
        spanned by the final factors j..N-1, delta_j = |P_{j+1} psi|^2 - |P_j psi|^2 (P_N = 1);
        delta_j <= precision^2 unless bond j sits at the cap; sum_j delta_j = |psi - psi_trunc|^2,
      - orthogonalize / norm: dense state unchanged, norm() = sqrt(<psi|psi>).
Prints `REPRODUCED: ...` and exits 1 on the first failing input, else `NOT-REPRODUCED`, exit 0."""
import json, math, os, random, sys, time
import torch

dtype = torch.complex128


# ------------------------------------------------------------------------------------------------
# dense helpers
# ------------------------------------------------------------------------------------------------
def dense(factors):
    acc = torch.ones(1, 1, dtype=dtype)
    for f in factors:
        acc = torch.tensordot(acc, f.cpu().to(dtype), dims=1).reshape(-1, f.shape[2])
    return acc.reshape(-1)


def right_basis(factors, j):
    """(chi_j, d^(N-j)) matrix of the right basis states built from factors j..N-1"""
    acc = torch.ones(1, 1, dtype=dtype)
    for f in reversed(factors[j:]):
        # f: (a, s, b); acc: (b, rest) -> (a, s*rest)
        acc = torch.tensordot(f.cpu().to(dtype), acc, dims=1).reshape(f.shape[0], -1)
    return acc


def canonical_problems(factors, c, tol=1e-8):
    out = []
    for i, f in enumerate(factors):
        f = f.cpu()
        if i < c:
            g = torch.tensordot(f.conj(), f, ([0, 1], [0, 1]))
            what = "left"
        elif i > c:
            g = torch.tensordot(f.conj(), f, ([1, 2], [1, 2]))
            what = "right"
        else:
            continue
        err = (g - torch.eye(g.shape[0], dtype=g.dtype)).abs().max().item()
        if err > tol:
            out.append(f"factor {i} is not {what}-orthonormal w.r.t. the declared centre {c} (deviation {err:.2e})")
    return out


def bond_consistency(factors):
    for i in range(1, len(factors)):
        if factors[i - 1].shape[2] != factors[i].shape[0]:
            return f"bond {i}: right dim {factors[i-1].shape[2]} != left dim {factors[i].shape[0]}"
    return None


def per_bond_discards(psi, factors):
    """delta_j for j = 1..N-1 (needs the factors j >= 1 right-orthonormal)"""
    n = len(factors)
    dim = factors[0].shape[1]
    kept = [None] * (n + 1)
    kept[n] = (psi.abs() ** 2).sum().item()
    for j in range(1, n):
        R = right_basis(factors, j)
        m = psi.reshape(dim ** j, -1)
        kept[j] = (torch.linalg.norm(m @ R.conj().T) ** 2).item()
    return {j: kept[j + 1] - kept[j] for j in range(1, n)}


def check_truncated(label, psi, factors, centre, precision, cap, norm_fn=None):
    """all C10 clauses for a state that has just been truncated (centre expected at 0)"""
    n = len(factors)
    norm2 = (psi.abs() ** 2).sum().item()
    bc = bond_consistency(factors)
    if bc:
        return f"{label}: {bc}"
    if centre != 0:
        return f"{label}: declared orthogonality centre is {centre}, expected 0 after truncation"
    for j in range(1, n):
        if factors[j].shape[0] > cap:
            return f"{label}: bond {j} has dimension {factors[j].shape[0]} > max_bond_dim {cap}"
    pr = canonical_problems(factors, 0)
    if pr:
        return f"{label}: {pr[0]}"
    disc = per_bond_discards(psi, factors)
    tol = precision ** 2 * 1e-6 + 1e-12 * max(norm2, 1.0)
    for j, dj in disc.items():
        if dj > precision ** 2 + tol and factors[j].shape[0] != cap:
            return (f"{label}: weight discarded at bond {j} is {dj:.6e} = {dj / precision**2:.3f} * precision^2 "
                    f"(absolute; |psi| = {math.sqrt(norm2):.4g}, bond dim {factors[j].shape[0]} < cap {cap})")
    phi = dense(factors)
    err2 = (torch.linalg.norm(phi - psi) ** 2).item()
    if abs(err2 - sum(disc.values())) > 1e-9 * max(norm2, 1.0) + tol:
        return (f"{label}: the state changed by more than the truncation accounts for: |psi-phi|^2 = {err2:.6e}, "
                f"sum of per-bond discards = {sum(disc.values()):.6e}")
    if norm_fn is not None:
        nd = float(norm_fn())
        nt = torch.linalg.norm(phi).item()
        if abs(nd - nt) > 1e-9 * max(1.0, nt):
            return f"{label}: norm() = {nd:.12g} but sqrt(<psi|psi>) = {nt:.12g}"
    return None


# ------------------------------------------------------------------------------------------------
# inputs
# ------------------------------------------------------------------------------------------------
def random_unitary(n, gen):
    q, _ = torch.linalg.qr(torch.randn(n, n, dtype=dtype, generator=gen))
    return q


def state_with_tail(num_sites, dim, cut, tail_value, n_big, norm, gen):
    """dense state of norm `norm` whose Schmidt values at `cut` are n_big equal large ones and a flat
    tail of `tail_value`"""
    dl, dr = dim ** cut, dim ** (num_sites - cut)
    k = min(dl, dr)
    n_big = min(n_big, k)
    s = torch.full((k,), float(tail_value), dtype=torch.float64)
    tail_weight = (k - n_big) * tail_value ** 2
    s[:n_big] = math.sqrt(max(norm ** 2 - tail_weight, 1e-30) / n_big)
    u = random_unitary(dl, gen)[:, :k]
    v = random_unitary(dr, gen)[:, :k]
    return ((u * s.to(dtype)) @ v.T).reshape(-1)


def exact_factors(psi, num_sites, dim):
    """untruncated factors of a dense state (successive QR): left-orthonormal, centre on the last site"""
    factors = []
    rest = psi.reshape(1, -1)
    for _ in range(num_sites - 1):
        left = rest.shape[0]
        q, r = torch.linalg.qr(rest.reshape(left * dim, -1))
        factors.append(q.reshape(left, dim, -1))
        rest = r
    factors.append(rest.reshape(rest.shape[0], dim, 1))
    return factors


def random_factors(num_sites, dim, chi, scale, gen):
    dims = [1] + [min(chi, dim ** min(i, num_sites - i)) for i in range(1, num_sites)] + [1]
    fs = [torch.randn(dims[i], dim, dims[i + 1], dtype=dtype, generator=gen) for i in range(num_sites)]
    fs[0] = fs[0] * scale
    return fs


def cases(rnd, gen, budget):
    """(label, psi, factors(list, centre last, left-orthonormal), N, dim, precision, cap)"""
    k = 0
    while k < budget:
        k += 1
        dim = rnd.choice([2, 2, 3])
        n = rnd.choice([2, 3, 4, 5, 6] if dim == 2 else [2, 3, 4])
        precision = rnd.choice([1e-2, 1e-3, 1e-4])
        norm = rnd.choice([0.05, 1.0, 1.0, 3.0, 7.5, 25.0])
        kind = rnd.choice(["tail", "tail", "gauss", "gauss+tail"])
        if kind == "tail":
            cut = rnd.randint(1, n - 1)
            ratio = rnd.choice([0.3, 0.6, 0.9, 1.5, 3.0])
            psi = state_with_tail(n, dim, cut, ratio * precision, rnd.randint(1, 3), norm, gen)
            cap = rnd.choice([64, 64, 64, 3, 1])
        else:
            fs = random_factors(n, dim, rnd.randint(1, 4), 1.0, gen)
            psi = dense(fs)
            psi = psi / torch.linalg.norm(psi) * norm
            if kind == "gauss+tail":
                noise = torch.randn(psi.shape, dtype=dtype, generator=gen)
                psi = psi + noise / torch.linalg.norm(noise) * precision * rnd.choice([0.5, 2.0, 6.0])
            cap = rnd.choice([64, 64, 2, 1])
        label = (f"N={n} dim={dim} precision={precision:g} max_bond_dim={cap} |psi|={torch.linalg.norm(psi).item():.4g} "
                 f"kind={kind}")
        yield label, psi, exact_factors(psi, n, dim), n, dim, precision, cap


def make_mps(MPS, factors, dim, precision, cap, centre=None):
    eig = ("r", "g") if dim == 2 else ("g", "r", "x")
    return MPS([f.clone() for f in factors], precision=precision, max_bond_dim=cap, eigenstates=eig,
               num_gpus_to_use=0, orthogonality_center=centre)


# ------------------------------------------------------------------------------------------------
# falsifiers per operation
# ------------------------------------------------------------------------------------------------
def falsify_truncate_impl(rnd, gen, budget):
    from emu_mps.utils import truncate_impl
    for label, psi, fs, n, dim, precision, cap in cases(rnd, gen, budget):
        fs = [f.clone() for f in fs]
        try:
            truncate_impl(fs, precision=precision, max_bond_dim=cap)
        except Exception as e:
            return f"truncate_impl raised {type(e).__name__}: {e} [{label}]"
        bad = check_truncated("truncate_impl " + label, psi, fs, 0, precision, cap)
        if bad:
            return bad
    return None


def falsify_mps_truncate(rnd, gen, budget):
    from emu_mps import MPS
    for label, psi, fs, n, dim, precision, cap in cases(rnd, gen, budget):
        if n < 2:
            continue
        variant = rnd.choice(["centre None", "centre last", "scrambled gauge", "sum"])
        if variant == "scrambled gauge":
            # same state, arbitrary gauge: insert X X^-1 on every bond; no centre declared
            fs2 = [f.clone() for f in fs]
            for b in range(1, n):
                chi = fs2[b].shape[0]
                x = torch.randn(chi, chi, dtype=dtype, generator=gen) + 2 * torch.eye(chi, dtype=dtype)
                fs2[b - 1] = torch.tensordot(fs2[b - 1], x, dims=1)
                fs2[b] = torch.tensordot(torch.linalg.inv(x), fs2[b], dims=1)
            st = make_mps(MPS, fs2, dim, precision, cap, None)
            ref = dense(fs2)
        elif variant == "sum":
            a = make_mps(MPS, fs, dim, precision, cap, n - 1)
            # the sum is truncated with the LEFT operand's settings, whatever the right one carries
            b = make_mps(MPS, fs, dim, precision * rnd.choice([1, 30]), cap + rnd.choice([0, 7]), n - 1)
            try:
                st = 0.5 * a + 0.5 * b
            except Exception as e:
                return f"0.5*psi + 0.5*psi raised {type(e).__name__}: {e} [{label}]"
            bad = check_truncated("MPS.__add__ (0.5*psi + 0.5*psi) " + label, psi, st.factors,
                                  st.orthogonality_center, precision, cap, st.norm)
            if bad:
                return bad
            continue
        else:
            st = make_mps(MPS, fs, dim, precision, cap, None if variant == "centre None" else n - 1)
            ref = psi
        try:
            st.truncate()
        except Exception as e:
            return f"MPS.truncate raised {type(e).__name__}: {e} [{label}, {variant}]"
        bad = check_truncated(f"MPS.truncate ({variant}) " + label, ref, st.factors, st.orthogonality_center,
                              precision, cap, st.norm)
        if bad:
            return bad
    return None


def falsify_orthogonalize(rnd, gen, budget, also_norm_apply=True):
    from emu_mps import MPS
    for t in range(budget):
        dim = rnd.choice([2, 3])
        n = rnd.randint(2, 6 if dim == 2 else 4)
        scale = rnd.choice([0.05, 1.0, 4.0, 25.0])
        fs = random_factors(n, dim, rnd.randint(1, 5), scale, gen)
        st = make_mps(MPS, fs, dim, 1e-5, 1024, None)
        ref = dense(st.factors)
        nref = torch.linalg.norm(ref).item()
        label = f"N={n} dim={dim} |psi|={nref:.4g}"
        for step in range(4):
            c = rnd.randrange(n)
            before = [f.shape[0] for f in st.factors]
            try:
                res = st.orthogonalize(c)
            except Exception as e:
                return f"orthogonalize({c}) raised {type(e).__name__}: {e} [{label}]"
            if res != c or st.orthogonality_center != c:
                return f"orthogonalize({c}) returned {res}, declared centre {st.orthogonality_center} [{label}]"
            bc = bond_consistency(st.factors)
            if bc:
                return f"orthogonalize({c}): {bc} [{label}]"
            pr = canonical_problems(st.factors, c)
            if pr:
                return f"orthogonalize({c}) (step {step}, previous centre history random): {pr[0]} [{label}]"
            if any(f.shape[0] > b for f, b in zip(st.factors, before)):
                return f"orthogonalize({c}) increased a bond: {before} -> {[f.shape[0] for f in st.factors]} [{label}]"
            now = dense(st.factors)
            if torch.linalg.norm(now - ref).item() > 1e-9 * max(1.0, nref):
                return f"orthogonalize({c}) changed the state by {torch.linalg.norm(now - ref).item():.3e} [{label}]"
            if also_norm_apply:
                nd = float(st.norm())
                if abs(nd - nref) > 1e-9 * max(1.0, nref):
                    return f"norm() = {nd:.12g} but sqrt(<psi|psi>) = {nref:.12g} after orthogonalize({c}) [{label}]"
        if also_norm_apply:
            # norm() without a declared centre
            st2 = make_mps(MPS, fs, dim, 1e-5, 1024, None)
            nd = float(st2.norm())
            if abs(nd - nref) > 1e-9 * max(1.0, nref):
                return f"norm() = {nd:.12g} but sqrt(<psi|psi>) = {nref:.12g} (no declared centre) [{label}]"
            if st2.orthogonality_center is None or canonical_problems(st2.factors, st2.orthogonality_center):
                return f"norm() left centre {st2.orthogonality_center} but the factors are not canonical [{label}]"
            # apply: centre on the qubit, canonical, state = op_q psi
            q = rnd.randrange(n)
            op = torch.randn(dim, dim, dtype=dtype, generator=gen)
            st3 = make_mps(MPS, fs, dim, 1e-5, 1024, None)
            st3.apply(q, op)
            if st3.orthogonality_center != q:
                return f"apply({q}, op): declared centre {st3.orthogonality_center} [{label}]"
            pr = canonical_problems(st3.factors, q)
            if pr:
                return f"apply({q}, op): {pr[0]} [{label}]"
            want = torch.tensordot(op, ref.reshape(dim ** q, dim, -1), ([1], [1])).permute(1, 0, 2).reshape(-1)
            if torch.linalg.norm(dense(st3.factors) - want).item() > 1e-9 * max(1.0, nref):
                return f"apply({q}, op): state differs from op_q psi [{label}]"
    return None


def falsify_scaling(rnd, gen, budget):
    """c * psi keeps the declared centre valid and scales the state; (c*psi) + (c*psi) truncates in
    absolute units"""
    from emu_mps import MPS
    for label, psi, fs, n, dim, precision, cap in cases(rnd, gen, budget):
        st = make_mps(MPS, fs, dim, precision, 64, n - 1)
        st.truncate()
        st.orthogonalize(rnd.randrange(n))          # the centre may be anywhere when the state is scaled
        ref = dense(st.factors)
        c = rnd.choice([0.5, 3.0, 25.0, complex(0, 2.0)])
        big = c * st
        if big.orthogonality_center != st.orthogonality_center:
            return (f"{c} * psi: declared centre {big.orthogonality_center}, the operand's is "
                    f"{st.orthogonality_center} [{label}]")
        if big.orthogonality_center is not None:
            pr = canonical_problems(big.factors, big.orthogonality_center)
            if pr:
                return f"{c} * psi: {pr[0]} [{label}]"
            nd, nt = float(big.norm()), torch.linalg.norm(c * ref).item()
            if abs(nd - nt) > 1e-9 * max(1.0, nt):
                return f"{c} * psi: norm() = {nd:.12g} but sqrt(<psi|psi>) = {nt:.12g} [{label}]"
        if torch.linalg.norm(dense(big.factors) - c * ref).item() > 1e-9 * max(1.0, abs(c) * torch.linalg.norm(ref).item()):
            return f"{c} * psi: state is not the scaled state [{label}]"
        # the in-place form  psi *= c  with the centre wherever it is
        inp = make_mps(MPS, [f.clone() for f in st.factors], dim, precision, 64, st.orthogonality_center)
        inp *= c
        if inp.orthogonality_center is not None:
            pr = canonical_problems(inp.factors, inp.orthogonality_center)
            if pr:
                return f"psi *= {c} (centre {st.orthogonality_center}): {pr[0]} [{label}]"
            nd, nt = float(inp.norm()), torch.linalg.norm(c * ref).item()
            if abs(nd - nt) > 1e-9 * max(1.0, nt):
                return f"psi *= {c} (centre {st.orthogonality_center}): norm() = {nd:.12g} but sqrt(<psi|psi>) = {nt:.12g} [{label}]"
        if torch.linalg.norm(dense(inp.factors) - c * ref).item() > 1e-9 * max(1.0, abs(c) * torch.linalg.norm(ref).item()):
            return f"psi *= {c}: state is not the scaled state [{label}]"
        tot = big + big
        bad = check_truncated(f"({c}*psi) + ({c}*psi) " + label, 2 * c * ref, tot.factors, tot.orthogonality_center,
                              precision, 64, tot.norm)
        if bad:
            return bad
    return None


def falsify_evolve(rnd, gen, budget):
    """MPSBackendImpl._evolve(l, r, dt, orth_center_right) / evolve_pair on a product-operator
    Hamiltonian h_l (x) h_r (bond dimension 1, identity baths): the declared centre follows
    orth_center_right, the factors are canonical w.r.t. it, the new bond respects the cap and the
    result is within precision (absolute) of exp(-i dt h_l h_r) psi unless the cap binds; one-site
    _evolve keeps the centre."""
    import types
    from emu_mps import MPS
    from emu_mps.mps_backend_impl import MPSBackendImpl
    for t in range(budget):
        dim = 2
        n = rnd.randint(2, 5)
        scale = rnd.choice([1.0, 1.0, 6.0, 0.2])
        precision = rnd.choice([1e-2, 1e-3, 1e-5])
        cap = rnd.choice([64, 64, 2, 1])
        fs = random_factors(n, dim, rnd.randint(1, 4), 1.0, gen)
        psi0 = dense(fs)
        fs[0] = fs[0] / torch.linalg.norm(psi0) * scale
        st = make_mps(MPS, fs, dim, precision, cap, None)
        l = rnd.randrange(n - 1)
        r = l + 1
        ocr = rnd.random() < 0.5
        c = rnd.choice([l, r])
        st.orthogonalize(c)
        psi = dense(st.factors)
        hs = []
        for _ in range(n):
            a = torch.randn(dim, dim, dtype=dtype, generator=gen)
            hs.append((a + a.conj().T) / 2)
        impl = object.__new__(MPSBackendImpl)
        impl.state = st
        impl.hamiltonian = types.SimpleNamespace(factors=[h.reshape(1, dim, dim, 1).clone() for h in hs])
        impl.config = types.SimpleNamespace(precision=precision, max_bond_dim=cap, extra_krylov_tolerance=1e-3,
                                            max_krylov_dim=100)
        impl.has_lindblad_noise = False
        impl.dim = dim
        chi_l, chi_r = st.factors[l].shape[0], st.factors[r].shape[2]
        impl.left_baths = [torch.eye(chi_l, dtype=dtype).reshape(chi_l, 1, chi_l)]
        impl.right_baths = [torch.eye(chi_r, dtype=dtype).reshape(chi_r, 1, chi_r)]
        dt = rnd.choice([1.0, 10.0, 50.0])
        label = (f"N={n} |psi|={scale:g} centre={c} pair=({l},{r}) orth_center_right={ocr} precision={precision:g} "
                 f"max_bond_dim={cap} dt={dt:g}")
        try:
            impl._evolve(l, r, dt=dt, orth_center_right=ocr)
        except Exception as e:
            return f"_evolve raised {type(e).__name__}: {e} [{label}]"
        want_c = r if ocr else l
        if st.orthogonality_center != want_c:
            return f"_evolve: declared centre {st.orthogonality_center}, expected {want_c} [{label}]"
        bc = bond_consistency(st.factors)
        if bc:
            return f"_evolve: {bc} [{label}]"
        pr = canonical_problems(st.factors, want_c)
        if pr:
            return f"_evolve: {pr[0]} [{label}]"
        k = st.factors[r].shape[0]
        if k > cap:
            return f"_evolve: bond {r} has dimension {k} > max_bond_dim {cap} [{label}]"
        u = torch.linalg.matrix_exp(-1j * 0.001 * dt * torch.kron(hs[l], hs[r]))
        want = torch.einsum("ts,asb->atb", u, psi.reshape(dim ** l, dim * dim, -1)).reshape(-1)
        err2 = (torch.linalg.norm(dense(st.factors) - want) ** 2).item()
        ktol = (precision * 1e-3 * 10) ** 2 * max(scale, 1.0) ** 2
        if k != cap and err2 > precision ** 2 * (1 + 1e-6) + ktol + 1e-12 * scale ** 2:
            return (f"_evolve: |U psi - result|^2 = {err2:.4e} = {err2 / precision**2:.3f} * precision^2 with bond "
                    f"{k} < cap (absolute units) [{label}]")
        # one-site evolution keeps the centre and the canonical form
        idx = st.orthogonality_center
        chi_l, chi_r = st.factors[idx].shape[0], st.factors[idx].shape[2]
        impl.left_baths = [torch.eye(chi_l, dtype=dtype).reshape(chi_l, 1, chi_l)]
        impl.right_baths = [torch.eye(chi_r, dtype=dtype).reshape(chi_r, 1, chi_r)]
        before = [f.shape for f in st.factors]
        try:
            impl._evolve(idx, dt=dt)
        except Exception as e:
            return f"_evolve({idx}) raised {type(e).__name__}: {e} [{label}]"
        if st.orthogonality_center != idx or canonical_problems(st.factors, idx) or \
                [f.shape for f in st.factors] != before:
            return f"_evolve({idx}): centre {st.orthogonality_center}, canonical form or shapes broken [{label}]"
    return None


# ------------------------------------------------------------------------------------------------
def degenerate_cap(split_matrix):
    """the bond cap binds exactly where the spectrum is degenerate: the kept dimension must still be <= max_rank"""
    from emu_mps import MPS
    for diag, rank in (([1.0, 2.0, 2.0, 3.0], 2), ([1.0, 1.0], 1), ([0.5, 0.5, 0.5, 0.5], 2), ([1.0, 3.0, 3.0, 3.0], 1),
                       ([2.0, 2.0, 2.0], 2)):
        for right in (True, False):
            m = torch.diag(torch.tensor(diag, dtype=torch.complex128))
            left, rgt = split_matrix(m, 1e-12, rank, right, False)
            inner = left.shape[1]
            if inner > rank or rgt.shape[0] != inner:
                return (f"split_matrix(diag({diag}), max_error=1e-12, max_rank={rank}, orth_center_right={right}) keeps "
                        f"inner dimension {inner} > max_rank {rank} (degenerate singular values at the cap)")
    # GHZ state on 4 qubits, bond cap 1: every bond has two equal Schmidt values
    n = 4
    f = []
    for k in range(n):
        t = torch.zeros(1 if k == 0 else 2, 2, 1 if k == n - 1 else 2, dtype=torch.complex128)
        for b in range(2):
            t[0 if k == 0 else b, b, 0 if k == n - 1 else b] = 1.0
        f.append(t)
    f[0] = f[0] / (2 ** 0.5)
    for cap in (1,):
        mps = MPS([t.clone() for t in f], max_bond_dim=cap, precision=1e-8, num_gpus_to_use=0, eigenstates=("r", "g"))
        mps.truncate()
        bonds = [t.shape[2] for t in mps.factors[:-1]]
        if max(bonds) > cap:
            return f"GHZ state on {n} qubits, max_bond_dim={cap}: bond dimensions after truncate() are {bonds}"
    return None


def main():
    rec = json.load(open(sys.argv[1]))
    ob = rec["obligation"]
    seed = int(os.environ.get("VERIF_SEED", "0"))
    rnd = random.Random(seed)
    torch.manual_seed(seed)
    torch.set_num_threads(1)          # tiny tensors: the thread pool only costs time
    gen = torch.Generator().manual_seed(20260922 + seed)
    from emu_mps.utils import _determine_cutoff_index, split_matrix
    if "_determine_cutoff_index" in ob:
        for t in range(20000):
            n = rnd.randint(0, 6)
            d = torch.tensor(sorted(rnd.choice([0.0, 0.25, 0.5, 1.0, rnd.random()]) for _ in range(n)),
                             dtype=torch.float64)
            eps = rnd.choice([0.5, 1.0, 0.7071, rnd.uniform(0.1, 2)])
            try:
                r = _determine_cutoff_index(d, eps)
            except Exception as e:
                print(f"REPRODUCED: _determine_cutoff_index({d.tolist()}, {eps}) raised {type(e).__name__}: {e}")
                return 1
            ok = (0 <= r < max(n, 1)) and float(d[:r].sum()) <= eps * eps + 1e-15
            if not ok:
                print(f"REPRODUCED: _determine_cutoff_index({d.tolist()}, {eps}) = {r}: "
                      f"discarded weight {float(d[:r].sum())} vs budget {eps*eps}, n={n}")
                return 1
        print("NOT-REPRODUCED: 20000 random eigenvalue lists satisfy index range and error budget")
        return 0
    if "split_matrix" in ob:
        bad = degenerate_cap(split_matrix)
        if bad:
            print("REPRODUCED: " + bad)
            return 1
        for t in range(3000):
            r, c = rnd.randint(1, 6), rnd.randint(1, 6)
            m = torch.randn(r, c, dtype=torch.complex128) * rnd.choice([1e-3, 1.0])
            eps = rnd.choice([1e-8, 1e-3, 0.5, 2.0])
            rank = rnd.randint(1, 6)
            right = rnd.random() < 0.5
            pn = rnd.random() < 0.3
            left, rgt = split_matrix(m, eps, rank, right, pn)
            k = left.shape[1]
            n = r if right else c
            gram = m @ m.T.conj() if right else m.T.conj() @ m
            ev = torch.linalg.eigvalsh(gram)
            disc = float(ev[: n - k].sum())
            # floating point (A1): the eigenvalues of the Gram matrix carry an absolute error of
            # about machine epsilon times its norm -- not a violation of the real-number clause
            fp = 1e-12 * float(ev.abs().sum()) + 1e-300
            ok = left.shape[0] == r and rgt.shape[1] == c and rgt.shape[0] == k and 1 <= k <= rank and k <= n \
                and (disc <= eps * eps * (1 + 1e-9) + fp or k == rank)
            if not ok:
                print(f"REPRODUCED: split_matrix(shape {r}x{c}, max_error={eps}, max_rank={rank}, "
                      f"orth_center_right={right}) -> bond {k}, discarded weight {disc}, budget {eps*eps}")
                return 1
            if not pn:
                # what is actually discarded: |m - l r|^2 (must be the weight of the dropped directions)
                lost = float(torch.linalg.norm(m - left @ rgt) ** 2)
                if lost > eps * eps * (1 + 1e-9) + fp and k != rank:
                    print(f"REPRODUCED: split_matrix(shape {r}x{c}, max_error={eps}, max_rank={rank}, "
                          f"orth_center_right={right}) -> bond {k} < cap, but |m - l r|^2 = {lost} > max_error^2 = {eps*eps}")
                    return 1
            # the factor away from the future centre is an isometry
            iso = left if right else rgt
            g = iso.T.conj() @ iso if right else iso @ iso.T.conj()
            dev = (g - torch.eye(k, dtype=g.dtype)).abs().max().item()
            if dev > 1e-9:
                print(f"REPRODUCED: split_matrix(shape {r}x{c}, orth_center_right={right}, preserve_norm={pn}): the "
                      f"{'left' if right else 'right'} factor is not an isometry (deviation {dev:.2e})")
                return 1
        print("NOT-REPRODUCED: 3000 random matrices satisfy shape, cap, error-budget and isometry clauses")
        return 0
    # ---- exactly degenerate spectra at the rank cap (random matrices never have them) -----------------
    bad = degenerate_cap(split_matrix)
    if bad:
        print("REPRODUCED: " + bad)
        return 1
    # ---- MPS level: the property-level falsifier, most relevant operation first -----------------
    plan = [("truncate_impl", lambda: falsify_truncate_impl(rnd, gen, 1000)),
            ("MPS.truncate", lambda: falsify_mps_truncate(rnd, gen, 1000)),
            ("MPS.orthogonalize", lambda: falsify_orthogonalize(rnd, gen, 400)),
            ("scaling", lambda: falsify_scaling(rnd, gen, 200)),
            ("_evolve", lambda: falsify_evolve(rnd, gen, 200))]
    first = [p for p in plan if p[0] in ob] or []
    if "evolve_pair" in ob:
        first = [plan[4]]
    if any(x in ob for x in ("MPS.norm", "MPS.apply")):
        first = [plan[2]]
    if any(x in ob for x in ("__rmul__", "__imul__", "__add__")):
        first = [plan[3], plan[1]]
    order = first + [p for p in plan if p not in first]
    t0 = time.time()
    ran = []
    for name, fn in order:
        bad = fn()
        ran.append(name)
        if bad:
            print("REPRODUCED: " + bad)
            return 1
        if time.time() - t0 > 240:
            break
    print(f"NOT-REPRODUCED: random unnormalised MPS with singular-value tails satisfy bond cap, per-bond absolute "
          f"discarded weight, canonical form, state preservation and norm() for {', '.join(ran)} "
          f"({time.time() - t0:.0f} s)")
    return 0


if __name__ == "__main__":
    sys.exit(main())
