"""C10 native replay: search for a concrete input on which the real truncation helpers break the
clause named by the failed obligation (cutoff index / split_matrix)."""
import json, os, random, sys
import torch


def main():
    rec = json.load(open(sys.argv[1]))
    ob = rec["obligation"]
    seed = int(os.environ.get("VERIF_SEED", "0"))
    rnd = random.Random(seed)
    torch.manual_seed(seed)
    from emu_mps.utils import _determine_cutoff_index, split_matrix
    if "_determine_cutoff_index" in ob:
        for t in range(20000):
            n = rnd.randint(0, 6)
            d = torch.tensor(sorted(rnd.choice([0.0, 0.25, 0.5, 1.0, rnd.random()]) for _ in range(n)),
                             dtype=torch.float64)
            eps = rnd.choice([0.5, 1.0, 0.7071, rnd.uniform(0.1, 2)])
            try:
                r = _determine_cutoff_index(d, eps)
            except Exception as e:
                print(f"REPRODUCED: _determine_cutoff_index({d.tolist()}, {eps}) raised {type(e).__name__}: {e}")
                return 1
            ok = (0 <= r < max(n, 1)) and float(d[:r].sum()) <= eps * eps + 1e-15
            if not ok:
                print(f"REPRODUCED: _determine_cutoff_index({d.tolist()}, {eps}) = {r}: "
                      f"discarded weight {float(d[:r].sum())} vs budget {eps*eps}, n={n}")
                return 1
        print("NOT-REPRODUCED: 20000 random eigenvalue lists satisfy index range and error budget")
        return 0
    if "split_matrix" in ob:
        for t in range(3000):
            r, c = rnd.randint(1, 6), rnd.randint(1, 6)
            m = torch.randn(r, c, dtype=torch.complex128) * rnd.choice([1e-3, 1.0])
            eps = rnd.choice([1e-8, 1e-3, 0.5, 2.0])
            rank = rnd.randint(1, 6)
            right = rnd.random() < 0.5
            left, rgt = split_matrix(m, eps, rank, right)
            k = left.shape[1]
            n = r if right else c
            gram = m @ m.T.conj() if right else m.T.conj() @ m
            ev = torch.linalg.eigvalsh(gram)
            disc = float(ev[: n - k].sum())
            ok = left.shape[0] == r and rgt.shape[1] == c and rgt.shape[0] == k and 1 <= k <= rank and k <= n \
                and (disc <= eps * eps * (1 + 1e-9) + 1e-18 or k == rank)
            if not ok:
                print(f"REPRODUCED: split_matrix(shape {r}x{c}, max_error={eps}, max_rank={rank}, "
                      f"orth_center_right={right}) -> bond {k}, discarded weight {disc}, budget {eps*eps}")
                return 1
        print("NOT-REPRODUCED: 3000 random matrices satisfy shape, cap and error-budget clauses")
        return 0
    print("NOT-REPRODUCED: no native replay for this obligation")
    return 0


if __name__ == "__main__":
    sys.exit(main())
