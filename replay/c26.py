"""C26 native replay: a run resumed from an autosave reports the same results as an uninterrupted
run (same atom order, same occupations), and the autosave file is gone after completion.  Two
registers whose bandwidth-optimised order differs from the register order: the 4-atom chain
0-2-1-3 (an involution) and a 2x3 grid (perm != inverse perm), qubit-order optimisation on and off,
autosave taken after 1, 3 and 5 calls of progress()."""
import os, sys
sys.path.insert(0, os.path.dirname(os.path.abspath(__file__)))
import torch
import perm_native as N


def main():
    N.setup()
    N.in_tmp_dir()
    from emu_mps import MPSBackend
    findings = []
    for label, matrix in (("chain 0-2-1-3", None), ("2x3 grid", N.grid_matrix())):
        for optimize in (True, False):
            # the uninterrupted reference goes through the backend's own entry point for one trajectory
            _, sd0, cfg0 = N.make_impl(optimize, matrix=matrix)
            full = MPSBackend._run_from_sequence_data(sd0, cfg0)
            if tuple(full.atom_order) != tuple(sd0.qubit_ids):
                findings.append(f"{label}: an uninterrupted run reports atom_order {tuple(full.atom_order)}, the register "
                                f"order is {tuple(sd0.qubit_ids)}")
                break
            for n_progress in (1, 3, 5):
                impl, sd, cfg = N.make_impl(optimize, autosave_dt=11, matrix=matrix)
                perm = impl.qubit_permutation.tolist()
                impl.init()
                for _ in range(n_progress):
                    impl.progress()
                impl.last_save_time = -1e18
                impl.save_simulation()
                path = impl.autosave_file
                if not os.path.exists(path):
                    findings.append(f"{label}: save_simulation left no file at the advertised path {path}")
                    continue
                resumed = MPSBackend.resume(path)
                where = f"{label}, optimize_qubit_ordering={optimize} (perm {perm}), autosave after {n_progress} progress() calls"
                if tuple(resumed.atom_order) != tuple(full.atom_order):
                    findings.append(f"{where}: resumed run reports atom_order {tuple(resumed.atom_order)}, an uninterrupted "
                                    f"run {tuple(full.atom_order)}")
                a, b = torch.as_tensor(resumed.occupation[-1]), torch.as_tensor(full.occupation[-1])
                if a.shape != b.shape or not torch.allclose(a, b, atol=1e-9):
                    findings.append(f"{where}: final occupations of the resumed run {[round(float(x), 6) for x in a]} differ "
                                    f"from the uninterrupted run {[round(float(x), 6) for x in b]}")
                if os.path.exists(path):
                    findings.append(f"{where}: the autosave file {os.path.basename(str(path))} still exists after the resumed "
                                    "run completed")
                if findings:
                    break
            if findings:
                break
        if findings:
            break
    if not findings:
        # the autosave file moved / renamed / given as str before resuming: the continued run advertises and finally
        # removes the file it was resumed FROM, and a later autosave goes next to it -- not to the path recorded in the
        # snapshot by the crashed process
        import shutil
        for how in ("moved to another directory", "renamed", "moved, old directory deleted, one more autosave due"):
            os.makedirs("run_dir", exist_ok=True)
            cwd = os.getcwd()
            os.chdir("run_dir")
            impl, sd, cfg = N.make_impl(True, autosave_dt=11)
            impl.init()
            impl.progress()
            impl.last_save_time = -1e18
            impl.save_simulation()
            old = str(impl.autosave_file)
            os.chdir(cwd)
            old = old if os.path.isabs(old) else os.path.join(cwd, "run_dir", old)
            if how == "renamed":
                new = os.path.join(os.path.dirname(old), "checkpoint_kept_by_the_user.dat")
            else:
                os.makedirs("elsewhere", exist_ok=True)
                new = os.path.join(cwd, "elsewhere", os.path.basename(old))
            shutil.move(old, new)
            if how.startswith("moved, old"):
                shutil.rmtree(os.path.join(cwd, "run_dir"))
                import emu_mps.mps_backend_impl as _M
                orig_progress = _M.MPSBackendImpl.progress
                state = {"n": 0}

                def progress(self, _o=orig_progress, _s=state):
                    _s["n"] += 1
                    if _s["n"] == 2:
                        self.last_save_time = -1e18          # an autosave is due during the resumed run
                    return _o(self)
                _M.MPSBackendImpl.progress = progress
            try:
                resumed = MPSBackend.resume(new)
                a = torch.as_tensor(resumed.occupation[-1])
                _, sd0, cfg0 = N.make_impl(True)
                b = torch.as_tensor(MPSBackend._run_from_sequence_data(sd0, cfg0).occupation[-1])
                if not torch.allclose(a, b, atol=1e-9):
                    findings.append(f"autosave file {how}: resumed results differ from the uninterrupted run")
                left = [os.path.join(r, f) for r, _, fs in os.walk(cwd) for f in fs if f.endswith((".dat", ".new", ".bak"))]
                if left:
                    findings.append(f"autosave file {how} before resume(): after the resumed run completed these files are "
                                    f"left: {[os.path.relpath(x, cwd) for x in left]}")
            except Exception as e:          # noqa: BLE001
                findings.append(f"autosave file {how} before resume(): the resumed run raised {type(e).__name__}: {str(e)[:200]}")
            finally:
                if how.startswith("moved, old"):
                    _M.MPSBackendImpl.progress = orig_progress
            for d in ("run_dir", "elsewhere"):
                shutil.rmtree(os.path.join(cwd, d), ignore_errors=True)
            if findings:
                break
    if not findings:
        # noisy runs: resume from autosaves taken at the points a crash can leave behind (separate process:
        # it monkeypatches the implementation classes)
        import subprocess
        p = subprocess.run([sys.executable, os.path.join(os.path.dirname(os.path.abspath(__file__)), "c26_noisy.py")],
                           capture_output=True, text=True, env=dict(os.environ, OMP_NUM_THREADS="1"), timeout=1500)
        out = "\n".join(l for l in p.stdout.splitlines() if "conda" not in l.lower())
        if p.returncode == 1 and "REPRODUCED:" in out:
            findings.append(out.strip().splitlines()[-1].replace("REPRODUCED: ", "") + " | " +
                            " ; ".join(l.strip() for l in out.splitlines() if l.startswith("VIOLATION"))[:600])
        else:
            print("  noisy part: " + (out.strip().splitlines() or ["(no output)"])[-1])
    if findings:
        print("REPRODUCED: " + findings[0])
        for t in findings[1:]:
            print("  also: " + t)
        return 1
    print("NOT-REPRODUCED: resumed and uninterrupted runs agree (atom order, occupations) for both registers, ordering "
          "on/off, three autosave positions; autosave file removed on completion")
    return 0


if __name__ == "__main__":
    ROOT = os.path.abspath(sys.argv[2] if len(sys.argv) > 2 else os.getcwd())
    sys.exit(N.cached("c26", main, ROOT))
