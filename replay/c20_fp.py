"""C20 floating-point side obligations, run natively (real torch): usage c20_fp.py <repo_root> <tier> [case-json]

The proof of C20 is over the reals (A1).  PCHIP is homogeneous of degree one in the values,
P[c y](x) == c P[y](x), and a power-of-two c scales every intermediate of the textbook algorithm
exactly, so the interpolant of c*y divided by c must equal the interpolant of y as long as c*y is
finite: any other result means an intermediate over- or underflowed (e.g. a product of two secant
slopes).  Data sets x scales 2**k x dtypes; clauses: finite, knots reproduced, homogeneous (vs the
unscaled run), within the data range on monotone stretches.  Prints one JSON line."""
import json
import os
import sys


def datasets(torch, dtype):
    T = lambda v: torch.tensor(v, dtype=dtype)
    return [
        ("mixed", T([0.0, 1.0, 2.5, 3.0, 4.5, 5.0, 6.0, 7.5, 8.0]), T([0.0, 1.0, 3.0, 3.5, 6.0, 6.0, 6.0, 2.0, 1.0])),
        ("monotone", T([0.0, 0.5, 1.0, 3.0, 3.25, 7.0]), T([-2.0, -1.5, 0.25, 0.5, 4.0, 4.5])),
        ("three-knots", T([0.0, 1.0, 3.0]), T([1.0, 2.0, 2.5])),
        ("two-knots", T([0.0, 2.0]), T([1.0, -3.0])),
        ("kink-ends", T([0.0, 1.0, 2.0, 3.0, 4.0]), T([0.0, 2.0, 1.5, 3.0, 0.5])),
        # a huge value next to ordinary ones: a knot must be reproduced to ITS OWN scale (evaluated on its own interval)
        ("wide-range", T([0.0, 0.7, 1.9, 3.1, 4.0, 5.3]), T([0.3, 1e8 if dtype == torch.float32 else 1e16, 1.1, 2.3, 3.7, 4.9])),
        ("wide-range-2", T([0.0, 1.0, 2.0, 3.0, 4.0, 5.0]), T([0.0, 1e8 if dtype == torch.float32 else 1e16, 1.0, 2.0, 3.0, 4.0])),
    ]


def run(repo_root, tier, only=None):
    sys.path.insert(0, repo_root)
    import torch
    import emu_base.math.pchip_torch as M
    assert os.path.realpath(M.__file__).startswith(os.path.realpath(repo_root) + os.sep), M.__file__
    fails, n = {}, 0
    exps = {torch.float64: [0, 100, -100, 300, -300, 500, -500, 520, -520, 600, -600, -900] + ([900, -900, 1000] if tier == "thorough" else []),
            torch.float32: [0, 30, -30, 60, -60, 70, -70] + ([100, -100] if tier == "thorough" else [])}
    for dtype, es in exps.items():
        tol = 1e-11 if dtype == torch.float64 else 2e-5
        for name, x, y in datasets(torch, dtype):
            lo, hi = float(x[0]), float(x[-1])
            xq = torch.cat([torch.linspace(lo, hi, 97, dtype=dtype), torch.tensor([lo - 0.5, hi + 0.25], dtype=dtype)])
            unit = M.PCHIP1D(x, y)(xq).double()
            for e in es:
                case = dict(data=name, dtype=str(dtype).split(".")[-1], exponent=e)
                if only and only != case:
                    continue
                c = 2.0 ** e
                yc = y * torch.tensor(c, dtype=torch.float64).to(dtype) if abs(e) < 1000 else y * c
                if not torch.isfinite(yc).all() or (yc == 0).any() and not (y == 0).any() and False:
                    continue
                # skip scales at which the data itself leaves the normal range of the dtype
                tiny = torch.finfo(dtype).tiny
                big = torch.finfo(dtype).max
                mags = yc.abs()[y != 0]
                if mags.numel() and (mags.min() < tiny * 2 ** 12 or mags.max() > big / 2 ** 12):
                    continue
                n += 1
                res = {}
                try:
                    P = M.PCHIP1D(x, yc)
                    got = P(xq).double()
                    at = P(x).double()
                    res["finite"] = (bool(torch.isfinite(got).all()), f"non-finite values at {int((~torch.isfinite(got)).sum())} query points")
                    g = got / c
                    dev = (g - unit).abs().max().item() if torch.isfinite(g).all() else float("inf")
                    res["homogeneous"] = (dev <= tol * (1 + unit.abs().max().item()),
                                          f"P[c y]/c differs from P[y] by {dev:.3g} (c = 2**{e})")
                    kd = (at / c - y.double()).abs().max().item() if torch.isfinite(at).all() else float("inf")
                    ok_k = kd <= tol * (1 + y.double().abs().max().item())
                    detail_k = f"max |P(x_k)/c - y_k| = {kd:.3g}"
                    if ok_k and torch.isfinite(at).all():
                        # every knot but the last is the start of its own interval: reproduced to its own scale
                        own = ((at / c - y.double()).abs() / (1 + y.double().abs()))[:-1]
                        if own.numel() and own.max().item() > 64 * tol:
                            k = int(own.argmax())
                            ok_k = False
                            detail_k = (f"knot {k}: P(x_k)/c = {(at[k] / c).item()!r} but y_k = {y[k].item()!r} "
                                        f"(neighbouring values up to {y.double().abs().max().item():.3g})")
                    res["knots-reproduced"] = (ok_k, detail_k)
                except Exception as ex:     # noqa: BLE001
                    res["no-exception"] = (False, f"{type(ex).__name__}: {ex}")
                for cl, (ok, detail) in res.items():
                    if not ok and cl not in fails:
                        fails[cl] = dict(case, detail=detail)
    return dict(runs=n, fails=fails, clauses=["no-exception", "finite", "homogeneous", "knots-reproduced"])


if __name__ == "__main__":
    only = json.loads(sys.argv[3]) if len(sys.argv) > 3 else None
    out = run(os.path.realpath(sys.argv[1]), sys.argv[2] if len(sys.argv) > 2 else "quick", only)
    print("C20FP " + json.dumps(out))
