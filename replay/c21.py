"""C21 native replay: the real emu_base.pulser_adapter._get_target_times on concrete inputs.

(1) the input named by the counter-model of the replay file (duration, dt, requested times) if it
    carries one, (2) a fixed search grid.  Checked on the returned list, in IEEE doubles: strictly
    increasing, first == 0, last == duration (exactly: `_extract_omega_delta_phi` asserts it), all
    within [0, duration], every multiple of dt and every requested time matched by a target time.
    When the last target time differs from the duration the downstream AssertionError is shown."""
import json
import os
import sys
from types import SimpleNamespace

sys.path.insert(0, os.path.dirname(os.path.abspath(__file__)))

TOL = 1e-10


class Seq:
    def __init__(self, duration):
        self.duration = duration

    def get_duration(self, include_fall_time=False):
        return self.duration


class Times(list):
    def tolist(self):
        return list(self)


def config(requested):
    obs = SimpleNamespace(evaluation_times=list(requested))
    return SimpleNamespace(observables=[obs], with_modulation=False, default_evaluation_times=Times([1.0]))


def violations(tt, D, dt, req):
    import math
    Df = float(D)
    out = []
    if not all(a < b for a, b in zip(tt, tt[1:])):
        out.append("not strictly increasing")
    if tt[0] != 0.0:
        out.append(f"first target time {tt[0]!r} != 0")
    if tt[-1] != Df:
        out.append(f"last target time {tt[-1]!r} != duration {Df!r}")
    if not all(0.0 <= t <= Df for t in tt):
        out.append(f"target time outside [0, duration]: max = {max(tt)!r}")
    slack = 2.5 * TOL * Df
    import bisect
    for i in range(math.floor(Df / dt) + 1):
        m = i * dt
        if m > Df:
            continue
        k = bisect.bisect_left(tt, m)
        near = [tt[j] for j in (k - 1, k) if 0 <= j < len(tt)]
        if not any(abs(t - m) <= slack for t in near):
            out.append(f"multiple of dt {m!r} (i = {i}) is not a target time")
            break
    for e in req:
        if not any(abs(t / tt[-1] - e) <= TOL for t in tt):
            out.append(f"requested time {e!r} is matched by no target time")
            break
    return out


def downstream(tt, D):
    """the assertion in _extract_omega_delta_phi that the overshoot trips"""
    try:
        import torch
        from emu_base.pulser_adapter import _extract_omega_delta_phi

        class Samples:
            max_duration = D

            def to_nested_dict(self, all_local=True, samples_type="tensor"):
                z = torch.zeros(int(D), dtype=torch.float64)
                return {"Local": {"ground-rydberg": {"q0": {"amp": z + 1.0, "det": z, "phase": z}}}}
        _extract_omega_delta_phi(Samples(), ("q0",), tt)
        return "no exception downstream"
    except AssertionError:
        return "AssertionError in _extract_omega_delta_phi (noisy_samples.max_duration == target_times[-1])"
    except Exception as e:          # pragma: no cover
        return f"{type(e).__name__}: {e}"


def cases(rec):
    cm = (rec or {}).get("counter_model") or {}
    lin = [i * 0.01 for i in range(101)]
    thirds = [0.0, 1 / 3, 2 / 3, 1.0, 0.123456789]
    if isinstance(cm, dict) and "duration" in cm:
        req = lin if cm.get("requested") == "linspace(0,1,101)" else list(cm.get("requested") or thirds)
        yield cm["duration"], cm["dt"], req
    yield 3091, 1.1, thirds
    yield 1000, 10, lin
    for D, dt in ((10, 3), (10, 2.5), (7, 10), (100, 0.7)):      # (no request at 0 or 1)
        yield D, dt, [0.25, 0.5]
    # requested times within the matcher's tolerance of each other are merged: every one of them must still be
    # matched by a target time -- also in chains longer than the tolerance and next to a grid time
    for D, dt in ((1000, 7), (1000, 10), (300, 10)):
        yield D, dt, [0.3, 0.1 + 0.2, 0.6, 0.6 + 5e-11, 0.6 + 9e-11]
        yield D, dt, [0.3 + k * 0.8e-10 for k in range(6)] + [0.45 - 0.7e-10, 0.45, 0.45 + 0.7e-10]
        yield D, dt, [0.3 + 0.5e-10, 0.3 + 1.2e-10, 0.3 + 1.9e-10, 0.7 - 1.1e-10, 0.7 - 0.4e-10]
    for D in list(range(1, 200)) + [250, 1000, 4000, 9973, 10000]:
        for dt in (0.1, 0.3, 0.7, 1.1, 1.3, 2.2, 10 / 3, 7.0, 10.0, 12345.0):
            if D / dt <= 40000:
                yield D, dt, thirds


def main():
    rec = None
    if len(sys.argv) > 1 and os.path.exists(sys.argv[1]):
        with open(sys.argv[1]) as f:
            rec = json.load(f)
    from emu_base.pulser_adapter import _get_target_times, _unique_observable_times
    # the requested times: every observable's own ones, the default ones for observables without
    for own, default in (([[0.2]], [0.5, 0.8]), ([None], [0.5, 0.8]), ([[0.1, 0.3], None, [0.7]], [0.9]),
                         ([None, [0.4]], [0.6]), ([], [0.5])):
        cfg = SimpleNamespace(observables=[SimpleNamespace(evaluation_times=o) for o in own],
                              default_evaluation_times=Times(default))
        want = set()
        for o in own:
            want |= set(default if o is None else o)
        got = set(_unique_observable_times(cfg))
        if got != want:
            print(f"REPRODUCED: _unique_observable_times(observables with evaluation_times {own}, default "
                  f"{default}) = {sorted(got)}, requested times are {sorted(want)}")
            return 1
    n = 0
    for D, dt, req in cases(rec):
        n += 1
        tt = _get_target_times(Seq(D), config(req), dt)
        bad = violations(tt, D, dt, req)
        if bad:
            extra = ""
            if tt[-1] != float(D):
                extra = "; downstream: " + downstream(tt, D)
            print(f"REPRODUCED: _get_target_times(duration={D}, dt={dt}, {len(req)} requested times): "
                  + "; ".join(bad) + f" (tail of the grid: {tt[-3:]})" + extra)
            return 1
    print(f"NOT-REPRODUCED: {n} (duration, dt) pairs: grid increasing, from 0 to the duration exactly, "
          "covers the multiples of dt and the requested times")
    return 0


if __name__ == "__main__":
    sys.exit(main())
