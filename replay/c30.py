"""C30 native replay -- run with /venv/bin/python (real torch).

usage: c30.py <replay.json> <repo_root>          replay of one failed obligation
       c30.py --batch <batch.json> <repo_root>   replay of many bounded-symbolic cases in one process
                                                 (results are written to <batch.json>.out)

* PCHIP obligations (Engine A, kind != bounded-symbolic): gradients through PCHIP1D must be finite (flat
  segments are the hard case).
* bounded-symbolic obligations (Engine B, /verif/symtorch/harness/symharness/c30.py): the counter-model names
  one case (number of atoms, site, which phases are the literal 0.0, batch size) and a numeric assignment
  `env` of every symbol at which the real operator and the differentiated dense Hamiltonian differ as
  polynomials.  The same case is rebuilt with real torch tensors, the real DHD*Sparse /
  EvolveStateVector.backward from <repo_root> is run and compared (1e-9 relative) with the same
  specification evaluated at `env`.
Prints REPRODUCED and exits 1 when the real code disagrees with the specification (or raises);
NOT-REPRODUCED / exit 0 otherwise.
"""
import importlib
import json
import os
import random
import sys


def pchip():
    import torch
    from emu_base.math.pchip_torch import PCHIP1D
    rnd = random.Random(int(os.environ.get("VERIF_SEED", "0")))
    cases = [[0., 1., 1., 1., 2., 3.], [0., 0., 1., 3.], [2., 2., 2.], [1., -1., 1., -1.]]
    for _ in range(300):
        n = rnd.randint(2, 7)
        cases.append([rnd.choice([0., 0., 1., 2., -1., rnd.uniform(-2, 2)]) for _ in range(n)])
    for y in cases:
        x = torch.arange(len(y), dtype=torch.float64)
        yt = torch.tensor(y, dtype=torch.float64, requires_grad=True)
        xq = torch.linspace(0.0, len(y) - 1.0, 23, dtype=torch.float64)
        out = PCHIP1D(x, yt)(xq).sum()
        (g,) = torch.autograd.grad(out, yt)
        if not torch.isfinite(g).all():
            print(f"REPRODUCED: y={y}: d(sum P)/dy = {g.tolist()} is not finite")
            return 1
    print(f"NOT-REPRODUCED: gradients finite on {len(cases)} sample vectors (incl. flat segments)")
    return 0


def _harness(repo_root):
    sys.path.insert(0, repo_root)
    sys.path.insert(0, "/verif/symtorch/harness")
    from symharness.core import NumBackend, execute
    mod = importlib.import_module("symharness.c30")
    for p in mod.PACKAGES:
        m = importlib.import_module(p)
        f = os.path.realpath(m.__file__)
        if not f.startswith(repo_root + os.sep):
            raise RuntimeError(f"replay error: {p} imported from {f}, not from {repo_root}")
    return mod, NumBackend, execute


def _generic_backend(NumBackend, seed):
    """numeric backend that draws a generic value for every symbol on first use (cross-run of cases that
    matched symbolically: the real code must agree with the specification there too)"""
    rng = random.Random(seed)

    class Generic(NumBackend):
        def real(self, name, nonzero=False):
            if name not in self.env:
                self.env[name] = rng.choice([-1, 1]) * rng.uniform(0.25, 2.0)
            return super().real(name, nonzero)

        def angle(self, name):
            if name not in self.env:
                self.env[name] = rng.choice([-1, 1]) * rng.uniform(0.2, 3.0)
            return super().angle(name)
    return Generic({})


def _one(mod, NumBackend, execute, case, env, seed=0):
    """-> (exit code, text, the numeric assignment used)"""
    B = NumBackend(env) if env else _generic_backend(NumBackend, seed)
    r = execute(B, dict(case), mod.KINDS[case["kind"]])
    lines = [f"case: {json.dumps(case)}", f"native status: {r['status']}"]
    if not env:
        lines.append(f"generic assignment: {json.dumps(B.env)[:1500]}")
    if r["status"] == "mismatch":
        for m in r["mismatches"][:3]:
            lines.append(f"  {m.get('check')} index {m.get('index')}: real code {m.get('got')}  specification {m.get('want')}")
        lines.append("REPRODUCED")
        return 1, "\n".join(lines), dict(B.env)
    if r["status"] == "raised":
        lines.append(f"  real code raised {r['exception']['type']}: {r['exception']['message']}")
        lines.append(r["exception"]["traceback"][-1200:])
        lines.append("REPRODUCED")
        return 1, "\n".join(lines), dict(B.env)
    if r["status"] == "crash":
        lines.append(r.get("traceback", ""))
        return 3, "\n".join(lines), dict(B.env)
    lines.append("NOT-REPRODUCED")
    return 0, "\n".join(lines), dict(B.env)


def bounded(rec, repo_root):
    model = rec.get("counter_model")
    if not isinstance(model, dict) or "case" not in model or not model.get("env"):
        print("NOT-REPRODUCED: the obligation is undecided under the shim and carries no numeric assignment "
              "(the bounded native panel search was already run by the check)")
        return 0
    mod, NumBackend, execute = _harness(repo_root)
    print(f"obligation: {rec.get('obligation')}")
    print(f"symbolic verdict: {model.get('status')}")
    rc, text, _ = _one(mod, NumBackend, execute, model["case"], model["env"])
    print(text)
    return rc


def batch(path, repo_root):
    with open(path) as f:
        jobs = json.load(f)
    mod, NumBackend, execute = _harness(repo_root)
    out = {}
    for n, j in enumerate(jobs):
        rc, text, env = _one(mod, NumBackend, execute, j["case"], j.get("env"), seed=1000 * int(j.get("seed", 0)) + n)
        out[j["name"]] = dict(exit=rc, stdout=text[-3000:], reproduced=(rc == 1))
        if rc == 1 and not j.get("env"):
            out[j["name"]]["env"] = env
    with open(path + ".out", "w") as f:
        json.dump(out, f)
    return 0


def main():
    if len(sys.argv) >= 4 and sys.argv[1] == "--batch":
        return batch(sys.argv[2], os.path.realpath(sys.argv[3]))
    rec = None
    if len(sys.argv) >= 3:
        try:
            with open(sys.argv[1]) as f:
                rec = json.load(f)
        except Exception:               # noqa: BLE001
            rec = None
    if isinstance(rec, dict) and rec.get("kind") == "bounded-symbolic":
        return bounded(rec, os.path.realpath(sys.argv[2]))
    rc = pchip()
    if rc:
        return rc
    return gradients_vs_finite_differences()


def waveform_parameter_gradients():
    """the clause 'numeric parameters of Pulser waveforms' through the whole pipeline (pulser sequence -> PulserData ->
    SVBackend): two atoms on two local channels, each with its own parameters; at a generic point and at the
    symmetric point where both channels carry equal numbers (still independent parameters).  Adapted from the
    demonstration of seed C30-c, written by an independent sub-agent."""
    import torch
    import pulser
    from emu_sv import SVConfig, SVBackend, Occupation
    names = ["amp q0", "amp q1", "det q0", "det q1", "phase q0", "phase q1"]

    def loss_fn(p):
        reg = pulser.Register({"q0": (-3.5, 0.0), "q1": (3.5, 0.0)})
        seq = pulser.Sequence(reg, pulser.MockDevice)
        seq.declare_channel("ch0", "rydberg_local", initial_target="q0")
        seq.declare_channel("ch1", "rydberg_local", initial_target="q1")
        for k, ch in enumerate(("ch0", "ch1")):
            amp = pulser.waveforms.ConstantWaveform(120, p[0 + k])
            det = pulser.waveforms.ConstantWaveform(120, p[2 + k])
            seq.add(pulser.Pulse(amp, det, p[4 + k]), ch, protocol="no-delay")
        cfg = SVConfig(dt=10, krylov_tolerance=1e-12, observables=[Occupation(evaluation_times=[1.0])], gpu=False,
                       log_level=1000)
        occ = SVBackend(seq, config=cfg).run().occupation[-1]
        return occ[0] + 0.3 * occ[1]
    for label, values in (("distinct values", [6.0, 4.5, -2.0, 1.5, 0.3, 0.7]),
                          ("equal values on both atoms", [6.0, 6.0, -2.0, -2.0, 0.3, 0.3])):
        p = torch.tensor(values, dtype=torch.float64, requires_grad=True)
        (ad,) = torch.autograd.grad(loss_fn(p), p)
        eps = 1e-5
        for k in range(len(values)):
            e = torch.zeros(len(values), dtype=torch.float64)
            e[k] = eps
            with torch.no_grad():
                fd = (loss_fn(p.detach() + e) - loss_fn(p.detach() - e)) / (2 * eps)
            if not bool(torch.isfinite(ad[k])) or abs(ad[k] - fd) > 1e-6 + 1e-5 * abs(fd):
                return (f"two atoms on two local channels, waveform parameters {values} ({label}): d loss / d {names[k]} = "
                        f"{ad[k].item():+.6e} by autograd, {float(fd):+.6e} by central differences")
    return None


def gradients_vs_finite_differences():
    """the property itself on a small emu-sv run (2 atoms, 3 steps, per-step drives as autograd leaves): the
    autograd gradient of a loss built from the results equals its central finite difference -- final-time and
    intermediate-time occupations, energy, a non-normalised initial state, every drive kind"""
    import torch
    sys.path.insert(0, os.path.dirname(os.path.abspath(__file__)))
    from native_util import patch_pulser_observable, make_sequence_data
    patch_pulser_observable()
    from emu_sv import SVConfig, StateVector
    from emu_sv.sv_backend import SVBackend
    from pulser.backend import Occupation, Energy
    c = torch.complex128
    base = {"omega": torch.tensor([[2.0, 3.0], [2.5, 1.0], [1.5, 2.0]], dtype=c),
            "delta": torch.tensor([[0.5, -0.3], [0.2, 0.1], [-0.4, 0.3]], dtype=c),
            "phi": torch.tensor([[0.3, 0.1], [0.2, 0.4], [0.1, 0.2]], dtype=c)}

    def run(drives, obs, init=None):
        sd = make_sequence_data(2, 3, omega=drives["omega"], delta=drives["delta"], phi=drives["phi"])
        cfg = SVConfig(observables=obs, gpu=False, krylov_tolerance=1e-10, log_level=50,
                       **({"initial_state": init} if init is not None else {}))
        return SVBackend._run_from_sequence_data(sd, cfg)

    def occ_loss(times, init=None):
        def f(drives):
            res = run(drives, [Occupation(evaluation_times=times)], init() if init else None)
            return sum((o[0] + 0.3 * o[1]).real for o in res.occupation)
        return f

    def energy_loss(drives):
        res = run(drives, [Energy(evaluation_times=[1.0])])
        e = res.energy[-1]
        return e.real if torch.is_tensor(e) else torch.as_tensor(e)

    unnorm = lambda: StateVector(torch.tensor([1.0, 0.5j, 0.2, 0.1], dtype=c) * 2.0, gpu=False)
    cases = [("final-time occupation", occ_loss([1.0]), ("omega", "delta", "phi"), None),
             ("occupation at intermediate times", occ_loss([1 / 3, 2 / 3, 1.0]), ("omega", "delta"), None),
             ("final-time occupation from a non-normalised initial state", occ_loss([1.0], unnorm), ("omega",), None),
             ("energy", energy_loss, ("omega", "delta"), "F30"),
             ("energy", energy_loss, ("phi",), "F29")]
    # an idle first step (all amplitudes exactly zero) from the basis state |gg>: H|gg> = 0 exactly, so the forward
    # Krylov space and the backward Lanczos recursion both break down with a residual that is exactly zero
    idle = dict(base, omega=base["omega"].clone())
    idle["omega"][0, :] = 0
    cases = [(label, loss, wrt, known, base) for label, loss, wrt, known in cases]
    cases.append(("final-time occupation, idle first step", occ_loss([1.0]), ("delta", "phi"), None, idle))
    cases.append(("occupation at intermediate times, idle first step", occ_loss([1 / 3, 1.0]), ("delta",), None, idle))
    for label, loss, wrt, known, base in cases:
        for name in wrt:
            where = f"d({label})/d({name})"
            try:
                leaf = base[name].clone().requires_grad_(True)
                val = loss(dict(base, **{name: leaf}))
                val.backward()
                ad = leaf.grad.real.clone()
                fd = torch.zeros_like(ad)
                eps = 1e-6
                for i in range(ad.shape[0]):
                    for j in range(ad.shape[1]):
                        xp, xm = base[name].clone(), base[name].clone()
                        xp[i, j] += eps
                        xm[i, j] -= eps
                        fd[i, j] = (float(loss(dict(base, **{name: xp}))) - float(loss(dict(base, **{name: xm})))) / (2 * eps)
                dev = float((ad - fd).abs().max())
                bad = None if (torch.isfinite(ad).all() and dev <= 1e-6) else \
                    f"autograd and finite differences differ by {dev:.3g} (autograd finite: {bool(torch.isfinite(ad).all())})"
            except Exception as e:          # noqa: BLE001
                bad = f"{type(e).__name__}: {str(e)[:160]}"
            if bad and known:
                print(f"  KNOWN-FINDING-{known}-INPUT-FAILS: {where}: {bad}")
            elif bad:
                print(f"REPRODUCED: emu-sv, 2 atoms, 3 steps, per-step drives as autograd leaves: {where}: {bad}")
                return 1
    bad = waveform_parameter_gradients()
    if bad:
        print("REPRODUCED: " + bad)
        return 1
    print("NOT-REPRODUCED: autograd gradients of occupation / energy losses equal central finite differences (1e-6) for "
          "per-step amplitudes, detunings and phases, also with intermediate evaluation times and a non-normalised "
          "initial state")
    return 0


if __name__ == "__main__":
    sys.exit(main())
