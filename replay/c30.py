"""C30 native replay: gradients through PCHIP1D must be finite (flat segments are the hard case)."""
import os, random, sys
import torch


def main():
    from emu_base.math.pchip_torch import PCHIP1D
    rnd = random.Random(int(os.environ.get("VERIF_SEED", "0")))
    cases = [[0., 1., 1., 1., 2., 3.], [0., 0., 1., 3.], [2., 2., 2.], [1., -1., 1., -1.]]
    for _ in range(300):
        n = rnd.randint(2, 7)
        cases.append([rnd.choice([0., 0., 1., 2., -1., rnd.uniform(-2, 2)]) for _ in range(n)])
    for y in cases:
        x = torch.arange(len(y), dtype=torch.float64)
        yt = torch.tensor(y, dtype=torch.float64, requires_grad=True)
        xq = torch.linspace(0.0, len(y) - 1.0, 23, dtype=torch.float64)
        out = PCHIP1D(x, yt)(xq).sum()
        (g,) = torch.autograd.grad(out, yt)
        if not torch.isfinite(g).all():
            print(f"REPRODUCED: y={y}: d(sum P)/dy = {g.tolist()} is not finite")
            return 1
    print(f"NOT-REPRODUCED: gradients finite on {len(cases)} sample vectors (incl. flat segments)")
    return 0


if __name__ == "__main__":
    sys.exit(main())
