"""C02 native replay (data-flow clauses): with qubit-order optimisation on, the drive handed to
hamiltonian.update_H for MPS site k must be the drive of register atom perm[k], the matrix handed
to make_H must be J[perm[i], perm[j]], and the run must report the same occupations as with the
optimisation off."""
import os, sys
sys.path.insert(0, os.path.dirname(os.path.abspath(__file__)))
import torch
import perm_native as N


def main():
    N.setup()
    N.in_tmp_dir()
    impl, sd, cfg = N.make_impl(True)
    perm = impl.qubit_permutation.tolist()
    if perm == [0, 1, 2, 3]:
        print("NOT-REPRODUCED: the optimiser kept the register order on the chain 0-2-1-3 (scenario needs a reordering)")
        return 0
    calls = N.handed_drives(impl)
    J = N.chain_matrix()
    got_J = impl.current_interaction_matrix
    want_J = J[impl.qubit_permutation][:, impl.qubit_permutation]
    if not torch.equal(got_J, want_J):
        print(f"REPRODUCED: matrix handed to make_H is not J[perm[i], perm[j]] for perm {perm}: {got_J.tolist()}")
        return 1
    om, de, ph = N.local_drives()
    for name, reg_vals in (("omega", om), ("delta", de), ("phi", ph)):
        got = calls[-1][name].real.tolist()
        want = [reg_vals[0, p].real.item() for p in perm]
        if got != want:
            print(f"REPRODUCED: qubit_permutation = {perm} (site k holds register atom perm[k]); per-atom {name} = "
                  f"{reg_vals[0].real.tolist()}; hamiltonian.update_H received {name} = {got} for sites 0..3, "
                  f"expected {want}")
            _, r_on = N.run(True)
            _, r_off = N.run(False)
            print(f"  end-to-end: final occupations with optimize_qubit_ordering=False {[round(x, 5) for x in r_off.occupation[-1].tolist()]}"
                  f" vs True {[round(float(x), 5) for x in r_on.occupation[-1]]} (atom order {r_on.atom_order})")
            return 1
    _, r_on = N.run(True)
    _, r_off = N.run(False)
    a, b = torch.as_tensor(r_on.occupation[-1]), torch.as_tensor(r_off.occupation[-1])
    if not torch.allclose(a, b, atol=1e-6):
        print(f"REPRODUCED: occupations differ between optimize_qubit_ordering=True {a.tolist()} and False {b.tolist()}")
        return 1
    print(f"NOT-REPRODUCED: perm {perm}: drives and couplings reach the right sites; occupations agree with/without reordering")
    return 0


if __name__ == "__main__":
    sys.exit(main())
