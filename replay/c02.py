"""C02 native replay (data-flow clauses): with qubit-order optimisation on, the drive handed to
hamiltonian.update_H for MPS site k must be the drive of register atom perm[k], the matrix handed
to make_H must be J[perm[i], perm[j]], a given initial state must be re-keyed by perm, and the run
must report the same occupations as with the optimisation off."""
import os, sys
sys.path.insert(0, os.path.dirname(os.path.abspath(__file__)))
import torch
import perm_native as N
import perm_units as U


def slm_switch():
    """the interaction matrix changes at a step boundary (an SLM mask ends): the MPO is rebuilt there and must
    still carry the drives of the step that follows -- emu-mps against emu-sv on the same SequenceData"""
    import dataclasses
    from emu_base.pulser_adapter import _InteractionMatrixCallable
    from emu_mps import MPSBackend, MPSConfig
    from emu_sv import SVConfig
    from emu_sv.sv_backend import SVBackend
    from pulser.backend import Occupation
    steps = 6
    full = N.chain_matrix((1.5, 2.0, 2.5))
    masked = full.clone()
    masked[3, :] = 0.0
    masked[:, 3] = 0.0
    om, de, ph = N.local_drives(steps)
    from native_util import make_sequence_data
    sd = make_sequence_data(4, steps, matrix=full, omega=om * 3.0, delta=de, phi=ph)
    sd = dataclasses.replace(sd, interaction_matrix=_InteractionMatrixCallable(full, masked, 20.0))   # ends at a grid time
    occ = {}
    for name, backend, cfg in (("emu-mps", MPSBackend, MPSConfig(observables=[Occupation(evaluation_times=[1.0])], log_level=50,
                                                               optimize_qubit_ordering=False, precision=1e-9)),
                               ("emu-sv", SVBackend, SVConfig(observables=[Occupation(evaluation_times=[1.0])], log_level=50,
                                                             gpu=False, krylov_tolerance=1e-10))):
        res = backend._run_from_sequence_data(sd, cfg)
        occ[name] = torch.as_tensor(res.occupation[-1]).double()
    if not torch.allclose(occ["emu-mps"], occ["emu-sv"], atol=2e-4):
        return (f"interaction matrix switches at t = 20 ns (step boundary, SLM mask on atom 3 ends), local drives: final "
                f"occupations emu-mps {[round(float(x), 5) for x in occ['emu-mps']]} vs emu-sv "
                f"{[round(float(x), 5) for x in occ['emu-sv']]}")
    return None


def main():
    N.setup()
    N.in_tmp_dir()
    impl, sd, cfg = N.make_impl(True)
    perm = impl.qubit_permutation.tolist()
    if perm == [0, 1, 2, 3]:
        print("NOT-REPRODUCED: the optimiser kept the register order on the chain 0-2-1-3 (scenario needs a reordering)")
        return 0
    msgs = []
    calls = N.handed_drives(impl)
    om, de, ph = N.local_drives()
    for name, reg_vals in (("omega", om), ("delta", de), ("phi", ph)):
        got = calls[-1][name].real.tolist()
        want = [reg_vals[0, p].real.item() for p in perm]
        if got != want:
            msgs.append(f"qubit_permutation = {perm} (site k holds register atom perm[k]); per-atom {name} = "
                        f"{reg_vals[0].real.tolist()}; hamiltonian.update_H received {name} = {got} for sites 0..3, "
                        f"expected {want}")
            break
    for unit in (U.init_unit, U.interaction_matrix_unit, U.update_H_unit, U.initial_state_unit):
        m = unit()
        if m:
            msgs.append(m)
    _, r_on = N.run(True)
    _, r_off = N.run(False)
    a, b = torch.as_tensor(r_on.occupation[-1]), torch.as_tensor(r_off.occupation[-1])
    if not torch.allclose(a, b, atol=1e-6):
        msgs.append(f"end-to-end: final occupations with optimize_qubit_ordering=False {[round(float(x), 5) for x in b]}"
                    f" vs True {[round(float(x), 5) for x in a]} (atom order {tuple(r_on.atom_order)})")
    m = slm_switch()
    if m:
        msgs.append(m)
    if not msgs:
        # through real Pulser sequences, labels not in sorted order (separate process: its own pulser objects)
        import subprocess
        q = subprocess.run([sys.executable, os.path.join(os.path.dirname(os.path.abspath(__file__)), "c02_labels.py")],
                           capture_output=True, text=True, timeout=900, env=dict(os.environ, OMP_NUM_THREADS="1"))
        out = [l for l in q.stdout.splitlines() if "conda" not in l.lower()]
        if q.returncode == 1 and any(l.startswith("REPRODUCED:") for l in out):
            msgs.append(" | ".join(l.strip() for l in out[-8:])[:1500])
        else:
            print("  sequence part: " + (out or ["(no output) " + q.stderr[-200:]])[-1])
    if msgs:
        print("REPRODUCED: " + msgs[0])
        for m in msgs[1:]:
            print("  also: " + m)
        return 1
    print(f"NOT-REPRODUCED: perm {perm}: drives, couplings and initial amplitudes reach the right sites; "
          "occupations agree with/without reordering")
    return 0


if __name__ == "__main__":
    ROOT = os.path.abspath(sys.argv[2] if len(sys.argv) > 2 else os.getcwd())
    sys.exit(N.cached("c02", main, ROOT))
