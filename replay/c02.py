"""C02 native replay (data-flow clauses): with qubit-order optimisation on, the drive handed to
hamiltonian.update_H for MPS site k must be the drive of register atom perm[k], the matrix handed
to make_H must be J[perm[i], perm[j]], a given initial state must be re-keyed by perm, and the run
must report the same occupations as with the optimisation off."""
import os, sys
sys.path.insert(0, os.path.dirname(os.path.abspath(__file__)))
import torch
import perm_native as N
import perm_units as U


def main():
    N.setup()
    N.in_tmp_dir()
    impl, sd, cfg = N.make_impl(True)
    perm = impl.qubit_permutation.tolist()
    if perm == [0, 1, 2, 3]:
        print("NOT-REPRODUCED: the optimiser kept the register order on the chain 0-2-1-3 (scenario needs a reordering)")
        return 0
    msgs = []
    calls = N.handed_drives(impl)
    om, de, ph = N.local_drives()
    for name, reg_vals in (("omega", om), ("delta", de), ("phi", ph)):
        got = calls[-1][name].real.tolist()
        want = [reg_vals[0, p].real.item() for p in perm]
        if got != want:
            msgs.append(f"qubit_permutation = {perm} (site k holds register atom perm[k]); per-atom {name} = "
                        f"{reg_vals[0].real.tolist()}; hamiltonian.update_H received {name} = {got} for sites 0..3, "
                        f"expected {want}")
            break
    for unit in (U.init_unit, U.interaction_matrix_unit, U.update_H_unit, U.initial_state_unit):
        m = unit()
        if m:
            msgs.append(m)
    _, r_on = N.run(True)
    _, r_off = N.run(False)
    a, b = torch.as_tensor(r_on.occupation[-1]), torch.as_tensor(r_off.occupation[-1])
    if not torch.allclose(a, b, atol=1e-6):
        msgs.append(f"end-to-end: final occupations with optimize_qubit_ordering=False {[round(float(x), 5) for x in b]}"
                    f" vs True {[round(float(x), 5) for x in a]} (atom order {tuple(r_on.atom_order)})")
    if msgs:
        print("REPRODUCED: " + msgs[0])
        for m in msgs[1:]:
            print("  also: " + m)
        return 1
    print(f"NOT-REPRODUCED: perm {perm}: drives, couplings and initial amplitudes reach the right sites; "
          "occupations agree with/without reordering")
    return 0


if __name__ == "__main__":
    ROOT = os.path.abspath(sys.argv[2] if len(sys.argv) > 2 else os.getcwd())
    sys.exit(N.cached("c02", main, ROOT))
