"""C07 native replay / falsifier (run with /venv/bin/python, cwd = repo, PYTHONPATH = repo).

Random operators (anti-Hermitian -i*dt*H, -i*dt*(H - iG/2), general; block structure and
eigen-subspace start vectors for happy breakdowns; tiny Krylov dimensions for non-convergence)
against the REAL krylov_exp_impl / krylov_exp / KrylovExpResult.  The locals `n2`, `err`, `j` of
the returning call are read with sys.settrace; tensordot calls are counted per iteration.

Clauses (the same as contracts/krylov.py):
  happy => converged;  converged & happy => n2 < norm_tolerance;  converged & not happy => err < exp_tolerance
  converged => iteration_count == j + 1;  not converged => iteration_count == max_krylov_dim == #op calls
  orthogonalisation count per iteration: min(j+1, 2) iff is_hermitian else j+1
  krylov_exp returns iff the solver reports converged (RecursionError otherwise) and returns its vector
  KrylovExpResult refuses happy_breakdown without converged
"""
import json
import os
import cmath
import random
import sys

import torch

dt = torch.complex128


def rand_op(rnd, n, kind):
    a = torch.randn(n, n, dtype=dt)
    h = (a + a.mH) / 2
    t = rnd.choice([0.05, 0.5, 2.0])
    if kind == "herm":
        m = -1j * t * h
    elif kind == "damped":
        g = torch.randn(n, n, dtype=dt)
        m = -1j * t * (h - 0.5j * (g.mH @ g) / n)
    else:
        m = t * torch.randn(n, n, dtype=dt)
    if kind != "general" and rnd.random() < 0.35:
        # a large energy offset (detuned / interacting Rydberg levels): -i t (H + E0 1); the identity part only
        # rotates the phase of exp(A)v but enters the norm of A
        m = m - 1j * t * rnd.choice([10.0, 40.0, 150.0]) * torch.eye(n, dtype=dt)
    if rnd.random() < 0.3 and n >= 2:      # invariant subspace -> happy breakdown
        k = rnd.randint(1, n - 1)
        m[k:, :k] = 0
        m[:k, k:] = 0
    return m


def traced_impl(mod, m, v, herm, etol, ntol, kdim):
    """run krylov_exp_impl, return (result, locals at return, #op calls, tensordot calls per iteration)"""
    calls = {"op": 0, "dots": []}
    real_tensordot = torch.tensordot

    def op(x):
        calls["op"] += 1
        calls["dots"].append(0)
        return m @ x

    def tensordot(*a, **k):
        if calls["dots"]:
            calls["dots"][-1] += 1
        return real_tensordot(*a, **k)

    captured = {}
    code = mod.krylov_exp_impl.__code__

    def tracer(frame, event, arg):
        if frame.f_code is code:
            def local(frame, event, arg):
                if event == "return":
                    captured.update({k: frame.f_locals.get(k) for k in ("n2", "err", "j")})
                return local
            return local
        return None
    torch.tensordot = tensordot
    sys.settrace(tracer)
    try:
        res = mod.krylov_exp_impl(op, v.clone(), is_hermitian=herm, exp_tolerance=etol, norm_tolerance=ntol,
                                  max_krylov_dim=kdim)
    finally:
        sys.settrace(None)
        torch.tensordot = real_tensordot
    return res, captured, calls


def main():
    rec = json.load(open(sys.argv[1])) if len(sys.argv) > 1 and os.path.exists(sys.argv[1]) else {}
    seed = int(os.environ.get("VERIF_SEED", "0"))
    rnd = random.Random(seed)
    torch.manual_seed(seed)
    import importlib
    importlib.import_module("emu_base.math.krylov_exp")
    mod = sys.modules["emu_base.math.krylov_exp"]      # the package re-exports a function of that name

    # KrylovExpResult
    try:
        mod.KrylovExpResult(result=torch.zeros(1), converged=False, happy_breakdown=True, iteration_count=1)
        print("REPRODUCED: KrylovExpResult accepts happy_breakdown=True with converged=False")
        return 1
    except AssertionError:
        pass

    n_runs = 0
    stats = {"happy": 0, "conv": 0, "noconv": 0}
    acc = {"max_ratio": 0.0, "bad": []}
    for trial in range(150):
        n = rnd.choice([1, 2, 3, 5, 8, 16])
        kind = rnd.choice(["herm", "damped", "general"])
        herm = kind == "herm" if rnd.random() < 0.9 else rnd.random() < 0.5
        m = rand_op(rnd, n, kind)
        v = torch.randn(n, dtype=dt)
        if rnd.random() < 0.15:             # eigenvector start: breakdown in the first iteration
            v = torch.linalg.eig(m)[1][:, 0].clone()
        v = v * rnd.choice([1.0, 1.0, 1e-3, 1e-6, 1e3])      # the solver normalises v: flags must not depend on |v|
        etol = rnd.choice([1e-4, 1e-8, 1e-12])
        ntol = rnd.choice([1e-4, 1e-8, 1e-12])
        kdim = rnd.choice([1, 2, 3, n, n + 2, 30])
        where = f"|v|={v.norm().item():.3g} n={n} kind={kind} is_hermitian={herm} exp_tol={etol} norm_tol={ntol} max_krylov_dim={kdim} seed={seed} trial={trial}"
        try:
            res, loc, calls = traced_impl(mod, m, v, herm, etol, ntol, kdim)
        except Exception as e:
            print(f"REPRODUCED: krylov_exp_impl raised {type(e).__name__}: {e} ({where})")
            return 1
        n_runs += 1
        n2, err, j = loc.get("n2"), loc.get("err"), loc.get("j")
        bad = None
        if res.happy_breakdown and not res.converged:
            bad = "happy_breakdown without converged"
        elif res.converged and res.happy_breakdown and not (float(n2) < ntol):
            bad = f"converged by breakdown but n2 = {float(n2)} >= norm_tolerance"
        elif res.converged and not res.happy_breakdown and not (float(err) < etol):
            bad = f"converged reported but the error estimate err = {float(err)} >= exp_tolerance"
        elif res.converged and res.iteration_count != j + 1:
            bad = f"iteration_count {res.iteration_count} != j + 1 = {j + 1}"
        elif not res.converged and (res.iteration_count != kdim or calls["op"] != kdim):
            bad = f"not converged after {calls['op']} operator applications, iteration_count {res.iteration_count}, max_krylov_dim {kdim}"
        elif not (1 <= res.iteration_count <= kdim):
            bad = f"iteration_count {res.iteration_count} outside 1..{kdim}"
        else:
            want = [min(i + 1, 2) if herm else i + 1 for i in range(len(calls["dots"]))]
            if calls["dots"] != want:
                bad = f"orthogonalisation counts per iteration {calls['dots']} != {want} (is_hermitian={herm})"
        if bad:
            print(f"REPRODUCED: krylov_exp_impl: {bad} ({where})")
            return 1
        if res.converged and not torch.isnan(res.result).any():
            # the property's own clause, checked natively: a converged result is within 10 tol |v| (+ rounding)
            ref = torch.linalg.matrix_exp(m) @ v
            dev = (res.result - ref).norm().item()
            budget = 10 * max(etol, ntol) * v.norm().item() + 1e-9 * v.norm().item()
            acc["max_ratio"] = max(acc["max_ratio"], dev / budget)
            # open known finding F27: the a-posteriori estimate err1 = |n2 (e^z - 1)/z| (z = <v|A|v>/<v|v>) vanishes when
            # z is within a small distance of 2 pi i k, so an operator with a large imaginary offset can be declared
            # converged after ONE iteration with an O(1) error.  Such runs are reported apart.
            z = (torch.vdot(v, m @ v) / torch.vdot(v, v)).item()
            in_f27 = res.iteration_count == 1 and not res.happy_breakdown and abs(z) > 3 and abs(cmath.exp(z) - 1) < 0.1
            # open known finding F34: err2 = |expd[j+2,0]| * |A v_j| stands in for |A v_{j+1}|; when the start vector is
            # close to the kernel of A (|A v_0| << |A v_1|) convergence is declared at the first iteration with an error
            # of about |A v_0| |A v_1| / 2
            in_f34 = False
            if res.iteration_count == 1 and not res.happy_breakdown and dev > budget:
                v0 = v / v.norm()
                a0 = m @ v0
                w0 = a0 - torch.vdot(v0, a0) * v0
                if w0.norm().item() > 0:
                    in_f34 = a0.norm().item() < 0.05 * (m @ (w0 / w0.norm())).norm().item()
            if dev > budget and in_f27:
                acc.setdefault("f27", []).append(where)
            elif in_f34:
                acc.setdefault("f34", []).append(where)
            elif budget < dev <= 3 * budget:
                # open known finding F28: for operators of large norm the unchanged code exceeds the property's bound
                # (10 tol |v|) marginally, by up to ~1.1x.  Runs between 1x and 3x the bound are reported apart; the
                # falsifier's own threshold for a NEW violation is 3x the bound
                acc.setdefault("f28", []).append((dev / budget, where, m.tolist() if False else None))
                if os.environ.get("C07_DUMP_F28") and not os.path.exists(os.environ["C07_DUMP_F28"]):
                    json.dump({"m": [[[z.real, z.imag] for z in row] for row in m.tolist()],
                               "v": [[z.real, z.imag] for z in v.tolist()], "herm": bool(herm), "etol": etol, "ntol": ntol,
                               "kdim": kdim, "dev": dev, "budget": budget, "where": where},
                              open(os.environ["C07_DUMP_F28"], "w"))
            elif dev > 3 * budget:
                acc["bad"].append(f"|result - exp(A)v| = {dev:.3g} > 10*tol*|v| = {budget:.3g} ({where})")
        stats["happy" if res.happy_breakdown else ("conv" if res.converged else "noconv")] += 1
        # public entry
        try:
            out = mod.krylov_exp(lambda x: m @ x, v.clone(), exp_tolerance=etol, norm_tolerance=ntol,
                                 is_hermitian=herm, max_krylov_dim=kdim)
            if not res.converged:
                print(f"REPRODUCED: krylov_exp returned a vector although the solver reports converged=False ({where})")
                return 1
            if not torch.equal(out, res.result) and not (torch.isnan(out).any() and torch.isnan(res.result).any()):
                print(f"REPRODUCED: krylov_exp returned a vector different from the solver's result ({where})")
                return 1
        except RecursionError:
            if res.converged:
                print(f"REPRODUCED: krylov_exp raised RecursionError although the solver converged ({where})")
                return 1
    # the fixed F27 input (always run): -i (75.4 + small Hermitian part), |v| ~ 0.9, tolerance 1e-4
    m27 = torch.tensor([[0.0000 - 7.5038e+01j, 0.4951 + 3.1445e-01j, -0.1824 - 7.3593e-02j],
                        [-0.4951 + 3.1445e-01j, 0.0000 - 7.5137e+01j, 0.3117 - 1.2276e-01j],
                        [0.1824 - 7.3593e-02j, -0.3117 - 1.2276e-01j, 0.0000 - 7.5723e+01j]], dtype=dt)
    v27 = torch.tensor([0.0578 - 0.0540j, 0.2528 + 0.1656j, -0.8295 + 0.1958j], dtype=dt)
    r27 = mod.krylov_exp_impl(lambda x: m27 @ x, v27.clone(), is_hermitian=True, exp_tolerance=1e-4, norm_tolerance=1e-4,
                              max_krylov_dim=30)
    d27 = (r27.result - torch.linalg.matrix_exp(m27) @ v27).norm().item()
    if r27.converged and d27 > 10 * 1e-4 * v27.norm().item():
        print(f"  KNOWN-FINDING-F27-INPUT-FAILS: -i(75.4 + h) on 3 levels, tolerance 1e-4: converged after "
              f"{r27.iteration_count} iteration(s) with |result - exp(A)v| = {d27:.3g}"
              + (f"; {len(acc.get('f27', []))} sampled runs of the same kind" if acc.get("f27") else ""))
    elif acc.get("f27"):
        print(f"  KNOWN-FINDING-F27-INPUT-FAILS: {len(acc['f27'])} sampled runs (first: {acc['f27'][0]})")
    # the fixed F34 input (always run): a Hermitian 4-level operator with a zero eigenvalue, start vector within 1e-5 of
    # its kernel, tolerance 1e-8
    h34 = torch.tensor([[0.0, 0.0, 0.0, 0.0], [0.0, 3.0, 1.0, 0.5], [0.0, 1.0, -4.0, 2.0], [0.0, 0.5, 2.0, 5.0]], dtype=dt)
    m34 = -1j * h34
    v34 = torch.tensor([1.0, 1e-5, -2e-5, 1e-5], dtype=dt)
    r34 = mod.krylov_exp_impl(lambda x: m34 @ x, v34.clone(), is_hermitian=True, exp_tolerance=1e-8, norm_tolerance=1e-8,
                              max_krylov_dim=30)
    d34 = (r34.result - torch.linalg.matrix_exp(m34) @ v34).norm().item()
    if r34.converged and d34 > 10 * 1e-8 * v34.norm().item():
        print(f"  KNOWN-FINDING-F34-INPUT-FAILS: -iH on 4 levels, H with a zero eigenvalue, start vector within 2.4e-5 of its "
              f"kernel, tolerance 1e-8: converged after {r34.iteration_count} iteration(s) with |result - exp(A)v| = {d34:.3g}"
              + (f"; {len(acc.get('f34', []))} sampled runs of the same kind" if acc.get("f34") else ""))
    elif acc.get("f34"):
        print(f"  KNOWN-FINDING-F34-INPUT-FAILS: {len(acc['f34'])} sampled runs (first: {acc['f34'][0]})")
    f28 = os.path.join(os.path.dirname(os.path.abspath(__file__)), "data", "c07_f28.json")
    if os.path.exists(f28):
        d = json.load(open(f28))
        m28 = torch.tensor([[complex(*z) for z in row] for row in d["m"]], dtype=dt)
        v28 = torch.tensor([complex(*z) for z in d["v"]], dtype=dt)
        r28 = mod.krylov_exp_impl(lambda x: m28 @ x, v28.clone(), is_hermitian=d["herm"], exp_tolerance=d["etol"],
                                  norm_tolerance=d["ntol"], max_krylov_dim=d["kdim"])
        d28 = (r28.result - torch.linalg.matrix_exp(m28) @ v28).norm().item()
        b28 = 10 * max(d["etol"], d["ntol"]) * v28.norm().item() + 1e-9 * v28.norm().item()
        if r28.converged and d28 > b28:
            print(f"  KNOWN-FINDING-F28-INPUT-FAILS: recorded {m28.shape[0]}-level operator of norm {m28.norm().item():.3g}: converged "
                  f"with |result - exp(A)v| = {d28:.3g} = {d28 / b28:.3g} x the bound 10 tol |v|"
                  + (f"; {len(acc.get('f28', []))} sampled runs between 1x and 3x the bound (worst {max(x[0] for x in acc['f28']):.3g}x)" if acc.get("f28") else ""))
    if acc["bad"]:
        print(f"REPRODUCED: krylov_exp_impl reports convergence but the result is inaccurate: {acc['bad'][0]} "
              f"({len(acc['bad'])} such runs)")
        return 1
    print(f"  accuracy of converged results: max deviation / (10 tol |v|) = {acc['max_ratio']:.3g}")
    print(f"NOT-REPRODUCED: {n_runs} random runs ({stats}) satisfy the convergence-flag clauses")
    return 0


if __name__ == "__main__":
    sys.exit(main())
