"""C34 native replay: count the simulations a multi-trajectory run performs and what is aggregated."""
import sys, os
HERE = os.path.dirname(os.path.abspath(__file__))
sys.path.insert(0, HERE)


def main():
    import pulser
    from pulser.devices import MockDevice
    from native_util import patch_pulser_observable
    patch_pulser_observable()
    from pulser.backend import Results
    import emu_mps.mps_backend as MB
    import emu_sv.sv_backend as SB
    from emu_mps import MPSConfig, MPSBackend, BitStrings
    from emu_sv import SVConfig, SVBackend
    reg = pulser.Register.from_coordinates([(0, 0), (8, 0), (16, 0), (24, 0)], prefix="q")
    seq = pulser.Sequence(reg, MockDevice)
    seq.declare_channel("ch", "rydberg_global")
    seq.add(pulser.Pulse.ConstantPulse(100, 2.0, 0.0, 0.0), "ch")
    # the number of trajectories pulser is asked for is the configured one, however the noise model is given
    # (through the config, or through the device's default noise model -- which may still carry the
    # deprecated NoiseModel.runs)
    import dataclasses
    import emu_base.pulser_adapter as PA
    from emu_base import PulserData
    asked = {}
    orig_fs = PA.HamiltonianData.from_sequence

    def spy_fs(*a, **k):
        asked["n"] = k.get("n_trajectories")
        return orig_fs(*a, **k)
    for via_device, runs, n_traj in ((False, None, 4), (True, None, 5), (True, 3, 5), (True, 7, 2), ("no noise", None, 3)):
        extra = {} if runs is None else {"runs": runs, "samples_per_run": 1}
        try:
            # ("no noise": an empty noise model -- several trajectories are still several simulations)
            noise = pulser.NoiseModel(**extra) if via_device == "no noise" else pulser.NoiseModel(state_prep_error=0.05, **extra)
        except Exception as e:
            print(f"  scenario runs={runs}: noise model not constructible ({type(e).__name__}); skipped")
            continue
        dev = dataclasses.replace(MockDevice, default_noise_model=noise) if via_device is True else MockDevice
        s2 = pulser.Sequence(reg, dev)
        s2.declare_channel("ch", "rydberg_global")
        s2.add(pulser.Pulse.ConstantPulse(100, 2.0, 0.0, 0.0), "ch")
        kw = {"prefer_device_noise_model": True} if via_device is True else ({} if via_device == "no noise" else {"noise_model": noise})
        cfg = SVConfig(n_trajectories=n_traj, observables=[BitStrings(evaluation_times=[1.0], num_shots=10)], log_level=50, **kw)
        PA.HamiltonianData.from_sequence = staticmethod(spy_fs)
        try:
            pd = PulserData(sequence=s2, config=cfg, dt=cfg.dt)
            n_seq = sum(1 for _ in pd.get_sequences())
        finally:
            PA.HamiltonianData.from_sequence = orig_fs
        print(f"  noise model via {'device' if via_device else 'config'}, NoiseModel.runs={runs}, n_trajectories={n_traj}: "
              f"pulser asked for {asked.get('n')}, {n_seq} sequences yielded")
        if asked.get("n") != n_traj or n_seq != n_traj:
            print(f"REPRODUCED: n_trajectories={n_traj} configured (noise model via {'the device' if via_device else 'the config'}, "
                  f"NoiseModel.runs={runs}) but pulser was asked for {asked.get('n')} trajectories and {n_seq} simulations "
                  "would be run and aggregated")
            return 1
    bad = None
    for ntraj in (1, 3, 5):
        nm = pulser.NoiseModel(state_prep_error=0.05)
        for name, B, C, mod in (("emu-mps", MPSBackend, MPSConfig, MB), ("emu-sv", SVBackend, SVConfig, SB)):
            runs = []
            orig = B._run_from_sequence_data
            agg = {}
            orig_agg = Results.aggregate

            def counting(sd, cfg, _o=orig):
                r = _o(sd, cfg)
                runs.append(r)
                return r

            def agg_spy(results, *a, **k):
                agg["n"] = len(results)
                return orig_agg(results, *a, **k)
            B._run_from_sequence_data = staticmethod(counting)
            mod.Results.aggregate = staticmethod(agg_spy)
            try:
                cfg = C(noise_model=nm, n_trajectories=ntraj, observables=[BitStrings(evaluation_times=[1.0], num_shots=10)],
                        log_level=50)
                res = B(seq, config=cfg).run()
            finally:
                B._run_from_sequence_data = staticmethod(orig)
                mod.Results.aggregate = orig_agg
            total = sum(res.bitstrings[-1].values())
            print(f"  {name}: n_trajectories={ntraj}: simulations={len(runs)} aggregated={agg.get('n')} shots={total}")
            if len(runs) != ntraj or agg.get("n") != ntraj or total != 10 * ntraj:
                bad = (name, ntraj, len(runs), agg.get("n"), total)
    # a run that dies after some trajectories (a failing callback, Ctrl-C) must not leak into the next run() of the
    # same backend object: the second run aggregates exactly its own n trajectories
    if not bad:
        nm = pulser.NoiseModel(state_prep_error=0.05)
        for name, B, C, mod in (("emu-mps", MPSBackend, MPSConfig, MB), ("emu-sv", SVBackend, SVConfig, SB)):
            ntraj = 4
            cfg = C(noise_model=nm, n_trajectories=ntraj, observables=[BitStrings(evaluation_times=[1.0], num_shots=10)], log_level=50)
            backend = B(seq, config=cfg)
            orig = B._run_from_sequence_data
            calls = {"n": 0}

            def dies(sd, cfg_, _o=orig):
                calls["n"] += 1
                if calls["n"] == 3:
                    raise KeyboardInterrupt("interrupted by the falsifier after two finished trajectories")
                return _o(sd, cfg_)
            B._run_from_sequence_data = staticmethod(dies)
            try:
                try:
                    backend.run()
                except KeyboardInterrupt:
                    pass
            finally:
                B._run_from_sequence_data = staticmethod(orig)
            agg = {}
            orig_agg = Results.aggregate

            def agg_spy(results, *a, **k):
                agg["n"] = len(results)
                return orig_agg(results, *a, **k)
            mod.Results.aggregate = staticmethod(agg_spy)
            try:
                res = backend.run()
            finally:
                mod.Results.aggregate = orig_agg
            total = sum(res.bitstrings[-1].values())
            print(f"  {name}: run interrupted after 2 of {ntraj} trajectories, then run again on the same backend: aggregated "
                  f"{agg.get('n')} results, {total} shots")
            if agg.get("n") != ntraj or total != 10 * ntraj:
                print(f"REPRODUCED: {name}: a run() interrupted after 2 finished trajectories leaks into the next run() of the same "
                      f"backend object: {agg.get('n')} results aggregated and {total} shots for n_trajectories={ntraj} "
                      f"(expected {ntraj} and {10 * ntraj})")
                return 1
    # many trajectories: the LAST
    # aggregation must receive exactly the per-trajectory results, each once, nothing pre-folded
    if not bad:
        nm = pulser.NoiseModel(state_prep_error=0.05)
        for name, B, C, mod in (("emu-mps", MPSBackend, MPSConfig, MB), ("emu-sv", SVBackend, SVConfig, SB)):
            orig = B._run_from_sequence_data
            for ntraj in (17, 40):
                made, calls = [], []
                orig_agg = Results.aggregate

                def stub(sd, cfg, _o=orig):
                    r = _o(sd, cfg)
                    made.append(r)
                    return r

                def agg_spy(results, *a, **k):
                    calls.append(list(results))
                    return orig_agg(results, *a, **k)
                B._run_from_sequence_data = staticmethod(stub)
                mod.Results.aggregate = staticmethod(agg_spy)
                try:
                    cfg = C(noise_model=nm, n_trajectories=ntraj, observables=[BitStrings(evaluation_times=[1.0], num_shots=10)], log_level=50)
                    res = B(seq, config=cfg).run()
                finally:
                    B._run_from_sequence_data = staticmethod(orig)
                    mod.Results.aggregate = orig_agg
                last = calls[-1] if calls else []
                same = len(last) == len(made) and all(a is b for a, b in zip(last, made))
                total = sum(res.bitstrings[-1].values())
                print(f"  {name}: n_trajectories={ntraj} : simulations={len(made)} aggregate calls={len(calls)} "
                      f"final aggregate over {len(last)} results, all per-trajectory results={same}, shots={total}")
                if len(made) != ntraj or not same or total != 10 * ntraj:
                    print(f"REPRODUCED: {name} with n_trajectories={ntraj}: {len(made)} simulations, the final "
                          f"Results.aggregate received {len(last)} objects ({'the per-trajectory results' if same else 'NOT the per-trajectory results, e.g. pre-folded partial aggregates'}), "
                          f"{len(calls)} aggregate calls, bitstring total {total} (expected {10 * ntraj})")
                    return 1
    if bad:
        print(f"REPRODUCED: {bad[0]} with n_trajectories={bad[1]} ran {bad[2]} simulations, aggregated {bad[3]}, "
              f"bitstring counts add up to {bad[4]} (expected {10 * bad[1]})")
        return 1
    print("NOT-REPRODUCED: every requested trajectory was simulated once and aggregated")
    return 0


if __name__ == "__main__":
    sys.exit(main())
