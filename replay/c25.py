"""C25 native replay (emu-mps, permutation clause): with qubit-order optimisation on, the bad-atom
filter must select the SITES of the well-prepared atoms (site k <-> atom perm[k]): bad atoms stay
in |g>, the others evolve as without reordering."""
import os, sys
sys.path.insert(0, os.path.dirname(os.path.abspath(__file__)))
import torch
import perm_native as N


def main():
    N.setup()
    N.in_tmp_dir()
    bad = [True, False, False, False]
    impl, sd, cfg = N.make_impl(True, bad_atoms=bad)
    perm = impl.qubit_permutation.tolist()
    if perm == [0, 1, 2, 3]:
        print("NOT-REPRODUCED: the optimiser kept the register order (scenario needs a reordering)")
        return 0
    impl.init()
    filt = impl.well_prepared_qubits_filter.tolist()
    want = [not bad[p] for p in perm]
    J = N.chain_matrix()
    good = [p for p in perm if not bad[p]]
    want_J = J[good][:, good]
    msgs = []
    if filt != want:
        msgs.append(f"atom 0 is badly prepared, perm = {perm}: the per-site filter is {filt}, expected "
                    f"well_prepared[perm[k]] = {want}")
    if not torch.equal(impl.current_interaction_matrix, want_J):
        msgs.append(f"reduced interaction matrix {impl.current_interaction_matrix.tolist()} is not that of the good atoms "
                    f"{good}: {want_J.tolist()}")
    _, r_on = N.run(True, bad)
    _, r_off = N.run(False, bad)
    a, b = torch.as_tensor(r_on.occupation[-1]), torch.as_tensor(r_off.occupation[-1])
    if a[0].abs() > 1e-12 or not torch.allclose(a, b, atol=1e-6):
        msgs.append(f"final occupations (atom order {tuple(r_on.atom_order)}) with reordering {[round(float(x), 5) for x in a]}"
                    f" vs without {[round(float(x), 5) for x in b]}: bad atom 0 must stay at 0")
    if msgs:
        print("REPRODUCED: " + msgs[0])
        for m in msgs[1:]:
            print("  also: " + m)
        return 1
    print(f"NOT-REPRODUCED: perm {perm}, bad atom 0: filter {filt}, reduced matrix and occupations as without reordering")
    return 0


if __name__ == "__main__":
    sys.exit(main())
