"""C25 native replay.  (1) emu-mps, permutation clauses: with qubit-order optimisation on, the bad-atom
filter must select the SITES of the well-prepared atoms (site k <-> atom perm[k]): bad atoms stay
in |g>, the others keep their own drives and couplings and evolve as without reordering.
(2) replay/c25_dark.py: the dark-site padding helpers (physical dimension 2 and 3), emu-mps with a
leakage level and bad atoms against the run without the bad atoms, emu-sv without jump operators.
The inputs of the open known findings F24 (emu-sv: jump operators act on bad atoms) and F25 (emu-mps:
fewer than two well-prepared atoms) are run and printed as KNOWN-FINDING-Fxx-INPUT-FAILS; they are never
part of the verdict."""
import os, sys
sys.path.insert(0, os.path.dirname(os.path.abspath(__file__)))
import torch
import perm_native as N
import perm_units as U
import c25_dark as K


def main():
    N.setup()
    N.in_tmp_dir()
    bad = [True, False, False, False]
    msgs = []
    perm = None
    try:          # an exception inside a run with bad atoms is a reproduction too (e.g. a padded list that is no valid MPS)
        impl, sd, cfg = N.make_impl(True, bad_atoms=bad)
        perm = impl.qubit_permutation.tolist()
        if perm == [0, 1, 2, 3]:
            print("  note: the optimiser kept the register order (the permutation scenarios need a reordering)")
        m = U.dark_qubits_unit()
        if m:
            msgs.append(m)
        _, r_on = N.run(True, bad)
        _, r_off = N.run(False, bad)
        a, b = torch.as_tensor(r_on.occupation[-1]), torch.as_tensor(r_off.occupation[-1])
        if a[0].abs() > 1e-12 or not torch.allclose(a, b, atol=1e-6):
            msgs.append(f"atom 0 badly prepared, perm {perm}: final occupations (atom order {tuple(r_on.atom_order)}) with "
                        f"reordering {[round(float(x), 5) for x in a]} vs without {[round(float(x), 5) for x in b]}: bad atom 0 "
                        "must stay at 0 and the others must agree")
        # second scenario: a permutation that is not an involution (perm != inv_perm), one bad atom at a time
        G = N.grid_matrix()
        impl6, _, _ = N.make_impl(True, bad_atoms=[False] * 6, matrix=G)
        perm6 = impl6.qubit_permutation.tolist()
        inv6 = [perm6.index(k) for k in range(6)]
        if perm6 != inv6:
            for bad_atom in (1, 4):
                bad6 = [k == bad_atom for k in range(6)]
                _, r_on = N.run(True, bad6, matrix=G)
                _, r_off = N.run(False, bad6, matrix=G)
                a, b = torch.as_tensor(r_on.occupation[-1]), torch.as_tensor(r_off.occupation[-1])
                if a[bad_atom].abs() > 1e-12 or not torch.allclose(a, b, atol=1e-6):
                    msgs.append(f"2x3 grid, atom {bad_atom} badly prepared, perm {perm6} (inverse {inv6}): final occupations with "
                                f"reordering {[round(float(x), 5) for x in a]} vs without {[round(float(x), 5) for x in b]}: the "
                                f"bad atom must stay at 0 and the others must agree")
                    break
        else:
            print(f"  note: grid permutation {perm6} is an involution; second scenario skipped")
    except Exception as e:
        msgs.append(f"emu-mps run with a badly prepared atom and qubit ordering: {type(e).__name__}: "
                    f"{' '.join(str(e).split())[:160]} ({K.where_exc(e)})")
    # dark-site padding, leakage level, emu-sv
    msgs += K.padding_units(int(os.environ.get("VERIF_SEED", "0")))
    m = K.fill_results_unit()
    if m:
        msgs.append(m)
    msgs += K.leakage()
    msgs += K.sv_without_jumps()
    msgs += K.sv_trajectories_do_not_share_the_matrix()
    K.known_f24()
    K.known_f25()
    if msgs:
        print("REPRODUCED: " + msgs[0])
        for m in msgs[1:]:
            print("  also: " + m)
        return 1
    print(f"NOT-REPRODUCED: perm {perm}: per-site filter, reduced drives / matrix of the good atoms, occupations as "
          "without reordering; padding helpers at physical dimension 2 and 3; 3-level runs with bad atoms agree with "
          "the runs without them (ordering off / on); emu-sv without jump operators keeps bad atoms in |g>")
    return 0


if __name__ == "__main__":
    ROOT = os.path.abspath(sys.argv[2] if len(sys.argv) > 2 else os.getcwd())
    sys.exit(N.cached("c25", main, ROOT))
