"""C02 native falsifier, end-to-end part through real Pulser sequences (adopted from the demonstration of seed C02-e):
per-atom drives (local channel, detuning map) on registers whose labels are NOT in sorted order, qubit-order
optimisation on and off; occupations and correlation matrices against a dense scipy.linalg.expm evolution of the
Hamiltonian rebuilt from Pulser's channel samples and the register coordinates (nothing of the emulators package).
exit 1 + 'REPRODUCED: ...' when a value differs by more than 2e-4.

"""

import os

os.environ.setdefault("OMP_NUM_THREADS", "1")

import sys
import warnings
import logging

import numpy as np
import scipy.linalg as sla
import torch

torch.set_num_threads(1)
warnings.filterwarnings("ignore")

import pulser
from pulser import Pulse, Register, Sequence
from pulser.devices import MockDevice
from pulser.sampler import sample
from pulser.waveforms import ConstantWaveform
from pulser.backend import CorrelationMatrix, Occupation

from emu_mps import MPSBackend, MPSConfig

DT = 10
TOL = 2e-4
EVAL_TIMES = [0.5, 1.0]


# --------------------------------------------------------------------------
# independent dense reference
# --------------------------------------------------------------------------
def per_atom_drives(seq, weights):
    """Omega_i(t), delta_i(t), phi_i(t) at 1 ns resolution, atoms in REGISTER
    order, from the channel samples of Pulser."""
    ids = list(seq.register.qubit_ids)
    pos = {q: k for k, q in enumerate(ids)}
    smp = sample(seq)
    T = smp.max_duration
    amp = np.zeros((len(ids), T))
    det = np.zeros((len(ids), T))
    pha = np.zeros((len(ids), T))
    for name, cs in smp.channel_samples.items():
        cs = cs.extend_duration(T) if cs.duration != T else cs
        is_dmm = name.startswith("dmm")
        for slot in cs.slots:
            for q in slot.targets:
                w = weights.get(q, 0.0) if is_dmm else 1.0
                sl = slice(slot.ti, slot.tf)
                amp[pos[q], sl] += np.asarray(cs.amp[sl], dtype=float)
                det[pos[q], sl] += w * np.asarray(cs.det[sl], dtype=float)
                pha[pos[q], sl] += np.asarray(cs.phase[sl], dtype=float)
    return amp, det, pha, T


def op_on(op, k, n):
    mats = [np.eye(2, dtype=complex)] * n
    mats[k] = op
    out = mats[0]
    for m in mats[1:]:
        out = np.kron(out, m)
    return out


def dense_reference(seq, weights):
    """Occupations and <n_i n_j> at EVAL_TIMES, atoms in register order.
    Basis per atom: index 0 = g, index 1 = r; atom 0 is the leftmost factor."""
    ids = list(seq.register.qubit_ids)
    n = len(ids)
    coords = np.array([np.asarray(seq.register.qubits[q], dtype=float) for q in ids])
    c6 = float(seq.device.interaction_coeff)
    amp, det, pha, T = per_atom_drives(seq, weights)
    assert T % DT == 0

    nop = np.array([[0, 0], [0, 1]], dtype=complex)
    rg = np.array([[0, 0], [1, 0]], dtype=complex)  # |r><g|
    N = [op_on(nop, k, n) for k in range(n)]
    RG = [op_on(rg, k, n) for k in range(n)]

    h_int = np.zeros((2**n, 2**n), dtype=complex)
    for i in range(n):
        for j in range(i + 1, n):
            r = np.linalg.norm(coords[i] - coords[j])
            h_int += c6 / r**6 * N[i] @ N[j]

    psi = np.zeros(2**n, dtype=complex)
    psi[0] = 1.0
    out = {}
    steps = T // DT
    for s in range(steps):
        win = slice(s * DT, (s + 1) * DT)
        for arr in (amp, det, pha):  # the Hamiltonian really is constant on a step
            assert np.allclose(arr[:, win], arr[:, win.start : win.start + 1])
        h = h_int.copy()
        for k in range(n):
            om, de, ph = amp[k, win.start], det[k, win.start], pha[k, win.start]
            h += 0.5 * om * (np.exp(1j * ph) * RG[k] + np.exp(-1j * ph) * RG[k].conj().T)
            h -= de * N[k]
        psi = sla.expm(-1j * h * DT * 1e-3) @ psi
        t_rel = (s + 1) * DT / T
        for et in EVAL_TIMES:
            if abs(t_rel - et) < 1e-12:
                occ = np.array([np.vdot(psi, N[k] @ psi).real for k in range(n)])
                cor = np.array(
                    [[np.vdot(psi, N[i] @ N[j] @ psi).real for j in range(n)] for i in range(n)]
                )
                out[et] = (occ, cor)
    assert set(out) == set(EVAL_TIMES)
    return out


# --------------------------------------------------------------------------
# sequences
# --------------------------------------------------------------------------
NAMES = ("probe", "control", "target", "ancilla", "bus")
COORDS = ((0.0, 0.0), (7.0, 0.0), (0.0, 7.5), (7.5, 8.0), (14.5, 1.0))


def labelled_register(names=NAMES):
    # user-chosen names; register order is not the alphabetical order
    return Register(dict(zip(names, COORDS)))


def seq_local_channel(names=NAMES):
    seq = Sequence(labelled_register(names), MockDevice)
    seq.declare_channel("glob", "rydberg_global")
    seq.declare_channel("loc", "rydberg_local", initial_target=names[1])
    seq.add(Pulse.ConstantPulse(200, 5.0, 1.5, 0.0), "glob")
    seq.add(Pulse.ConstantPulse(200, 7.0, -2.0, 0.6), "loc")
    seq.target(names[4], "loc")
    seq.add(Pulse.ConstantPulse(100, 4.0, 3.0, 0.0), "loc")
    seq.add(Pulse.ConstantPulse(100, 3.0, 0.0, 1.1), "glob")
    return seq, {}


def seq_detuning_map():
    reg = labelled_register()
    weights = {"probe": 0.05, "control": 0.5, "target": 0.0, "ancilla": 0.35, "bus": 0.1}
    dmap = reg.define_detuning_map(weights)
    seq = Sequence(reg, MockDevice)
    seq.config_detuning_map(dmap, "dmm_0")
    seq.declare_channel("glob", "rydberg_global")
    seq.add_dmm_detuning(ConstantWaveform(300, -25.0), "dmm_0")
    seq.add(Pulse.ConstantPulse(300, 6.0, 2.0, 0.0), "glob", protocol="no-delay")
    seq.add(Pulse.ConstantPulse(100, 2.0, -1.0, 0.4), "glob")
    return seq, weights


def seq_global_only():
    # control: same register, no per-atom drive
    seq = Sequence(labelled_register(), MockDevice)
    seq.declare_channel("glob", "rydberg_global")
    seq.add(Pulse.ConstantPulse(300, 6.0, 2.0, 0.3), "glob")
    return seq, {}


# --------------------------------------------------------------------------
def run_case(name, seq, weights, optimize):
    torch.manual_seed(1234)
    cfg = MPSConfig(
        dt=DT,
        precision=1e-8,
        optimize_qubit_ordering=optimize,
        observables=[
            Occupation(evaluation_times=EVAL_TIMES),
            CorrelationMatrix(evaluation_times=EVAL_TIMES),
        ],
        log_level=logging.ERROR,
    )
    res = MPSBackend(seq, config=cfg).run()
    ref = dense_reference(seq, weights)
    ids = tuple(seq.register.qubit_ids)
    bad = False
    if tuple(res.atom_order) != ids:
        print(f"[{name}, reorder={optimize}] atom_order {res.atom_order} != register {ids}")
        bad = True
    times = res.get_result_times("occupation")
    for et in EVAL_TIMES:
        k = min(range(len(times)), key=lambda i: abs(times[i] - et))
        occ = np.asarray(res.occupation[k], dtype=float)
        cor = np.asarray(torch.as_tensor(res.correlation_matrix[k]).real, dtype=float)
        r_occ, r_cor = ref[et]
        e_occ = np.abs(occ - r_occ).max()
        e_cor = np.abs(cor - r_cor).max()
        ok = e_occ < TOL and e_cor < TOL
        print(
            f"[{name}, reorder={optimize}] t/T={et}: max|occ-ref|={e_occ:.2e} "
            f"max|corr-ref|={e_cor:.2e} {'ok' if ok else 'MISMATCH'}"
        )
        if not ok:
            bad = True
            print("    atoms     :", ids)
            print("    emu-mps   :", np.round(occ, 5))
            print("    reference :", np.round(r_occ, 5))
    return bad


def main():
    cases = [
        ("global only", *seq_global_only()),
        # control: same geometry and pulses, labels q0..q4 (already sorted)
        ("local channel, labels q0..q4", *seq_local_channel(tuple(f"q{i}" for i in range(5)))),
        ("local channel", *seq_local_channel()),
        ("detuning map", *seq_detuning_map()),
    ]
    violated = False
    for name, seq, weights in cases:
        for optimize in (False, True):
            violated |= run_case(name, seq, weights, optimize)
    if violated:
        print("REPRODUCED: emu-mps does not reproduce the dynamics of a Pulser sequence with per-atom drives on a register "
              "with user-chosen labels (cases above)")
        return 1
    print("NOT-REPRODUCED: global, local-channel and detuning-map sequences on registers with sorted and unsorted labels "
          "match the dense reference (optimisation on and off)")
    return 0


if __name__ == "__main__":
    sys.exit(main())
